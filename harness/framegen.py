# -*- coding: utf-8 -*-
"""Frame generators, builders and the whole-row integrity check (DESIGN.md §3.4, §3.5)."""

import numpy as np

from harness import vecgen

FRAME_KINDS = ["float", "int", "bool", "str", "strlong", "date", "datetime", "timedelta", "objint", "objstr", "ustr"]
KEY_KINDS = ["float", "int", "bool", "str", "strlong", "date", "datetime", "timedelta", "objstr", "ustr"]
# unsigned keys: 0 is the smallest value and has no negative (sorted descending it must still come last)
UINT_KINDS = ["uint8", "uint64"]
NAMES = ["a", "b", "c", "d", "e"]
# column names a file or another library may bring: not in Unicode normal form (superscripts, the micro sign, ligatures,
# compatibility letters, decomposed accents), next to their normalised look-alikes; with spaces; not identifiers; and names
# that are also attributes of every dict (`values`, `items`, `keys`, `copy`): data names, looked up by key
ODD_NAMES = ["values", "items", "keys", "copy", "area_m\u00b2", "area_m2", "dose_\u00b5g", "dose_\u03bcg", "temp_\u2103", "\ufb01eld", "e\u0301te\u0301", "\u00e9t\u00e9", "\uff57ide", "a b", "2nd", "\u212b"]
ODD_NAMES_LATIN1 = ["values", "items", "keys", "area_m\u00b2", "area_m2", "dose_\u00b5g", "\u00e9t\u00e9", "a b", "2nd"]


def odd_names(rng, spec, latin1=False, p=0.3):
    """with probability p, give the columns of spec names from ODD_NAMES (distinct), in place"""
    if spec["cols"] and rng.random() < p:
        pool = ODD_NAMES_LATIN1 if latin1 else ODD_NAMES
        for c, nm in zip(spec["cols"], rng.sample(pool, min(len(pool), len(spec["cols"])))):
            c["name"] = nm
    return spec


def gen_frame(rng, tier, ncols=None, nrows=None, kinds=None):
    """JSON-able frame spec: {"n": nrows, "cols": [{"name","kind","vals"}]}"""
    if nrows is None:
        nrows = vecgen.gen_len(rng, tier)
        if nrows > 12 and rng.random() < 0.6:
            nrows = rng.randint(2, 8)
    if ncols is None:
        ncols = rng.choice([1, 2, 2, 3, 3, 4])
    cols = []
    for j in range(ncols):
        kind = rng.choice(kinds or FRAME_KINDS)
        cols.append({"name": NAMES[j], "kind": kind, "vals": vecgen.gen_vals(rng, kind, nrows)})
    return {"n": nrows, "cols": cols}


def build(spec, rid="_rid_"):
    """DataFrame with a hidden row-id column."""
    import dataiter as di
    data = {}
    for c in spec["cols"]:
        data[c["name"]] = vecgen.make_array(c["kind"], c["vals"])
    if rid:
        data[rid] = np.arange(spec["n"], dtype=np.int64)
    df = di.DataFrame(**data)
    for c in spec["cols"]:
        # a fixed-width string column can also enter a frame as a ready DataFrameColumn (`data.a = data.a.astype("U4")`),
        # which the frame takes as it is; every second such column comes in that way
        if c["kind"] == "ustr" and (len(c["vals"]) + len(c["name"])) % 2 == 0:
            n = max([len(v) for v in c["vals"]] + [1])
            df[c["name"]] = df[c["name"]].astype(f"<U{n}")
    from harness import warm
    if warm.ENABLED:
        warm.frame_through_history(df, skip=(rid,) if rid else ())
    return df


def col(spec, name):
    for c in spec["cols"]:
        if c["name"] == name:
            return c
    raise KeyError(name)


def canon_frame(df):
    return {k: vecgen.canon_array(v) for k, v in df.items()}


def snapshot(df):
    """dtype + canonical values + column order: to detect receiver/argument mutation."""
    return [(k, str(v.dtype), vecgen.canon_array(v)) for k, v in df.items()]


def kind_flags(c):
    kind, vals = c["kind"], c["vals"]
    is_string = kind in ("str", "strlong", "ustr")
    if kind == "ustr":
        fast = True
    elif kind in ("str", "strlong"):
        mx = max([len(v) for v in vals] + [0])
        fast = 0 < mx < 50
    elif kind in ("objint", "objstr"):
        fast = False
    else:
        fast = True
    return {"isString": is_string, "fastAsc": fast,
            "isNumber": kind in ("int", "float", "timedelta", "uint8", "uint64"), "isInteger": kind in ("int", "uint8", "uint64")}


def rows_integrity(spec, out_df, rid="_rid_"):
    """Every output row equals input row rid[j] in every column.
    Returns (rids, problem|None)."""
    if rid not in out_df:
        return None, "row-id column lost"
    rids = [int(x) for x in out_df[rid]]
    names = [c["name"] for c in spec["cols"]]
    if [k for k in out_df.colnames if k != rid] != names:
        return rids, f"column names/order changed: {out_df.colnames}"
    for c in spec["cols"]:
        src = vecgen.canon_vals(c["kind"], c["vals"])
        got = vecgen.canon_array(out_df[c["name"]])
        if len(got) != len(rids):
            return rids, f"column {c['name']} has length {len(got)} != {len(rids)}"
        for j, r in enumerate(rids):
            if not (0 <= r < spec["n"]):
                return rids, f"row id {r} out of range"
            a, b = src[r], got[j]
            if vecgen.canon_is_na(c["kind"], a) and vecgen.canon_is_na(c["kind"], b):
                continue
            if a != b or type(a) is not type(b):
                return rids, f"row {j} (input row {r}) differs in column {c['name']}: {b!r} != {a!r}"
    return rids, None


def key_tuple(spec, names, i):
    """NA-aware python key of row i (missing == missing, equal to nothing else; 0.0 == -0.0)."""
    out = []
    for nm in names:
        c = col(spec, nm)
        v = vecgen.canon_vals(c["kind"], c["vals"])[i]
        if vecgen.canon_is_na(c["kind"], v):
            out.append(("NA",))
        elif c["kind"] == "date":
            out.append(("v", v * 86400000000))       # a date is the instant of its midnight: equal to a datetime key of another unit
        else:
            out.append(("v", vecgen.sort_key(c["kind"], v)))
    return tuple(out)


def row_has_na(spec, names, i):
    for nm in names:
        c = col(spec, nm)
        if vecgen.is_na_val(c["kind"], c["vals"][i]):
            return True
    return False

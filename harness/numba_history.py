# -*- coding: utf-8 -*-
"""
Run one history of first uses of accelerated helpers in THIS (fresh) interpreter and print,
per step, the Numba-path result and the Python-path result on identical input.

usage: numba_history.py <json>   with {"steps": [{"helper","kind","args"}...]}
env:   VERIF_REPO, NUMBA_CACHE_DIR, DATAITER_USE_NUMBA_CACHE
"""

import json
import os
import sys

sys.path.insert(0, os.path.dirname(os.path.dirname(os.path.abspath(__file__))))
REPO = os.environ.get("VERIF_REPO", "/repo")
sys.path.insert(0, REPO)

FRAMES = {
    "float": {"g": [0, 0, 1, 1, 2, 2, 3, 3], "vals": [5.5, 1.5, 7.5, 2.5, 9.5, 3.5, 11.5, 4.5]},
    "floatna": {"g": [0, 0, 1, 1, 2, 2, 3], "vals": [5.5, "nan", "nan", "nan", 9.5, 3.5, 1.0]},
    "int": {"g": [0, 0, 1, 1, 2, 2, 3, 3], "vals": [5, 1, 7, 2, 9, 3, 11, 4]},
    "bool": {"g": [0, 0, 1, 1, 2, 2], "vals": [True, False, False, False, True, True]},
    "date": {"g": [0, 0, 1, 1, 2, 2], "vals": [5, 1, 7, None, 9, 3]},
}


def main():
    hist = json.loads(sys.argv[1])
    from harness.props import C07
    import dataiter
    assert os.path.realpath(dataiter.__file__).startswith(os.path.realpath(REPO))
    out = []
    for st in hist["steps"]:
        fk = st["kind"]
        kind = "float" if fk == "floatna" else fk
        case = {"op": "group", "helper": st["helper"], "kind": kind, "args": st.get("args", {}),
                "vals": FRAMES[fk]["vals"], "g": FRAMES[fk]["g"]}
        nb = C07.impl(case, use_numba=True)
        py = C07.impl(case, use_numba=False)
        out.append({"numba": nb, "python": py})
    print("RESULT " + json.dumps(out))


if __name__ == "__main__":
    main()

# -*- coding: utf-8 -*-
"""C16 — ListOfDicts joins and aggregation follow first-match / partition rules."""

import copy
import functools
import io
import sys
from contextlib import redirect_stdout

from harness import common, lodgen

LEVEL = {"partial": ["dict / set lookups on key tuples and sorted() are stand-ins validated by the correspondence run",
                     "full_join is modelled with first-match lookups (justified by the theorem reversed_dict_first) and one stable lexicographic sort instead of the two-pass sort"]}
ASSUMPTIONS = ["a dict comprehension over reversed(other) keeps, per key, the earliest item of other; tuple equality is element-wise ==, None == None"]
RULE = ("pairs of lists (0..7 items each) with key columns a (int) / b (str) of tiny pools incl. None, duplicates on both sides, same-name and "
        "renamed (a->k, b->j) right keys, 1..2 key tuples; all five joins; aggregate over 1..2 group keys with len and id-list summaries; "
        "non-trivial = both sides >=2 items with a matched and an unmatched left item (joins) / >=2 groups with one of size >=2 (aggregate)")

JOINS = ["left", "inner", "semi", "anti", "full"]


def gen_cases(ctx):
    rng = ctx.rng
    cases = [
        {"op": "full", "left": [{"a": 1, "b": "x"}], "right": [{"k": 2, "j": "y"}], "by": [["a", "k"]]},
        {"op": "full", "left": [{"a": 1, "b": "x", "p": 1}], "right": [{"a": 1, "b": "y", "q": "first"}, {"a": 1, "b": "z", "q": "second"}], "by": [["a", "a"]]},
        {"op": "aggregate", "left": [{"a": 1, "b": None}, {"a": 2, "b": "x"}, {"a": 1, "b": "y"}, {"a": None, "b": "x"}, {"a": 2, "b": None}], "right": [], "by": [["a", "a"], ["b", "b"]]},
    ]
    n = 500 if ctx.tier == "quick" else 12000
    for _ in range(n):
        left = lodgen.gen_dicts(rng, max_n=7)
        right = lodgen.gen_dicts(rng, max_n=7)
        renamed = rng.random() < 0.4
        k = rng.choice([1, 1, 2])
        lk = rng.sample(["a", "b"], k)
        ren = {"a": "k", "b": "j"}
        if renamed:
            right = [{ren.get(kk, kk): v for kk, v in d.items()} for d in right]
            by = [[x, ren[x]] for x in lk]
        else:
            by = [[x, x] for x in lk]
        for d in left:
            d["p"] = rng.randint(0, 5)
        bare = rng.random() < 0.2
        for d in right:
            # (sometimes the right items hold nothing BUT their key entries — a list of ids to keep: a match that merges nothing)
            if bare:
                for kk in [kk for kk in d if kk not in [x[1] for x in by]]:
                    del d[kk]
            else:
                d["q"] = rng.choice(["u", "v", "w"])
        if renamed and rng.random() < 0.4:
            # a left item may own an entry named like the RIGHT key (self-referential / lookup joins): it is the
            # left item's data, the join must leave it alone
            for d in left:
                if rng.random() < 0.7:
                    d[by[0][1]] = rng.choice([7, 8, 9])
        if rng.random() < 0.25:
            # equal key values in different spellings: 2 and 2.0, 1 and True are one key for dicts and sets
            for d in left + right:
                for kk in list(d):
                    if isinstance(d[kk], int) and not isinstance(d[kk], bool) and kk in ("a", "k") and rng.random() < 0.5:
                        d[kk] = True if (d[kk] == 1 and rng.random() < 0.5) else float(d[kk])
        if renamed and rng.random() < 0.3:
            # ... and a right item may own an entry named like the LEFT key (hierarchy lookups: id / boss on both sides)
            for d in right:
                if rng.random() < 0.7:
                    d[by[0][0]] = rng.choice([0, 1, 2, 3])
        op = rng.choice(JOINS + ["aggregate"])
        if op == "aggregate":
            r = rng.random()
            if r < 0.3 and not renamed:
                # group keys are data: a key may be NAMED like a parameter of some method (sort's `key` / `reverse`, ...)
                special = rng.choice(["key", "reverse", "key", "reverse", "dir", "n"])
                old_name = by[0][0]
                left = [{(special if kk == old_name else kk): v for kk, v in d.items()} for d in left]
                by = [[special, special]] + by[1:]
            elif r < 0.5:
                # the same key given twice with another in between: the partition is that of the distinct keys, the
                # order of the groups that of the keys AS GIVEN (first occurrence decides the priority)
                names = [x[0] for x in by]
                other = [k for k in ("a", "b") if k not in names and all(k in d for d in left)]
                seq = [names[0]] + (other[:1] or names[1:2]) + [names[0]]
                by = [[k, k] for k in seq]
        # a (left, right) pair may be written as a tuple or as a two-element list, and also when both names are the same
        case = {"op": op, "left": left, "right": right, "by": by, "spell": rng.choice(["tuple", "tuple", "list", "list", "pair-always"])}
        if bare and op in ("left", "inner", "semi", "anti") and all(set(d) <= {x[1] for x in by} for d in right):
            case["bare"] = True       # the right items go in as they are, without the harness's own `rid` tag (an entry of its own)
        cases.append(case)
    return cases


def build(case):
    import dataiter as di
    left = [dict(d, lid=i) for i, d in enumerate(case["left"])]
    right = [dict(d) if case.get("bare") else dict(d, rid=i) for i, d in enumerate(case["right"])]
    return di.ListOfDicts(left), di.ListOfDicts(right)


def state(lod, tagkey):
    return [[it.get(tagkey), [[k, v] for k, v in it.items()]] for it in lod]


def impl(case):
    op, by = case["op"], case["by"]
    a, b = build(case)
    spell = case.get("spell", "tuple")
    byarg = [x[0] if (x[0] == x[1] and spell != "pair-always") else ([x[0], x[1]] if spell == "list" else (x[0], x[1])) for x in by]
    res = {"pre_left": state(a, "lid"), "pre_right": state(b, "rid")}
    if case.get("bare"):
        res["pre_right"] = [[i, kv] for i, (_, kv) in enumerate(res["pre_right"])]      # (tagged by position for the model)
    b_before = copy.deepcopy([dict(x) for x in b])
    buf = io.StringIO()
    try:
        with redirect_stdout(buf):
            from harness import warm
            if op == "aggregate":
                keys = [x[0] for x in by]
                g = a.group_by(*keys)
                if warm.ENABLED:
                    # the grouped list has been aggregated before and its items were then edited in place
                    warm.lod_through_history(g, extra=lambda l: l.aggregate(n=len, first=lambda x: x[0]["lid"]), keys=keys)
                out = g.aggregate(n=len, ids=lambda x: [it["lid"] for it in x])
                res["out"] = [[k for k in [dict(it)]][0] for it in out]
            else:
                if warm.ENABLED:
                    warm.lod_through_history(a, keys=[x[0] for x in by])
                    warm.lod_through_history(b, keys=[x[1] for x in by])
                out = getattr(a, op + "_join")(b, *byarg)
                res["out"] = [[[k, v] for k, v in it.items()] for it in out]
                res["ids"] = [id(it) for it in out]
                res["left_ids"] = [id(it) for it in a]
    except Exception as e:
        res["err"] = f"{type(e).__name__}: {e}"
    res["right_mutated"] = [dict(x) for x in b] != b_before
    return res


def model_requests(case, obs):
    op, by = case["op"], case["by"]
    xs = lodgen.to_model_items(obs["pre_left"])
    ys = lodgen.to_model_items(obs["pre_right"])
    if op == "aggregate":
        return [("lod_aggregate", {"xs": xs, "keys": [x[0] for x in by]})]
    return [("lod_join", {"xs": xs, "ys": ys, "kind": op, "by1": [x[0] for x in by], "by2": [x[1] for x in by]})]


def judge(ctx, case, obs, mouts):
    op, by = case["op"], case["by"]
    by1 = [x[0] for x in by]
    by2 = [x[1] for x in by]
    left = [dict(map(tuple, kv)) for t, kv in obs["pre_left"]]
    right = [dict(map(tuple, kv)) for t, kv in obs["pre_right"]]
    ctx.count(op)
    ctx.count("renamed" if by1 != by2 else "same-name")
    lkey = lambda d: tuple(d[k] for k in by1)
    rkey = lambda d: tuple(d[k] for k in by2)

    def first(d):
        for r in right:
            if rkey(r) == lkey(d):
                return r
        return None
    fm = [first(d) for d in left] if op != "aggregate" else []
    if op == "aggregate":
        groups = {}
        for d in left:
            groups.setdefault(lkey(d), []).append(d["lid"])
        nontrivial = len(groups) >= 2 and any(len(g) >= 2 for g in groups.values())
    else:
        nontrivial = len(left) >= 2 and len(right) >= 2 and any(m is not None for m in fm) and any(m is None for m in fm)
    if "err" in obs:
        ctx.violation("oracle", f"{op}:raises", f"{op} raised: {obs['err']}", case, obs)
    else:
        if obs["right_mutated"]:
            ctx.violation("oracle", f"{op}:right-mutated", "the right-hand argument was modified", case, obs)
        out = obs["out"]
        nonkey = lambda r: {k: v for k, v in r.items() if k not in by2}
        if op == "left":
            exp = [{**d, **(nonkey(m) if m else {})} for d, m in zip(left, fm)]
        elif op == "inner":
            exp = [{**d, **nonkey(m)} for d, m in zip(left, fm) if m]
        elif op == "semi":
            exp = [d for d, m in zip(left, fm) if m]
        elif op == "anti":
            exp = [d for d, m in zip(left, fm) if not m]
        else:
            exp = None
        if exp is not None:
            got = [dict(map(tuple, kv)) for kv in out]
            if got != exp:
                ctx.violation("oracle", f"{op}:wrong", f"{op}_join differs from the nested-loop reference", case, obs, exp)
        if op == "full":
            rows = [dict(map(tuple, kv)) for kv in out]
            lids = [r.get("lid") for r in rows if r.get("lid") is not None]
            rids = [r.get("rid") for r in rows if r.get("rid") is not None]
            if set(lids) != set(range(len(left))):
                ctx.violation("oracle", "full:left-items", "full_join does not contain every left item", case, obs)
            if set(rids) != set(range(len(right))):
                ctx.violation("oracle", "full:right-items", "full_join does not contain every right item at least once", case, obs)
            for r in rows:
                if r.get("lid") is not None and r.get("rid") is not None:
                    if lkey(left[r["lid"]]) != rkey(right[r["rid"]]):
                        ctx.violation("oracle", "full:unequal-keys", "full_join merged items with unequal keys", case, obs)
                        break
                    # the merged row must carry the right item's own non-key entries or the left item's
                    src_r, src_l = right[r["rid"]], left[r["lid"]]
                    if not all(r.get(k) == v for k, v in src_l.items() if k not in by1) and not all(r.get(k) == v for k, v in src_r.items() if k not in by2):
                        ctx.violation("oracle", "full:content", "a merged row carries neither item's own entries", case, obs)
                        break
                elif r.get("rid") is not None:
                    if not all(r.get(k) == v for k, v in right[r["rid"]].items()):
                        ctx.violation("oracle", "full:right-content", "an unmatched right item was altered", case, obs)
                        break
        if op == "aggregate":
            keys = by1

            def cmp(a, b):
                for x, y in zip(a, b):
                    if x == y:
                        continue
                    if x is None:
                        return 1
                    if y is None:
                        return -1
                    return -1 if x < y else 1
                return 0
            order = sorted(groups, key=functools.cmp_to_key(cmp))
            exp = [{**dict(zip(keys, k)), "n": len(groups[k]), "ids": groups[k]} for k in order]
            if out != exp:
                ctx.violation("oracle", "aggregate:wrong", "aggregate differs from dict grouping ordered by key with None last", case, obs, exp)
    if mouts is not None and "err" not in obs:
        m = mouts[0]
        if isinstance(m, dict) and "err" in m:
            ctx.violation("correspondence", f"{op}:model-error", f"model rejected the request: {m['err']}", case, obs, m)
        elif op == "aggregate":
            me = [{**dict(zip(by1, g["id"])), "n": len(g["tags"]), "ids": g["tags"]} for g in m]
            if me != obs["out"]:
                ctx.violation("correspondence", "aggregate:differs", "model and implementation disagree", case, obs, me)
        elif op == "full":
            me = [p["kv"] for p in m]
            if me != obs["out"]:
                ctx.violation("correspondence", "full:differs", "model and implementation disagree", case, obs, me)
        else:
            me = [it["kv"] for it in m]
            if me != obs["out"]:
                ctx.violation("correspondence", f"{op}:differs", "model and implementation disagree", case, obs, me)
    ctx.case_done(case, nontrivial)


run = common.default_run(sys.modules[__name__])
search = common.default_search(sys.modules[__name__])

# -*- coding: utf-8 -*-
"""C08 — Numba acceleration never changes aggregation results (inputs, configurations, histories)."""

import concurrent.futures
import json
import os
import random
import shutil
import subprocess
import sys
import tempfile

from harness import common, vecgen
from harness.props import C07

LEVEL = {"partial": ["the refinement 'real Numba/LLVM behaves like the transcribed kernels' is explored over bounded histories in fresh processes (fresh or shared on-disk cache, cache on/off), not proved",
                     "floating-point results are compared within 1e-9 relative tolerance"]}
ASSUMPTIONS = ["Numba compiles the kernels as written; a fresh interpreter with an empty NUMBA_CACHE_DIR has no compiled state"]
RULE = ("(a) the C07 group-wise stream (16 helpers x float/int/bool/date x arguments x group layouts) evaluated with USE_NUMBA on and off in one "
        "process, order-sensitive helpers first; (b) histories: ordered pairs/triples of first uses of (helper, dtype) in fresh interpreter "
        "processes with an empty cache directory, then a second process sharing that cache, USE_NUMBA_CACHE on and off; every step compared "
        "with the Python path on identical input. non-trivial = case with >=2 groups (a) / history of >=2 distinct kernels (b); "
        "quick: ~350 in-process cases + 24 histories; thorough: 6000 cases + all ordered pairs of 14 helpers on 3 dtypes")

HIST_HELPERS = ["max", "min", "mean", "sum", "median", "count", "count_unique", "first", "last", "nth", "mode", "std", "var", "all", "any", "quantile"]
ORDER_SENSITIVE = ("first", "last", "nth", "mode")


def same(a, b):
    if a == b:
        return True
    if isinstance(a, (int, float)) and isinstance(b, (int, float)) and not isinstance(a, bool) and not isinstance(b, bool):
        return abs(float(a) - float(b)) <= 1e-9 * max(1.0, abs(float(b)))
    return False


def dtype_class(d):
    d = str(d)
    for k in ("float", "int", "bool", "datetime", "timedelta", "object", "String"):
        if k in d:
            return k
    return d


def gen_cases(ctx):
    rng = ctx.rng
    n = 350 if ctx.tier == "quick" else 6000
    cases = [C07.gen_case(rng, ctx.tier, form="group") for _ in range(n)]
    # order-sensitive kernels first: the in-process stream itself must not depend on the known
    # first-use order defect (that is what the histories explore)
    cases.sort(key=lambda c: 0 if c["helper"] in ORDER_SENSITIVE else 1)
    cases = [dict(c, op="inproc") for c in cases]
    # warm-up: compile every order-sensitive kernel for every dtype before any max/min kernel exists
    warm = []
    for kind in ("float", "int", "bool", "date"):
        for h, a in (("first", {}), ("last", {}), ("nth", {"index": 1}), ("mode", {}), ("first", {"drop_na": True}), ("mode", {"drop_na": False})):
            vals = {"float": [1.5, 2.5, 2.5], "int": [1, 2, 2], "bool": [True, False, False], "date": [1, 2, 2]}[kind]
            warm.append({"op": "inproc", "helper": h, "kind": kind, "args": a, "vals": vals, "g": [0, 0, 1]})
    cases = warm + cases
    # timedelta columns (fixed 9beca5c: they took the Numba path, which cannot handle them: min/max lost the
    # group's value next to a NaT, sum/mean/median raised): switching USE_NUMBA must not matter for them either
    td_pool = [None, -5, 0, 1, 2, 86400, 3 * 86400]
    for _ in range(40 if ctx.tier == "quick" else 800):
        h = rng.choice(["min", "max", "first", "last", "nth", "count", "count_unique", "mode", "sum", "mean", "median", "any", "all"])
        nrow = rng.choice([1, 2, 4, 6, 9])
        cases.append({"op": "inproc", "helper": h, "kind": "timedelta", "args": C07.gen_args(rng, h),
                      "vals": [rng.choice(td_pool) for _ in range(nrow)], "g": [rng.randint(0, 2) for _ in range(nrow)]})
    cases.insert(0, {"op": "inproc", "helper": "min", "kind": "timedelta", "args": {}, "vals": [3 * 86400, None, 86400, 5, 7], "g": [0, 0, 0, 1, 1]})
    cases.insert(0, {"op": "inproc", "helper": "mean", "kind": "timedelta", "args": {}, "vals": [3 * 86400, None, 86400, 5, 7], "g": [0, 0, 0, 1, 1]})
    cases.insert(0, {"op": "inproc", "helper": "mode", "kind": "float", "args": {"drop_na": False}, "vals": ["nan", "nan", 2.0, 5.5, 5.5], "g": [0, 0, 0, 1, 1]})
    cases.insert(1, {"op": "inproc", "helper": "median", "kind": "float", "args": {"drop_na": False}, "vals": ["nan", 0.25, 0.25, "nan", "nan", 1.0], "g": [0, 0, 0, 0, 0, 1]})
    # a small spread around a large value, for the helpers whose kernels do arithmetic: "up to floating-point rounding" is a
    # bound on the difference, not a licence for a formula that cancels catastrophically
    for _ in range(24 if ctx.tier == "quick" else 400):
        h = rng.choice(["std", "var", "std", "var", "mean", "sum", "median", "quantile"])
        kind = rng.choice(["float", "int"])
        base = rng.choice([16000000, 100000000, 1600000000])   # (eps*base)**2 stays far below the tolerance: a two-pass formula is exact enough
        nrow = rng.choice([3, 4, 6, 9])
        vals = [base + rng.choice([0, 1, 2, 3, 5, 7]) for _ in range(nrow)]
        a = C07.gen_args(rng, h)
        if h in ("std", "var"):
            a["ddof"] = rng.choice([0, 0, 1])
        cases.append({"op": "inproc", "helper": h, "kind": kind, "args": a, "vals": [float(v) for v in vals] if kind == "float" else vals,
                      "g": [rng.randint(0, 1) for _ in range(nrow)]})
    # unsigned and narrow integer columns are integer columns ("every column type eligible for Numba acceleration"): same
    # values and same kind of result with the switch on as off (fixed c51864e: sum of an unsigned column was a float)
    for _ in range(30 if ctx.tier == "quick" else 600):
        h = rng.choice(["sum", "sum", "max", "min", "count", "count_unique", "mean", "median", "any", "all", "std", "var", "quantile"])
        kind = rng.choice(["uint8", "uint8", "uint64", "int32"])
        pool = {"uint8": [0, 1, 2, 7, 200, 255], "uint64": [0, 1, 3, 1000, 4000000000], "int32": [0, 1, -1, 7, 70000, -70000]}[kind]
        nrow = rng.choice([1, 2, 4, 6, 9])
        cases.append({"op": "inproc", "helper": h, "kind": kind, "args": C07.gen_args(rng, h), "nomodel": True,
                      "vals": [rng.choice(pool) for _ in range(nrow)], "g": [rng.randint(0, 2) for _ in range(nrow)]})
    # missing values KEPT (drop_na=False) inside groups of several elements: whatever a helper does with them (propagate,
    # ignore, count) it does the same on both paths — "the same missing-value positions"
    for _ in range(32 if ctx.tier == "quick" else 500):
        h = rng.choice(["quantile", "quantile", "mean", "sum", "min", "max", "std", "var", "count", "first", "last", "nth", "any", "all"])
        a = C07.gen_args(rng, h)
        if h not in ("all", "any"):
            a["drop_na"] = False
        if h in ("std", "var"):
            a["ddof"] = 0
        nrow = rng.choice([5, 6, 9])
        vals = [rng.choice(["nan", 1.0, 2.0, 3.0, 4.0, 2.5]) for _ in range(nrow)]
        vals[rng.randrange(nrow)] = "nan"
        cases.append({"op": "inproc", "helper": h, "kind": "float", "args": a, "vals": vals, "g": [rng.randint(0, 1) for _ in range(nrow)]})
    # ... and the same for EVERY such helper on two fixed frames (no draw decides which helper meets a kept missing value)
    for vals, g in (([1.0, "nan", 3.0, 2.0, 4.0, 2.5, 2.0, "nan", 1.0], [0, 0, 0, 0, 0, 1, 1, 1, 1]), ([4.0, 2.0, "nan", 1.0, 3.0, 2.5, 1.0], [0, 0, 0, 0, 1, 1, 1])):
        for h in ("quantile", "mean", "sum", "min", "max", "std", "var", "count", "first", "last", "nth", "median", "count_unique"):
            for q in (("1/4", "1/2", "9/10") if h == "quantile" else (None,)):
                a = {"drop_na": False}
                if q:
                    a["q"] = q
                if h in ("std", "var"):
                    a["ddof"] = 0
                if h == "nth":
                    a["index"] = 1
                cases.append({"op": "inproc", "helper": h, "kind": "float", "args": a, "vals": list(vals), "g": list(g)})
    # big groups (beyond any small-size special case of a kernel: 100+ rows) whose equal values are NOT adjacent, next to a
    # small group, for every helper and every Numba-eligible kind
    for kind in ("int", "float", "bool", "date"):
        big = 150
        cyc = {"int": [0, 1, 2], "float": [0.5, 1.5, 2.5], "bool": [True, False], "date": [0, 1, 18000]}[kind]
        vals = [cyc[i % len(cyc)] for i in range(big)] + cyc[:2] + cyc[:1]
        g = [0] * big + [1] * 3
        for h in ("count_unique", "mode", "median", "max", "min", "first", "last", "nth", "sum", "mean", "std", "var", "quantile", "count", "any", "all"):
            if kind == "date" and h in C07.NUMERIC_ONLY:
                continue
            a = C07.gen_args(rng, h)
            a.pop("drop_na", None)
            cases.append({"op": "inproc", "helper": h, "kind": kind, "args": a, "vals": vals, "g": g})
    # several helpers on the same column in ONE aggregate() call ("in the same call")
    nm = 60 if ctx.tier == "quick" else 1500
    for _ in range(nm):
        base = C07.gen_case(rng, ctx.tier, form="group")
        kind = base["kind"]
        hs = []
        for _ in range(rng.choice([2, 2, 3])):
            h = rng.choice([x for x in C07.HELPERS if not (kind == "date" and x in C07.NUMERIC_ONLY)])
            hs.append({"helper": h, "args": C07.gen_args(rng, h)})
        cases.append({"op": "multi", "kind": kind, "vals": base["vals"], "g": base["g"], "helpers": hs})
    cases.append({"op": "multi", "kind": "float", "vals": [3.5, 1.5, 9.5, 7.5, 5.5, 4.5, 6.5], "g": [0, 0, 1, 1, 2, 2, 3],
                  "helpers": [{"helper": "count_unique", "args": {}}, {"helper": "first", "args": {}}, {"helper": "last", "args": {}}]})
    # histories
    corpus = [
        [{"helper": "max", "kind": "int"}, {"helper": "first", "kind": "int"}],
        [{"helper": "first", "kind": "int"}, {"helper": "max", "kind": "int"}, {"helper": "first", "kind": "int"}],
        [{"helper": "min", "kind": "float"}, {"helper": "nth", "kind": "float", "args": {"index": 1}}],
        [{"helper": "mode", "kind": "floatna", "args": {"drop_na": False}}],
        [{"helper": "count_unique", "kind": "date"}],
        [{"helper": "count_unique", "kind": "float"}, {"helper": "first", "kind": "float"}],
        [{"helper": "nth", "kind": "floatna", "args": {"index": -3, "drop_na": True}}],
    ]
    hists = list(corpus)
    # every helper as the FIRST kernel compiled in a fresh process, followed by the four kernels that return
    # elements of the column (the ones a mis-typed earlier kernel can disturb): all 16 priors, every tier
    for kind in (("float",) if ctx.tier == "quick" else ("float", "int", "date", "bool")):
        for prior in HIST_HELPERS:
            if kind in ("date",) and prior in ("mean", "sum", "median", "std", "var", "all", "any", "quantile"):
                continue
            steps = [with_args(random.Random(0), prior, kind)]
            for later in ORDER_SENSITIVE:
                if later != prior:
                    st = {"helper": later, "kind": kind, "args": {}}
                    if later == "nth":
                        st["args"]["index"] = 1
                    steps.append(st)
            if kind == "float":
                # and afterwards kernels that must DROP missing values on a float column holding NaN: whatever the
                # first kernel's compilation left behind in the shared helpers (is_na / yield_groups) shows here
                steps.append({"helper": "sum", "kind": "floatna", "args": {}})
                steps.append({"helper": "count", "kind": "floatna", "args": {"drop_na": True}})
            hists.append(steps)
    kinds = ["float", "int", "date", "bool", "floatna"]
    if ctx.tier == "quick":
        target = len(hists) + 17
        while len(hists) < target:
            k = rng.choice([2, 2, 3])
            kind = rng.choice(kinds)
            hs = [rng.choice(HIST_HELPERS) for _ in range(k)]
            if kind in ("date",):
                hs = [h if h not in ("mean", "sum", "median", "std", "var", "all", "any", "quantile") else "max" for h in hs]
            hists.append([with_args(rng, h, kind) for h in hs])
    else:
        for kind in ("float", "int", "date"):
            hh = [h for h in HIST_HELPERS if not (kind == "date" and h in ("mean", "sum", "median", "std", "var", "all", "any", "quantile"))]
            for a in hh:
                for b in hh:
                    if a != b:
                        hists.append([with_args(rng, a, kind), with_args(rng, b, kind)])
    for i, h in enumerate(hists):
        cases.append({"op": "history", "steps": h, "cache": ["fresh", "shared", "off"][i % 3]})
    return cases


def with_args(rng, h, kind):
    st = {"helper": h, "kind": kind, "args": {}}
    if h == "nth":
        st["args"]["index"] = rng.choice([1, -1, -3, 2])
    if h == "quantile":
        st["args"]["q"] = rng.choice(["1/4", "1/2", "9/10"])
    if h in ("std", "var"):
        st["args"]["ddof"] = 0
    if h in ("first", "last", "nth", "mode", "count", "count_unique") and rng.random() < 0.3:
        st["args"]["drop_na"] = rng.choice([True, False])
    return st


def run_history(hist, cache_mode):
    """fresh interpreter(s); returns list of per-process step results."""
    env = dict(os.environ)
    env["VERIF_REPO"] = common.REPO
    env["PYTHONHASHSEED"] = "0"
    env.pop("DATAITER_USE_NUMBA", None)
    cache = tempfile.mkdtemp(prefix="verif-nbhist-")
    env["NUMBA_CACHE_DIR"] = cache
    env["DATAITER_USE_NUMBA_CACHE"] = "false" if cache_mode == "off" else "true"
    script = os.path.join(common.VERIF, "harness", "numba_history.py")
    runs = []
    try:
        nproc = 2 if cache_mode == "shared" else 1
        for p in range(nproc):
            # in the second process of a shared-cache history only the LAST step is a first use in
            # that process: earlier kernels come from the on-disk cache
            steps = hist if p == 0 else list(reversed(hist))
            r = subprocess.run(["/venv/bin/python", script, json.dumps({"steps": steps})], env=env,
                               stdout=subprocess.PIPE, stderr=subprocess.PIPE, text=True, timeout=900)
            line = [l for l in r.stdout.split("\n") if l.startswith("RESULT ")]
            if r.returncode != 0 or not line:
                runs.append({"crash": r.returncode, "stderr": r.stderr[-1500:], "steps": steps})
            else:
                runs.append({"steps": steps, "out": json.loads(line[0][7:])})
    finally:
        shutil.rmtree(cache, ignore_errors=True)
    return runs


_pool = None
_pending = {}


def impl_multi(case, use_numba):
    import numpy as np
    import dataiter as di
    from unittest.mock import patch
    res = {}
    try:
        with patch("dataiter.USE_NUMBA", use_numba):
            x = vecgen.make_array(case["kind"], case["vals"])
            df = di.DataFrame(g=np.array(case["g"], dtype=np.int64), x=x)
            before = vecgen.canon_array(df.x)
            kw = {}
            for i, h in enumerate(case["helpers"]):
                c = {"helper": h["helper"], "args": h["args"]}
                pos, a = C07.call_args(c)
                kw[f"y{i}"] = getattr(di, h["helper"])("x", *pos, **a)
            stat = df.group_by("g").aggregate(**kw)
            res["out"] = {k: [C07.canon_result(v) for v in stat[k]] for k in kw}
            res["dtype"] = {k: str(stat[k].dtype) for k in kw}
            res["mutated"] = vecgen.canon_array(df.x) != before
    except Exception as e:
        res["err"] = f"{type(e).__name__}: {e}"
    return res


def impl(case):
    if case["op"] == "multi":
        return {"numba": impl_multi(case, True), "python": impl_multi(case, False)}
    if case["op"] == "inproc":
        c = dict(case, op="group")
        return {"numba": C07.impl(c, use_numba=True), "python": C07.impl(c, use_numba=False)}
    return {"runs": run_history(case["steps"], case["cache"])}


def model_requests(case, obs):
    if case["op"] != "inproc" or case.get("kind") == "timedelta" or case.get("nomodel"):
        return []      # timedelta: Numba on = off is the whole claim (no kernel model: never accelerated)
    c = dict(case, op="group")
    reqs = C07.model_requests(c, obs)
    return [("agg_group_numba", reqs[0][1])]


def compare(ctx, case, nb, py, label, prior):
    """Numba-path result vs Python-path result on identical input."""
    h = case["helper"]
    kind = case.get("kind")
    na_args = (case.get("args") or {})
    has_na = any(vecgen.is_na_val("float" if kind == "floatna" else kind, v) for v in case.get("vals", [])) if "vals" in case else (kind in ("floatna", "date"))
    if "err" in py:
        if "err" not in nb:
            # the switch decides between a result and an exception: not "the same values with the switch on as off"
            ctx.violation("oracle", f"python-raises:{h}", f"{label}: with USE_NUMBA off the call raised ({py['err']}), with it on it returns {nb['out']}",
                          case, {"numba": nb, "python": py})
        return
    if "err" in nb:
        ctx.violation("oracle", f"numba-raises:{h}", f"{label}: Numba path raised where the Python path works: {nb['err']}", case, {"numba": nb, "python": py})
        return
    ok = len(nb["out"]) == len(py["out"]) and all(same(a, b) for a, b in zip(nb["out"], py["out"]))
    ok_dtype = dtype_class(nb.get("dtype")) == dtype_class(py.get("dtype"))
    if ok and ok_dtype:
        return
    dn = na_args.get("drop_na")
    dn = C07.drop_default(h) if dn is None else dn
    if h in ORDER_SENSITIVE and (prior - {h}) & {"max", "min"} and not (h == "mode" and not dn and has_na):
        sig = f"order:{h}-after-minmax"
    elif h == "mode" and has_na and not dn:
        sig = "path:mode-with-missing"
    elif h == "median" and has_na and not dn:
        sig = "path:median-with-missing"
    elif h == "count_unique" and has_na and not dn:
        sig = f"path:count_unique-with-missing:{'date' if kind == 'date' else 'float'}"
    elif not ok:
        sig = f"numba-differs:{h}"
    else:
        sig = f"numba-dtype:{h}"
    what = (f"{label}: USE_NUMBA on gives {nb['out']} ({nb.get('dtype')}), off gives {py['out']} ({py.get('dtype')})"
            + (f" after first use of {sorted(prior)}" if prior else ""))
    ctx.violation("oracle", sig, what, case, {"numba": nb, "python": py})


def judge(ctx, case, obs, mouts):
    if case["op"] == "multi":
        ctx.count("multi")
        nb, py = obs["numba"], obs["python"]
        if "err" in py and "err" not in nb:
            ctx.violation("oracle", "multi:python-raises", f"with USE_NUMBA off a multi-helper aggregate raised ({py['err']}), with it on it returns", case, obs)
        if "err" not in py:
            if "err" in nb:
                ctx.violation("oracle", "multi:numba-raises", f"Numba path raised in a multi-helper aggregate: {nb['err']}", case, obs)
            else:
                if nb.get("mutated"):
                    ctx.violation("oracle", "multi:numba-mutates", "an accelerated helper changed the column it aggregates", case, obs)
                prior = set()
                for i, h in enumerate(case["helpers"]):
                    k = f"y{i}"
                    c = {"helper": h["helper"], "kind": case["kind"], "args": h["args"], "vals": case["vals"], "op": "multi-step", "multi": case}
                    compare(ctx, c, {"out": nb["out"][k], "dtype": nb["dtype"][k]}, {"out": py["out"][k], "dtype": py["dtype"][k]},
                            f"same aggregate() call, position {i} of {[x['helper'] for x in case['helpers']]}", set())
        ctx.case_done(case, len(set(case["g"])) >= 2)
        return
    if case["op"] == "inproc":
        ctx.count("inproc:" + case["helper"])
        compare(ctx, case, obs["numba"], obs["python"], "same process", set())
        if mouts:
            m = mouts[0]
            nb = obs["numba"]
            has_na = any(vecgen.is_na_val(case["kind"], v) for v in case["vals"])
            dn = case["args"].get("drop_na")
            dn = C07.drop_default(case["helper"]) if dn is None else dn
            unspecified = case["helper"] in ("mode", "median") and has_na and not dn
            if isinstance(m, dict) and "err" in m:
                ctx.violation("correspondence", "numba-model-error", f"model rejected the request: {m['err']}", case, obs, m)
            elif "err" not in nb and not unspecified:
                gs2 = C07.groups_of(case)[1]
                # n - ddof = 0 is a division by zero: no value to compare (see C07)
                deg = [case["helper"] in ("std", "var") and C07.reference(case["helper"], case["args"], case["kind"], g) is None for g in gs2] \
                    if len(gs2) == len(m) else [False] * len(m)
                if len(m) != len(nb["out"]) or not all(d or C07.agrees(g, C07.model_to_exp(x)) for g, x, d in zip(nb["out"], m, deg)):
                    ctx.violation("correspondence", f"numba-kernel:{case['helper']}:differs", "Numba kernel model and Numba implementation disagree", case, obs, m)
        ctx.case_done(case, len(set(case["g"])) >= 2)
        return
    ctx.count("history:" + case["cache"])
    for p, run in enumerate(obs["runs"]):
        if "crash" in run:
            ctx.violation("oracle", "history:process-crashed", f"interpreter running the history exited with {run['crash']}: {run['stderr'][-300:]}", case, run)
            continue
        # with a shared on-disk cache the kernels of the first process count as used before
        prior = {s_["helper"] for s_ in case["steps"]} if p > 0 else set()
        for st, res in zip(run["steps"], run["out"]):
            c = {"helper": st["helper"], "kind": st["kind"], "args": st.get("args", {}), "op": "history-step",
                 "history": run["steps"], "cache": case["cache"], "process": p}
            compare(ctx, c, res["numba"], res["python"], f"history {[s['helper'] for s in run['steps']]} ({st['kind']}, cache={case['cache']}, process {p})", prior)
            prior.add(st["helper"])
            prior.discard(None)
    ctx.case_done(case, len({(s["helper"], s["kind"]) for s in case["steps"]}) >= 2)


def run(ctx, driver):
    if ctx.replay is not None:
        c = ctx.replay.get("case", {})
        if c.get("op") == "history-step":
            c = {"op": "history", "steps": c["history"], "cache": c["cache"]}
        if c.get("op") == "multi-step":
            c = c["multi"]
        cases = [c] if c.get("op") in ("inproc", "history", "multi") else []
    else:
        cases = gen_cases(ctx)
    common.setup_impl_env()
    inproc = [c for c in cases if c["op"] in ("inproc", "multi")]
    hist = [c for c in cases if c["op"] == "history"]
    # histories run in parallel in their own interpreter processes
    with concurrent.futures.ThreadPoolExecutor(max_workers=min(14, os.cpu_count() or 4)) as ex:
        futs = {ex.submit(impl, c): c for c in hist}
        common.run_cases(ctx, driver, sys.modules[__name__], inproc)
        for f, c in futs.items():
            try:
                judge(ctx, c, f.result(), None)
            except Exception as e:
                ctx.violation("correspondence", "history-crash", f"running a history failed: {e!r}", c)


def extract(ctx):
    from harness import extract_ast
    extract_ast.gen_helper_table()


def search(ctx):
    pass

# -*- coding: utf-8 -*-
"""C14 — restricting or aliasing a read never changes what is read."""

import itertools
import json
import os
import shutil
import sys
import tempfile

import numpy as np

from harness import common, vecgen

LEVEL = {"partial": ["pyarrow's include_columns / columns=, json and csv parsing are assumed; the restricted read is compared with read-all-then-select on generated files"]}
ASSUMPTIONS = ["pyarrow.csv ConvertOptions(include_columns) and pyarrow.parquet read_table(columns) return the named columns unchanged"]
RULE = ("generated files (1..5 records, 2..4 columns/keys incl. ragged JSON/GeoJSON records, missing values, non-ASCII text) of the formats "
        "csv, json, geojson, npz, parquet; readers DataFrame.read_csv/read_json/read_parquet/read_npz, GeoJSON.read, ListOfDicts.read_json/"
        "read_csv and the five module-level aliases; all subsets and orderings of the columns/keys as restriction, dtype/type maps, and "
        "keyword variations (encoding, sep, header) for the aliases; three-way comparison alias vs class method vs read-all-then-select-"
        "and-cast, as name -> values maps; non-trivial = restriction that drops >=1 column and keeps >=1, in non-file order")

READERS = ["df_csv", "df_json", "df_parquet", "df_npz", "geojson", "lod_json", "lod_csv"]


def gen_table(rng):
    ncol = rng.choice([2, 3, 3, 4])
    names = rng.sample(["id", "make", "x", "ünï", "v w", "k"], ncol)
    nrow = rng.choice([1, 2, 3, 5])
    cols = {}
    for nm in names:
        kind = rng.choice(["int", "float", "str"])
        if kind == "int":
            cols[nm] = [rng.randint(0, 9) for _ in range(nrow)]
        elif kind == "float":
            cols[nm] = [rng.choice([1.5, 2.5, 0.25, -1.0]) for _ in range(nrow)]
        else:
            cols[nm] = [rng.choice(["a", "b", "ä", "x y", "q"]) for _ in range(nrow)]
    return {"names": names, "nrow": nrow, "cols": cols}


NUMTEXT = {"int": ["007", "00501", "10", "+3", "0"], "float": ["2.50", "1e3", "0.5", "10.0", "-0.0"]}


def gen_case(rng, tier):
    reader = rng.choice(READERS)
    t = gen_table(rng)
    if reader in ("df_csv", "lod_csv") and rng.random() < 0.4 and t["nrow"]:
        # CSV cells are text: numbers in a non-canonical spelling (leading zeros, exponent, trailing zeros).  Reading
        # with a dtype mapping must give what reading everything and then casting gives.
        nm = rng.choice(t["names"])
        fam = rng.choice(["int", "float"])
        t["cols"][nm] = [rng.choice(NUMTEXT[fam]) for _ in range(t["nrow"])]
        t["textual"] = {nm: fam}
    if reader in ("df_json", "lod_json") and rng.random() < 0.3 and t["nrow"]:
        # JSON values may be objects themselves; their inner keys are data, not column names, even when they are spelled
        # like one (a restriction of the columns must not reach into them).  (Arrays as values and nested GeoJSON
        # properties are outside what the readers accept at all.)
        nm = rng.choice(t["names"])
        inner = rng.sample(["id", "make", "x", "ünï", "v w", "k", "lat"], 3)
        t["cols"][nm] = [rng.choice([{inner[0]: i, inner[1]: "p", inner[2]: 0.5}, {inner[1]: {inner[2]: i, inner[0]: None}}, {inner[0]: i}, {}])
                         for i in range(t["nrow"])]
    k = rng.randint(0, len(t["names"]))
    restrict = rng.sample(t["names"], k)
    if rng.random() < 0.2:
        restrict = restrict + ["nope"] if reader in ("df_json", "geojson", "lod_json", "lod_csv") else restrict
    cast = {}
    if rng.random() < 0.6 and reader != "df_npz":
        pool = restrict or t["names"]
        if restrict and len(restrict) < len(t["names"]) and rng.random() < 0.25:
            pool = [x for x in t["names"] if x not in restrict]      # the mapping names a column that is not read
        nm = rng.choice(pool)
        numeric = nm in t["cols"] and t["nrow"] and (isinstance(t["cols"][nm][0], (int, float)) or nm in t.get("textual", {}))
        if numeric:
            cast[nm] = rng.choice(["float", "str", "str", "int"]) if reader in ("df_csv", "df_json", "df_parquet", "lod_csv", "lod_json") else "float"
    case = {"op": "read", "reader": reader, "table": t, "restrict": restrict, "cast": cast,
            "ragged": rng.random() < 0.4, "encoding": rng.choice(["utf-8", "utf-8", "latin-1", "utf-16"]),
            "sep": rng.choice([",", ",", ";", "\t"]), "header": rng.random() < 0.85}
    return case


def gen_cases(ctx):
    rng = ctx.rng
    t = {"names": ["x", "y", "z"], "nrow": 2, "cols": {"x": [1, 4], "y": [2, 5], "z": [3, 6]}}
    cases = [
        {"op": "read", "reader": "lod_csv", "table": t, "restrict": ["z", "x"], "cast": {}, "ragged": False, "encoding": "utf-8", "sep": ",", "header": True},
        {"op": "read", "reader": "df_parquet", "table": t, "restrict": ["z", "x"], "cast": {"x": "float"}, "ragged": False, "encoding": "utf-8", "sep": ",", "header": True},
        {"op": "read", "reader": "lod_json", "table": {"names": ["id", "ünï"], "nrow": 2, "cols": {"id": [1, 2], "ünï": ["ä", "b"]}}, "restrict": [], "cast": {}, "ragged": False, "encoding": "latin-1", "sep": ",", "header": True},
    ]
    # every reader: one mapping object names a column that the restricted read does not read, and is then reused for
    # the unrestricted read (a caller's shared DTYPES dict); the readers must not touch it
    for reader in READERS:
        if reader != "df_npz":
            for ty in ("float", "str"):
                cases.append({"op": "read", "reader": reader, "table": t, "restrict": ["x"], "cast": {"y": ty, "x": "float"}, "ragged": False,
                              "encoding": "utf-8", "sep": ",", "header": True})
    # converters that look a cell up in a table (dict / Enum lookups raise KeyError for an unknown cell): the typed read
    # must do what reading everything and converting afterwards does — convert, or raise the same kind of error
    for reader in ("lod_json", "lod_csv"):
        for complete in (True, False):
            for ragged in (False, True):
                cases.append({"op": "lookup", "reader": reader, "complete": complete, "ragged": ragged and reader == "lod_json",
                              "table": {"names": ["name", "code"], "nrow": 4,
                                        "cols": {"name": ["Anna", "Bo", "Cy", "Di"], "code": ["FI", "SE", "XX", "FI"]}},
                              "restrict": [], "cast": {}, "encoding": "utf-8", "sep": ",", "header": True})
    # a GeoJSON file one of whose properties holds an array / an object: `GeoJSON.read` validates the FILE before anything is
    # selected (`_check_raw_data`), so whether the file is accepted cannot depend on which columns are asked for
    for vals in ([["x", "y"], [], ["z"]], [{"k": 1}, {"k": 2}, {}]):
        for restrict in (["name"], ["n", "name"], ["tags"], []):
            cases.append({"op": "read", "reader": "geojson", "table": {"names": ["name", "tags", "n"], "nrow": 3, "cols": {"name": ["a", "b", "c"], "tags": vals, "n": [1, 2, 3]}},
                          "restrict": restrict, "cast": {}, "ragged": False, "encoding": "utf-8", "sep": ",", "header": True})
    # wide tables (twelve and thirty columns; positions beyond the ninth, and beyond a..z for the generated names of a
    # headerless CSV): a restricted read brings each value under its own name, whatever order the names are asked in
    for ncol in (12, 30):
        wn = [f"c{j}" for j in range(ncol)]
        wide = {"names": wn, "nrow": 2, "cols": {nm: [100 * j + 1, 100 * j + 2] for j, nm in enumerate(wn)}}
        for reader in ("df_csv", "lod_csv", "df_json", "df_parquet"):
            for header in ((True, False) if reader in ("df_csv", "lod_csv") else (True,)):
                for restrict in ([wn[2], wn[10]], [wn[11], wn[3], wn[0]], [wn[10], wn[9], wn[1]], [wn[ncol - 1], wn[2]], [wn[10]]):
                    cases.append({"op": "read", "reader": reader, "table": wide, "restrict": restrict, "cast": {}, "ragged": False,
                                  "encoding": "utf-8", "sep": ",", "header": header})
    # CSV cells in a non-canonical spelling of a number (leading zeros, exponent, trailing zeros) read with a str / float / int
    # mapping, with and without a restriction: the mapped read is the cast of the plain read
    for fam, texts in (("int", ["007", "00501", "10"]), ("float", ["2.50", "1e3", "0.5"])):
        for reader in ("df_csv", "lod_csv"):
            for ty in ("str", "float") + (("int",) if fam == "int" else ()):
                for restrict in ([], ["code"], ["name", "code"]):
                    tt = {"names": ["name", "code", "n"], "nrow": 3, "cols": {"name": ["a", "b", "c"], "code": list(texts), "n": [1, 2, 3]}, "textual": {"code": fam}}
                    cases.append({"op": "read", "reader": reader, "table": tt, "restrict": restrict, "cast": {"code": ty}, "ragged": False,
                                  "encoding": "utf-8", "sep": ",", "header": True})
    # Parquet files written by pandas carry pandas' own schema metadata (and, with a labelled index, the index as a column)
    for index in ("default", "labelled"):
        for restrict in (["temp"], ["temp", "hum"], []):
            cases.append({"op": "pandas_parquet", "index": index, "restrict": restrict})
    n = 300 if ctx.tier == "quick" else 4000
    for _ in range(n):
        cases.append(gen_case(rng, ctx.tier))
    if ctx.tier == "thorough":
        for reader in READERS:
            for k in range(0, 4):
                for sub in itertools.permutations(["x", "y", "z"], k):
                    cases.append({"op": "read", "reader": reader, "table": t, "restrict": list(sub), "cast": {}, "ragged": False,
                                  "encoding": "utf-8", "sep": ",", "header": True})
    return cases


def records_of(case):
    t = case["table"]
    recs = []
    for i in range(t["nrow"]):
        r = {}
        for j, nm in enumerate(t["names"]):
            if case["ragged"] and case["reader"] in ("df_json", "lod_json", "geojson") and (i + j) % 3 == 2:
                continue
            r[nm] = t["cols"][nm][i]
        recs.append(r)
    return recs


def stem(case):
    """the file NAME (a function of the case): plain, or one that contains what a shell would expand — `$HOME`, `${HOME}`, a
    leading `~` — which is part of the name for a reader (class method and alias alike)"""
    import zlib
    k = zlib.crc32(json.dumps(case, sort_keys=True, default=repr).encode()) % 5
    return ["t", "t", "t$HOME", "~t", "a${HOME}b"][k]


def write_file(case, d):
    import dataiter as di
    t, reader = case["table"], case["reader"]
    recs = records_of(case)
    enc = case["encoding"]
    if reader in ("df_csv", "lod_csv"):
        path = os.path.join(d, stem(case) + ".csv")
        import csv
        with open(path, "w", encoding=enc, newline="") as f:
            w = csv.writer(f, delimiter=case["sep"], lineterminator="\n")
            if case["header"]:
                w.writerow(t["names"])
            for i in range(t["nrow"]):
                w.writerow([t["cols"][nm][i] for nm in t["names"]])
        return path
    if reader in ("df_json", "lod_json"):
        path = os.path.join(d, stem(case) + ".json")
        with open(path, "w", encoding=enc) as f:
            json.dump(recs, f, ensure_ascii=False)
        return path
    if reader == "geojson":
        path = os.path.join(d, stem(case) + ".geojson")
        feats = [{"type": "Feature", "properties": r, "geometry": {"type": "Point", "coordinates": [i, i]}} for i, r in enumerate(recs)]
        with open(path, "w", encoding=enc) as f:
            json.dump({"type": "FeatureCollection", "name": "t", "features": feats}, f, ensure_ascii=False)
        return path
    df = di.DataFrame(**{f"c{j}": np.array(t["cols"][nm]) for j, nm in enumerate(t["names"])})
    df.colnames = t["names"]
    if reader == "df_npz":
        path = os.path.join(d, stem(case) + ".npz")
        df.write_npz(path)
        return path
    path = os.path.join(d, stem(case) + ".parquet")
    df.write_parquet(path)
    return path


def gen_colnames(n):
    from dataiter import util
    return util.generate_colnames(n)


def canon(obj):
    """name -> list of canonical values."""
    import dataiter as di
    if isinstance(obj, di.DataFrame):
        return {k: [vecgen.canon_elem(x) if not isinstance(x, dict) else json.dumps(x, sort_keys=True) for x in v.tolist()] if not v.is_object()
                else [x if x is None or isinstance(x, (dict, list)) else vecgen.canon_elem(x) for x in v] for k, v in obj.items()}
    out = {}
    for i, item in enumerate(obj):
        for k, v in item.items():
            out.setdefault(k, [None] * len(obj))[i] = v
    return out


PYTYPE = {"float": float, "str": str, "int": int}


def arguments(case):
    """(restrict list, dtype mapping) as the caller would write them, under the names the file gives the columns"""
    reader, t = case["reader"], case["table"]
    names = t["names"] if case["header"] or reader not in ("df_csv", "lod_csv") else gen_colnames(len(t["names"]))
    ren = dict(zip(t["names"], names))
    return [ren.get(x, x) for x in case["restrict"]], {ren.get(k, k): PYTYPE[v] for k, v in case["cast"].items()}


def call(case, path, which, restrict=None, cast=None):
    """which: 'alias' | 'class' | 'all' | 'all_shared' (everything, but with the caller's own dtype mapping object)"""
    import dataiter as di
    reader = case["reader"]
    if restrict is None:
        restrict, cast = arguments(case)
    enc = case["encoding"]
    if which == "all":
        restrict, cast = [], {}
    if which == "all_shared":
        restrict = []
    if reader == "df_csv":
        f = di.read_csv if which in ("alias", "all_shared") else di.DataFrame.read_csv
        return f(path, encoding=enc, sep=case["sep"], header=case["header"], columns=restrict, dtypes=cast)
    if reader == "df_json":
        return di.DataFrame.read_json(path, encoding=enc, columns=restrict, dtypes=cast)
    if reader == "df_parquet":
        f = di.read_parquet if which == "alias" else di.DataFrame.read_parquet
        return f(path, columns=restrict, dtypes=cast)
    if reader == "df_npz":
        f = di.read_npz if which == "alias" else di.DataFrame.read_npz
        return f(path, allow_pickle=True)
    if reader == "geojson":
        f = di.read_geojson if which in ("alias", "all_shared") else di.GeoJSON.read
        return f(path, encoding=enc, columns=restrict, dtypes=cast)
    if reader == "lod_json":
        f = di.read_json if which == "alias" else di.ListOfDicts.read_json
        return f(path, encoding=enc, keys=restrict, types=cast)
    if reader == "lod_csv":
        return di.ListOfDicts.read_csv(path, encoding=enc, sep=case["sep"], header=case["header"], keys=restrict, types=cast)
    raise ValueError(reader)


LOOKUP = {"FI": "Finland", "SE": "Sweden"}


def impl_special(case):
    import dataiter as di
    d = tempfile.mkdtemp(prefix="verif-c14-")
    res = {}
    try:
        if case["op"] == "lookup":
            table = dict(LOOKUP, XX="Xanadu") if case["complete"] else dict(LOOKUP)
            path = write_file(case, d)
            kw = {"sep": ",", "header": True} if case["reader"] == "lod_csv" else {}
            readers = [di.ListOfDicts.read_csv] if case["reader"] == "lod_csv" else [di.ListOfDicts.read_json, di.read_json]
            for i, f in enumerate(readers):
                def run(thunk):
                    try:
                        return ["ok", [dict(x) for x in thunk()]]
                    except Exception as e:
                        return ["raised", type(e).__name__]

                def cast_after():
                    data = f(path, **kw)
                    for item in data:
                        if "code" in item:
                            item["code"] = table[item["code"]]
                    return data
                res[f"typed{i}"] = run(lambda: f(path, types={"code": table.__getitem__}, **kw))
                res[f"after{i}"] = run(cast_after)
        else:
            import pandas as pd
            pdf = pd.DataFrame({"station": ["HEL", "TMP", "OUL"], "temp": [1.5, -2.0, -7.5], "hum": [80, 70, 60]})
            if case["index"] == "labelled":
                pdf = pdf.set_index("station")
            path = os.path.join(d, "p.parquet")
            pdf.to_parquet(path)
            cols = case["restrict"]
            for i, f in enumerate((di.DataFrame.read_parquet, di.read_parquet)):
                part = f(path, columns=cols)
                full = f(path)
                res[f"part{i}"] = canon(part)
                res[f"sel{i}"] = canon(full.select(*cols) if cols else full)
    except Exception as e:
        res["err"] = f"{type(e).__name__}: {e}"
    finally:
        shutil.rmtree(d, ignore_errors=True)
    return res


def impl(case):
    if case["op"] in ("lookup", "pandas_parquet"):
        return impl_special(case)
    d = tempfile.mkdtemp(prefix="verif-c14-")
    res = {}
    try:
        path = write_file(case, d)
        import copy as _copy
        import dataiter as di
        restrict, cast = arguments(case)          # ONE list and ONE mapping object, reused by every call below
        saved = (_copy.deepcopy(restrict), dict(cast))
        for which in ("alias", "class", "all", "all_shared"):
            try:
                obj = call(case, path, which, restrict, cast)
                res[which] = canon(obj)
                if which == "all":
                    # read everything, then cast with the library's own conversions
                    if isinstance(obj, di.DataFrame):
                        for k, ty in saved[1].items():
                            if k in obj:
                                obj[k] = obj[k].as_float() if ty is float else obj[k].as_integer() if ty is int else obj[k].as_string()
                    else:
                        for item in obj:
                            for k, ty in saved[1].items():
                                if k in item and item[k] is not None:
                                    item[k] = ty(item[k])
                    res["all_cast"] = canon(obj)
            except Exception as e:
                res[which] = {"__err__": f"{type(e).__name__}: {e}"}
        res["args_mutated"] = (restrict, cast) != saved
    finally:
        shutil.rmtree(d, ignore_errors=True)
    return res


def model_requests(case, obs):
    if case["op"] in ("lookup", "pandas_parquet"):
        return []
    reader = case["reader"]
    if reader in ("df_json", "geojson"):
        return [("read_restrict", {"kind": "frame", "records": [[[k, json.dumps(v)] for k, v in r.items()] for r in records_of(case)],
                                   "columns": case["restrict"]})]
    if reader == "lod_json":
        return [("read_restrict", {"kind": "items", "records": [[[k, json.dumps(v)] for k, v in r.items()] for r in records_of(case)],
                                   "columns": case["restrict"]})]
    if reader == "lod_csv" and case["header"]:
        t = case["table"]
        return [("read_restrict", {"kind": "csv", "header": t["names"], "rows": [[str(t["cols"][nm][i]) for nm in t["names"]] for i in range(t["nrow"])],
                                   "columns": case["restrict"]})]
    return []


def select_cast(case, allmap, restrict, cast):
    """read-all-then-select-and-cast as a name -> values map."""
    names = list(allmap)
    keep = [n for n in names if (not restrict or n in restrict)]
    if case["reader"] == "geojson" and "geometry" in allmap and "geometry" not in keep:
        keep.append("geometry")
    out = {}
    for n in keep:
        vals = allmap[n]
        if n in cast:
            vals = [None if v is None else float(v) for v in vals]
        out[n] = vals
    return out


def same_map(a, b):
    if set(a) != set(b):
        return False
    for k in a:
        if len(a[k]) != len(b[k]):
            return False
        for x, y in zip(a[k], b[k]):
            if x != y and not (isinstance(x, (int, float)) and isinstance(y, (int, float)) and not isinstance(x, bool) and float(x) == float(y)):
                return False
    return True


def judge_special(ctx, case, obs):
    ctx.count(case["op"])
    if "err" in obs:
        ctx.violation("oracle", f"{case['op']}:raises", f"the comparison itself failed: {obs['err']}", case, obs)
    elif case["op"] == "lookup":
        for i in range(2):
            if f"typed{i}" in obs and obs[f"typed{i}"] != obs[f"after{i}"]:
                ctx.violation("oracle", f"typed-read-differs:{case['reader']}:lookup-converter",
                              f"read with types= gives {obs[f'typed{i}']}, reading everything and converting afterwards gives {obs[f'after{i}']}", case, obs)
    else:
        for i in range(2):
            if obs[f"part{i}"] != obs[f"sel{i}"]:
                ctx.violation("oracle", "restrict-differs:df_parquet:pandas-written",
                              f"read_parquet(columns={case['restrict']}) gives {str(obs[f'part{i}'])[:200]}, read-all-then-select gives {str(obs[f'sel{i}'])[:200]}", case, obs)
    ctx.case_done(case, True)


def judge(ctx, case, obs, mouts):
    if case["op"] in ("lookup", "pandas_parquet"):
        return judge_special(ctx, case, obs)
    import dataiter as di
    reader = case["reader"]
    ctx.count(reader)
    t = case["table"]
    file_names = t["names"] if case["header"] or reader not in ("df_csv", "lod_csv") else gen_colnames(len(t["names"]))
    ren = dict(zip(t["names"], file_names))
    restrict = [ren.get(x, x) for x in case["restrict"]]
    cast = {ren.get(k, k) for k in case["cast"]}
    kept = [n for n in file_names if n in restrict]
    nontrivial = 0 < len(kept) < len(file_names) and [x for x in restrict if x in file_names] != kept
    al, cl, allr = obs["alias"], obs["class"], obs["all"]
    if "__err__" in allr:
        # the unrestricted read itself fails (e.g. an encoding the format cannot carry): not this property's business —
        # except that a GeoJSON file is validated as a whole before any selection: a restriction cannot make it readable
        if reader == "geojson" and "__err__" not in cl:
            ctx.violation("oracle", "restricted-read-accepts:geojson", f"GeoJSON.read(columns={restrict}) returned {str(cl)[:150]} for a file the unrestricted read rejects ({allr['__err__'][:100]})", case, obs)
        ctx.count("unreadable")
        ctx.case_done(case, False)
        return
    has_alias = reader in ("df_csv", "df_parquet", "df_npz", "geojson", "lod_json")
    if has_alias:
        if ("__err__" in al) != ("__err__" in cl) or ("__err__" not in al and not same_map(al, cl)):
            ctx.violation("oracle", f"alias-differs:{reader}", f"module-level alias and class method disagree: {str(al)[:150]} vs {str(cl)[:150]}", case, obs)
    if "__err__" in cl:
        ok_reject = (reader in ("df_csv", "df_parquet") and any(x not in file_names for x in restrict)) or \
            any(k not in allr or (restrict and k not in restrict) for k in cast)
        if not ok_reject:
            ctx.violation("oracle", f"restricted-read-raises:{reader}", f"restricted read raised although the full read works: {cl['__err__']}", case, obs)
    # a str mapping on a numeric column that has missing cells: the mapped read converts the file's own numbers
    # (None, '8'), read-everything-then-cast goes through the float column that holds the missing value ('nan', '8.0')
    strmiss = any(v == "str" and any(x is None or x == "nan" for x in allr.get(ren.get(k, k), [])) for k, v in case["cast"].items())
    suffix = ":str-cast-missing" if strmiss else ""
    # an int mapping on a column with missing cells: there is no integer to cast a missing cell to (NumPy: undefined, a
    # RuntimeWarning and an arbitrary number), so "read everything and cast" says nothing to compare with
    intmiss = any(v == "int" and any(x is None or x == "nan" for x in allr.get(ren.get(k, k), [])) for k, v in case["cast"].items())
    if intmiss:
        ctx.count("int-cast-missing:not-compared")
    if "__err__" in cl or intmiss:
        pass
    elif reader != "df_npz":
        exp = select_cast(case, obs.get("all_cast", allr), restrict, set())
        if not same_map(cl, exp):
            ctx.violation("oracle", f"restrict-differs:{reader}{suffix}", f"restricted read {str(cl)[:200]} != read-all-then-select {str(exp)[:200]}", case, obs, exp)
    if obs.get("args_mutated"):
        ctx.violation("oracle", f"argument-mutated:{reader}", "a reader changed the column list / dtype mapping object it was given", case, obs)
    sh = obs.get("all_shared")
    if sh is not None and "__err__" not in sh and "all_cast" in obs and reader != "df_npz" and not intmiss:
        # the unrestricted read with the caller's own (reused) mapping object, after the restricted reads
        if not same_map(sh, select_cast(case, obs["all_cast"], [], set())):
            ctx.violation("oracle", f"reused-mapping-differs:{reader}{suffix}", f"reading everything with the dtype mapping used before gives {str(sh)[:200]}, read-all-then-cast gives {str(obs['all_cast'])[:200]}", case, obs)
    if mouts:
        m = mouts[0]
        if isinstance(m, dict) and "err" in m:
            ctx.violation("correspondence", "read:model-error", f"model rejected the request: {m['err']}", case, obs, m)
        elif "__err__" not in cl:
            got = {k: vals for k, vals in cl.items() if k != "geometry"}
            mm = {k: [None if v is None else (json.loads(v) if reader != "lod_csv" else v) for v in vals] for k, vals in m}
            if set(mm) != set(got):
                ctx.violation("correspondence", f"read:{reader}:names-differ", "model and implementation keep different columns", case, obs, m)
            elif not case["cast"] and not same_map({k: [x if reader != "lod_csv" or x is None else str(x) for x in v] for k, v in got.items()}, mm):
                ctx.violation("correspondence", f"read:{reader}:values-differ", "model and implementation disagree on values", case, obs, m)
    ctx.case_done(case, nontrivial)


def extract(ctx):
    from harness import extract_ast
    extract_ast.gen_io_aliases()


run = common.default_run(sys.modules[__name__])
search = common.default_search(sys.modules[__name__])

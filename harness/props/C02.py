# -*- coding: utf-8 -*-
"""C02 — row subsetting returns exactly the selected whole rows, in order."""

import itertools
import sys
from unittest.mock import patch

import numpy as np

from harness import common, framegen, vecgen

LEVEL = {"partial": ["NumPy's take/delete/nonzero/fancy indexing behave like the Lean stand-ins: validated by the correspondence run only"]}
ASSUMPTIONS = ["np.take / np.delete / boolean and integer indexing as documented; Python tuple equality and hashing for row tuples (None == None, 0.0 == -0.0)"]
# objects with a history are also left grouped by an earlier group_by (harness/warm.py): none of the
# operations of this property is documented as group-wise
WARM_GROUPED = True
RULE = ("frames of 0..40 rows x 1..4 columns over 11 dtype kinds from small value pools; operations filter/filter_out "
        "(mask, callable, col=value), slice/slice_off (incl. negative positions), head/tail (n in 0..nrow+2), drop_na, "
        "sample (recorded draw), unique (1..k key columns); non-trivial = >=2 rows and a result that is neither empty nor "
        "everything; thorough adds all masks x all key columns over {NA,a,b} with <=5 rows")

OPS = ["filter_mask", "filter_callable", "filter_kv", "filter_out_mask", "filter_out_callable", "filter_out_kv", "slice", "slice_off",
       "head", "tail", "drop_na", "sample", "unique"]


def gen_case(rng, tier, op=None):
    spec = framegen.gen_frame(rng, tier)
    n = spec["n"]
    op = op or rng.choice(OPS)
    case = {"op": op, "frame": spec}
    names = [c["name"] for c in spec["cols"]]
    if op in ("filter_mask", "filter_callable", "filter_out_mask", "filter_out_callable"):
        case["mask"] = [rng.random() < 0.5 for _ in range(n)]
    elif op in ("filter_kv", "filter_out_kv"):
        k = rng.choice([1, 1, 2])
        conds = []
        for nm in rng.sample(names, min(k, len(names))):
            c = framegen.col(spec, nm)
            pool = c["vals"] or vecgen.POOLS[c["kind"]]
            conds.append([nm, rng.choice(pool)])
        case["conds"] = conds
    elif op in ("slice", "slice_off"):
        if n == 0:
            case["rows"] = []
        else:
            m = rng.randint(0, n + 1)
            if op == "slice":
                case["rows"] = [rng.randint(-n, n - 1) for _ in range(m)]
            else:
                case["rows"] = [rng.randint(-n, n - 1) for _ in range(min(m, 3))]
            # the same index vector in every spelling a caller may use: list, tuple, ndarray, Vector, and — for an arithmetic
            # progression — a range object (with a step, also a negative one)
            case["rows_as"] = rng.choice(["list", "list", "tuple", "array", "vector", "range", "range"])
            if case["rows_as"] == "range":
                step = rng.choice([1, 2, 3, -1, -2])
                a = rng.randint(-n, n - 1)
                b = rng.randint(-n - 1, n) if op == "slice" else max(-n - 1, min(n, a + step * rng.randint(0, 3)))
                case["range"] = [a, b, step]
                case["rows"] = list(range(a, b, step))
            if op == "slice" and rng.random() < 0.12:
                # a position that does not exist (>= nrow or < -nrow): nothing to return for it — the call must refuse it
                case["rows"] = list(case["rows"][:2]) + [rng.choice([n, n + 3, -n - 1, -n - 4])]
                case["rows_as"] = rng.choice(["list", "array", "vector"])
                case["oob"] = True
    elif op in ("head", "tail"):
        case["n"] = rng.randint(0, n + 2)
        if rng.random() < 0.3:
            # n omitted: the frame default `dataiter.DEFAULT_PEEK_ROWS` as set at the time of the call decides — not the
            # default for vectors, which is set to something else here
            case["default_rows"] = case["n"]
            case["default_elements"] = case["n"] + 3
            case["n_omitted"] = True
    elif op == "drop_na":
        case["cols"] = rng.sample(names, rng.randint(0, len(names)))
    elif op == "sample":
        case["n"] = rng.randint(0, n + 2)
        case["draw_seed"] = rng.randint(0, 10 ** 6)
    elif op == "unique":
        case["cols"] = rng.sample(names, rng.randint(0, len(names)))
    return case


def gen_cases(ctx):
    rng = ctx.rng
    cases = []
    # corpus: minimised past failures (fixed defects) run first
    cases.append({"op": "unique", "cols": ["a"], "frame": {"n": 3, "cols": [{"name": "a", "kind": "float", "vals": ["-inf", "nan", 1.0]}]}})
    cases.append({"op": "unique", "cols": ["a"], "frame": {"n": 3, "cols": [{"name": "a", "kind": "float", "vals": [-9007199254740992.0, "nan", 1.0]}]}})
    cases.append({"op": "unique", "cols": ["a"], "frame": {"n": 0, "cols": [{"name": "a", "kind": "float", "vals": []}]}})
    cases.append({"op": "unique", "cols": ["a"], "frame": {"n": 4, "cols": [{"name": "a", "kind": "timedelta", "vals": [None, 1, None, 1]}]}})
    cases.append({"op": "tail", "n": 0, "frame": {"n": 3, "cols": [{"name": "a", "kind": "int", "vals": [1, 2, 3]}]}})
    # small scope, every tier: keys that are equal as values but differ in representation (0.0 / -0.0, NaNs
    # with different bit patterns: see vecgen.make_array), and the missing value of every key kind
    for kind, alpha in (("float", ["nan", "-0.0", 0.0]), ("float", ["nan", 1.0]), ("date", [None, 0]), ("str", ["", "a"])):
        for ln in range(2, 5):
            for vals in itertools.product(alpha, repeat=ln):
                spec = {"n": ln, "cols": [{"name": "a", "kind": kind, "vals": list(vals)}]}
                cases.append({"op": "unique", "cols": ["a"], "frame": spec})
    # several float columns named at once, with infinities of both signs and missing values in the same rows: a row is
    # dropped exactly when ONE of its named cells is missing — inf is a value, and no arithmetic over the cells decides it
    for _ in range(30 if ctx.tier == "quick" else 600):
        ln = rng.choice([2, 3, 5, 8])
        pool = ["inf", "-inf", "inf", "-inf", 1.0, "nan", -1.5, 9007199254740992.0, -9007199254740992.0]
        spec = {"n": ln, "cols": [{"name": nm, "kind": "float", "vals": [rng.choice(pool) for _ in range(ln)]} for nm in ("a", "b", "c")[:rng.choice([2, 3])]]}
        cases.append({"op": "drop_na", "cols": [c["name"] for c in spec["cols"]], "frame": spec})
    # object / integer / boolean columns on frames WITH A HISTORY (harness/warm.py: used through the non-modifying methods
    # while they held other contents): what `is_na` answered for the earlier contents must not survive into drop_na / unique
    for kind, vals in (("objint", [None, 1, None, 2, 3]), ("objint", [1, None, 2, None, None]), ("objstr", ["a", None, "b", None, "a"]),
                       ("objstr", [None, "a", "b", "b", None]), ("int", [3, 1, 2, 1, 3]), ("bool", [True, False, True, True, False])):
        spec = {"n": 5, "cols": [{"name": "a", "kind": kind, "vals": vals}, {"name": "b", "kind": "int", "vals": [1, 2, 3, 4, 5]}]}
        for op in ("drop_na", "unique"):
            cases.append({"op": op, "cols": ["a"], "frame": spec, "warm": True})
            cases.append({"op": op, "cols": ["a", "b"], "frame": spec, "warm": True})
    # column=value with a number of ANOTHER type than the column's (a float for an integer column, an integer for a Boolean
    # or a float one): the three forms stay interchangeable — the rows of the mask `column == value`
    raw_specs = [("int", [1, 2, 3, 2, 0], [2.5, 2.0, 0.5, True, 3.0, -0.0]), ("bool", [True, False, True, False], [2, 1, 0.0, 0.5, 1.0]),
                 ("float", [1.0, 2.5, 2.0, 0.0, "-0.0"], [2, 1, 0, True, 3])]
    for kind, vals, probes in raw_specs:
        spec = {"n": len(vals), "cols": [{"name": "a", "kind": kind, "vals": vals}, {"name": "b", "kind": "int", "vals": list(range(len(vals)))}]}
        for v in probes:
            for op in ("filter_kv", "filter_out_kv"):
                cases.append({"op": op, "conds": [["a", v]], "raw": True, "frame": spec})
    n = 900 if ctx.tier == "quick" else 25000
    for _ in range(n):
        cases.append(gen_case(rng, ctx.tier))
    if ctx.tier == "thorough":
        for kind, alpha in (("float", ["nan", "-inf", 1.0]), ("str", ["", "a", "b"]), ("date", [None, 0, 1])):
            for ln in range(0, 5):
                for vals in itertools.product(alpha, repeat=ln):
                    spec = {"n": ln, "cols": [{"name": "a", "kind": kind, "vals": list(vals)}]}
                    cases.append({"op": "unique", "cols": ["a"], "frame": spec})
                    cases.append({"op": "drop_na", "cols": ["a"], "frame": spec})
                    for mask in itertools.product([False, True], repeat=ln):
                        cases.append({"op": "filter_mask", "mask": list(mask), "frame": spec})
                        cases.append({"op": "filter_out_mask", "mask": list(mask), "frame": spec})
    return cases


def impl(case):
    import dataiter as di
    spec, op = case["frame"], case["op"]
    df = framegen.build(spec)
    before = framegen.snapshot(df)
    res = {}
    try:
        if op == "filter_mask":
            out = df.filter(mask_as(case))
        elif op in ("filter_callable", "filter_out_callable"):
            # the callable form: a condition on the frame it is handed, by position in THAT frame (not row-local:
            # evaluated on anything but the whole receiver it selects other rows).  On objects with a history
            # the receiver is, in addition, grouped (group_by marks it): the condition is still one mask.
            from harness import warm
            pos = np.flatnonzero(np.array(case["mask"], dtype=bool))
            if warm.ENABLED and spec["cols"]:
                df.group_by(spec["cols"][0]["name"])
            fn = lambda x: np.isin(np.arange(x.nrow), pos)
            out = df.filter(fn) if op == "filter_callable" else df.filter_out(fn)
            df._group_colnames = ()
        elif op == "filter_out_mask":
            out = df.filter_out(mask_as(case))
        elif op in ("filter_kv", "filter_out_kv"):
            kv = {}
            for nm, v in case["conds"]:
                c = framegen.col(spec, nm)
                # ("raw": the value as the caller wrote it, a Python number of ANOTHER type than the column's)
                kv[nm] = v if case.get("raw") else vecgen.make_array(c["kind"], [v])[0]
            out = df.filter(**kv) if op == "filter_kv" else df.filter_out(**kv)
        elif op in ("slice", "slice_off"):
            how = case.get("rows_as", "list")
            rows = case["rows"]
            arg = (tuple(rows) if how == "tuple" else np.array(rows, dtype=np.int64) if how == "array" else
                   np.array(rows, dtype=np.int64).view(di.Vector) if how == "vector" else range(*case["range"]) if how == "range" else list(rows))
            out = df.slice(rows=arg) if op == "slice" else df.slice_off(rows=arg)
        elif op in ("head", "tail") and case.get("n_omitted"):
            with patch("dataiter.DEFAULT_PEEK_ROWS", case["default_rows"]), patch("dataiter.DEFAULT_PEEK_ELEMENTS", case["default_elements"]):
                out = df.head() if op == "head" else df.tail()
        elif op == "head":
            out = df.head(case["n"])
        elif op == "tail":
            out = df.tail(case["n"])
        elif op == "drop_na":
            out = df.drop_na(*case["cols"])
        elif op == "sample":
            rs = np.random.RandomState(case["draw_seed"])
            drawn = {}

            def choice(a, size=None, replace=True, p=None):
                r = rs.choice(a, size, replace=replace)
                drawn["v"] = [int(x) for x in r]
                return r
            with patch("numpy.random.choice", choice):
                out = df.sample(case["n"])
            res["drawn"] = drawn.get("v")
        elif op == "unique":
            out = df.unique(*case["cols"])
        rids, problem = framegen.rows_integrity(spec, out)
        res.update({"rids": rids, "problem": problem,
                    "dtypes_same": [str(out[c["name"]].dtype) == str(df[c["name"]].dtype) for c in spec["cols"] if c["name"] in out]})
    except Exception as e:
        res["err"] = f"{type(e).__name__}: {e}"
    res["mutated"] = framegen.snapshot(df) != before
    return res


def key_cols(spec, names):
    return [vecgen.cells(framegen.col(spec, nm)["kind"], framegen.col(spec, nm)["vals"]) for nm in names]


def na_eq(kind):
    return kind in ("str", "strlong", "ustr", "objint", "objstr")


def model_requests(case, obs):
    spec, op = case["frame"], case["op"]
    n = spec["n"]
    names = [c["name"] for c in spec["cols"]]
    if op in ("filter_mask", "filter_callable"):
        return [("filter", {"mask": case["mask"]})]
    if op in ("filter_out_mask", "filter_out_callable"):
        return [("filter_out", {"mask": case["mask"]})]
    if op in ("filter_kv", "filter_out_kv") and case.get("raw"):
        return []
    if op in ("filter_kv", "filter_out_kv"):
        conds = []
        for nm, v in case["conds"]:
            c = framegen.col(spec, nm)
            conds.append({"cells": vecgen.cells(c["kind"], c["vals"]), "naEq": na_eq(c["kind"]), "v": vecgen.cell(c["kind"], v)})
        return [("filter_kv", {"n": n, "conds": conds, "out": op == "filter_out_kv"})]
    if op == "slice":
        return [("slice", {"n": n, "rows": case["rows"]})]
    if op == "slice_off":
        return [("slice_off", {"n": n, "rows": case["rows"]})]
    if op == "head":
        return [("head", {"nrow": n, "n": case["n"]})]
    if op == "tail":
        return [("tail", {"nrow": n, "n": case["n"]})]
    if op == "drop_na":
        return [("drop_na", {"n": n, "cols": key_cols(spec, case["cols"])})]
    if op == "sample":
        return [("sample", {"chosen": obs.get("drawn") or []})]
    if op == "unique":
        if case["cols"]:
            return [("unique", {"n": n, "cols": key_cols(spec, case["cols"])})]
        # no column names: all columns, including the hidden row-id column
        return [("unique", {"n": n, "cols": key_cols(spec, names) + [list(range(n))]})]
    raise ValueError(op)


def expected(case, obs):
    """The property's own clause, computed with plain Python loops over row ids."""
    spec, op = case["frame"], case["op"]
    n = spec["n"]
    if op in ("filter_mask", "filter_callable"):
        return [i for i in range(n) if case["mask"][i]]
    if op in ("filter_out_mask", "filter_out_callable"):
        return [i for i in range(n) if not case["mask"][i]]
    if op in ("filter_kv", "filter_out_kv"):
        keep = []
        for i in range(n):
            ok = True
            for nm, v in case["conds"]:
                c = framegen.col(spec, nm)
                a, b = c["vals"][i], v
                if case.get("raw"):
                    # column=value is the mask `column == value`: a number of another type selects the rows whose cell is
                    # numerically equal to it (2.5 equals no integer, 2 no boolean), never the rows it would be cast onto
                    if vecgen.is_na_val(c["kind"], a):
                        return None
                    ok = ok and (vecgen.pyval(c["kind"], a) == v)
                    continue
                if vecgen.is_na_val(c["kind"], a) or vecgen.is_na_val(c["kind"], b):
                    # equality with a missing value is left unspecified by the property
                    # (NumPy: NaN != NaN, "" == ""): accept the implementation's own mask
                    return None
                ok = ok and (vecgen.sort_key(c["kind"], vecgen.canon_vals(c["kind"], [a])[0]) ==
                             vecgen.sort_key(c["kind"], vecgen.canon_vals(c["kind"], [b])[0]))
            if ok == (op == "filter_kv"):
                keep.append(i)
        return keep
    if op == "slice":
        return [r % n for r in case["rows"]] if n else []
    if op == "slice_off":
        drop = {r % n for r in case["rows"]} if n else set()
        return [i for i in range(n) if i not in drop]
    if op == "head":
        return list(range(min(case["n"], n)))
    if op == "tail":
        return list(range(n - min(case["n"], n), n))
    if op == "drop_na":
        return [i for i in range(n) if not framegen.row_has_na(spec, case["cols"], i)]
    if op == "sample":
        return None
    if op == "unique":
        names = case["cols"] or [c["name"] for c in spec["cols"]]
        if not case["cols"]:
            return list(range(n))  # the hidden row-id column makes every row distinct
        seen, keep = set(), []
        for i in range(n):
            k = framegen.key_tuple(spec, names, i)
            if k not in seen:
                seen.add(k)
                keep.append(i)
        return keep


def mask_as(case):
    """the boolean mask in the form a caller may hold it (a function of the case alone): a bool ndarray, an OBJECT ndarray of
    Python bools (what a list comprehension over rows put into np.array(..., object), or a pandas column with missing values
    dropped, gives), a plain list, a Vector"""
    import dataiter as di
    m = case["mask"]
    how = (len(m) + sum(m)) % 4
    if how == 1:
        a = np.empty(len(m), dtype=object)
        for i, x in enumerate(m):
            a[i] = bool(x)
        return a
    if how == 2:
        return [bool(x) for x in m]
    if how == 3:
        return np.array(m, dtype=bool).view(di.Vector)
    return np.array(m, dtype=bool)


def judge(ctx, case, obs, mouts):
    spec, op = case["frame"], case["op"]
    n = spec["n"]
    ctx.count(op)
    ctx.count("rows0" if n == 0 else "rows1" if n == 1 else "rows2+")
    rids = obs.get("rids")
    nontrivial = n >= 2 and rids is not None and 0 < len(rids) < n
    base = op.replace("_mask", "").replace("_callable", "").replace("_kv", "")
    if case.get("oob"):
        ctx.count("slice:position-out-of-range")
        if "err" not in obs:
            ctx.violation("oracle", "slice:out-of-range-accepted", f"slice({case['rows']}) on {n} rows returned rows {rids} for a position that does not exist", case, obs)
        ctx.case_done(case, True)
        return
    if "err" in obs:
        ctx.violation("oracle", f"{base}:raises:rows{min(n, 2)}", f"DataFrame.{base} raised: {obs['err']}", case, obs)
    else:
        if obs["mutated"]:
            ctx.violation("oracle", f"{base}:mutates", "operation changed its receiver", case, obs)
        if obs["problem"]:
            ctx.violation("oracle", f"{base}:not-whole-rows", f"output rows are not whole input rows: {obs['problem']}", case, obs)
        else:
            exp = expected(case, obs)
            if op == "sample":
                k = min(case["n"], n)
                ok = len(rids) == k and all(rids[i] < rids[i + 1] for i in range(len(rids) - 1))
                if not ok:
                    ctx.violation("oracle", "sample:wrong", "sample is not min(n,nrow) distinct rows in original order", case, obs)
            elif exp is not None and rids != exp:
                ctx.violation("oracle", f"{base}:wrong-rows", f"{op} kept rows {rids}, the property requires {exp}", case, obs, exp)
            if not all(obs["dtypes_same"]):
                ctx.violation("oracle", f"{base}:dtype-changed", "a column changed dtype", case, obs)
    if mouts:
        m = mouts[0]
        if isinstance(m, dict) and "err" in m:
            ctx.violation("correspondence", f"{op}:model-error", f"model rejected the request: {m['err']}", case, obs, m)
        elif "err" in obs:
            pass  # already an oracle violation with this input as the replay
        elif obs.get("problem") is None and m != rids:
            ctx.violation("correspondence", f"{op}:differs", "model and implementation return different row ids", case, obs, m)
    ctx.case_done(case, nontrivial)


run = common.default_run(sys.modules[__name__])
search = common.default_search(sys.modules[__name__])

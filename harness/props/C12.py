# -*- coding: utf-8 -*-
"""C12 — writing a file and reading it back reproduces the data frame / list of dicts."""

import os
import shutil
import sys
import tempfile

import numpy as np

from harness import common, framegen, vecgen

LEVEL = {"partial": ["the codecs themselves (pyarrow csv/parquet, pickle, numpy savez, json, csv, gzip/bz2/lzma, text encodings) are assumptions; what is dataiter's — suffix dispatch in xopen, which read_/write_ methods go through xopen, symmetric use on both sides — is regenerated from the source as tables and proved; the round trips are observed on generated data"]}
ASSUMPTIONS = ["each external codec decodes what it encodes for representable data; gzip/bz2/lzma streams start with their magic bytes"]
# objects with a history are also left grouped by an earlier group_by (harness/warm.py): none of the
# operations of this property is documented as group-wise
WARM_GROUPED = True
RULE = ("frames of 1..5 rows x 1..4 columns (bool/int/float/str/date with missing values, non-ASCII text, delimiters, quotes and newlines "
        "inside strings; restricted per format to representable data) and lists of 1..4 dicts; formats pickle, npz, parquet, csv, json x "
        "suffix in {plain, .gz, .bz2, .xz} x sep in {, ; tab |} x header x encoding in {utf-8, latin-1, utf-16}; checked: equality of names, "
        "order, values, missing positions (dtypes for the binary formats) and the compression magic of the written bytes; "
        "non-trivial = >=2 rows with a missing value or a string needing quoting")

FORMATS = ["pickle", "npz", "parquet", "csv", "json", "lod_pickle", "lod_json", "lod_csv"]
SUFFIXES = ["", ".gz", ".bz2", ".xz"]
MAGIC = {".gz": b"\x1f\x8b", ".bz2": b"BZh", ".xz": b"\xfd7zXZ\x00"}
STRS = ["a", "ä", "x y", 'q"r', "line\nbreak", "a,b;c|d\te", "zz"]
ASCII_STRS = ["a", "x y", 'q"r', "line\nbreak", "a,b;c|d\te", "zz"]


def gen_frame(rng, fmt, enc):
    n = rng.choice([1, 2, 3, 5])
    ncol = rng.choice([1, 2, 3, 4])
    kinds_ok = {"pickle": ["bool", "int", "float", "str", "date", "datetime", "timedelta", "objstr", "objstr"],
                "npz": ["bool", "int", "float", "str", "date", "datetime"],
                "parquet": ["bool", "int", "float", "str", "date", "datetime"],
                "csv": ["bool", "int", "float", "str", "date"], "json": ["bool", "int", "float", "str"]}[fmt]
    cols = []
    for j in range(ncol):
        kind = rng.choice(kinds_ok)
        if kind == "str":
            pool = STRS if enc in ("utf-8", "utf-16") else ["a", "ä", "x y", 'q"r', "line\nbreak", "a,b;c|d\te"]
            vals = [rng.choice(pool + [""]) for _ in range(n)]
            if rng.random() < 0.25 and fmt != "csv":
                # text that LOOKS like something else (dates, numbers, booleans): it is text, and comes back as text
                # (not in CSV, which has no types: there the reader's inference is the documented behaviour)
                look = rng.choice([["2024-02-29", "2024-03-01", "2024-03-15"], ["2024-02-29", "1999-12-31"], ["007", "1e3", "10"], ["True", "False"], ["NaN", "null", "None"]])
                vals = [rng.choice(look + [""]) for _ in range(n)]
            if all(v == "" for v in vals) and fmt == "csv":
                vals[0] = "a"
            if fmt == "csv" and n >= 2 and rng.random() < 0.2:
                # text that other tools read as "no value" (a country code NA, the word null): in a column that holds
                # ordinary text as well it is text, and comes back as text
                vals[0] = "a"
                for i in range(1, n):
                    if rng.random() < 0.7:
                        vals[i] = rng.choice(["NA", "null", "N/A", "nan", "NULL", "#N/A", "NaN", "n/a"])
        elif kind == "float":
            vals = [rng.choice([1.5, -2.25, 0.1, 1e300, "nan", 3.0, 1e-7]) for _ in range(n)]
            if fmt == "csv" and all(v == "nan" for v in vals):
                vals[0] = 1.5
        elif kind == "int":
            vals = [rng.choice([0, 1, -5, 9007199254740993, 7]) for _ in range(n)]
        elif kind == "bool":
            vals = [rng.choice([True, False]) for _ in range(n)]
        elif kind == "date":
            vals = [rng.choice([0, 18000, 19000, None]) for _ in range(n)]
            if fmt == "csv" and all(v is None for v in vals):
                vals[0] = 0
        elif kind == "datetime":
            vals = [rng.choice([0, 1600000000000000, None]) for _ in range(n)]
        elif kind == "objstr":
            vals = [rng.choice(["first", "x", "last", None]) for _ in range(n)]
        else:
            vals = [rng.choice([0, 5, None]) for _ in range(n)]
        if fmt == "csv" and ncol == 1:
            # a one-column CSV writes a missing value as a blank line, which CSV readers skip:
            # not representable in the format
            na = {"str": "", "float": "nan"}.get(kind, None)
            fill = {"str": "a", "float": 1.5, "date": 0}.get(kind)
            vals = [fill if vecgen.is_na_val(kind, v) else v for v in vals]
        cols.append({"name": framegen.NAMES[j], "kind": kind, "vals": vals})
    return framegen.odd_names(rng, {"n": n, "cols": cols}, latin1=enc not in ("utf-8", "utf-16"))


def gen_dicts(rng, fmt, enc):
    n = rng.choice([1, 2, 3, 4])
    out = []
    for i in range(n):
        d = {"a": rng.choice(ASCII_STRS if enc == "latin-1" else STRS), "b": rng.choice(["x", "y", "ä" if enc != "ascii" else "y"])}
        if fmt != "lod_csv":
            d["n"] = rng.choice([1, 2.5, None, True])
            if rng.random() < 0.4:
                d["extra"] = rng.choice(["e", 3])
        else:
            d["n"] = rng.choice(["1", "2.5", "t"])
            if i > 0 and rng.random() < 0.25:
                del d[rng.choice(["b", "n"])]
        # the items of one list need not have been built key by key in the same order (items filled in by modify, lists
        # put together with +, JSON records written by different hands): equal dicts, different insertion orders
        if i > 0 and rng.random() < 0.6:
            ks = list(d)
            rng.shuffle(ks)
            d = {k: d[k] for k in ks}
        out.append(d)
    return out


def gen_case(rng, tier):
    fmt = rng.choice(FORMATS)
    enc = rng.choice(["utf-8", "utf-8", "latin-1", "utf-16"]) if fmt in ("csv", "json", "lod_json", "lod_csv") else "utf-8"
    case = {"op": "file", "format": fmt, "suffix": rng.choice(SUFFIXES), "encoding": enc,
            "sep": rng.choice([",", ",", ";", "\t", "|"]), "header": rng.random() < 0.8}
    if fmt.startswith("lod_"):
        case["dicts"] = gen_dicts(rng, fmt, enc)
    else:
        case["frame"] = gen_frame(rng, fmt, enc)
    return case


def gen_cases(ctx):
    rng = ctx.rng
    fr = {"n": 2, "cols": [{"name": "a", "kind": "str", "vals": ["x", 'a;"b\nc']}, {"name": "b", "kind": "float", "vals": [1.5, "nan"]}]}
    cases = []
    for suf in SUFFIXES:
        cases.append({"op": "file", "format": "csv", "suffix": suf, "encoding": "utf-8", "sep": ",", "header": True, "frame": fr})
        cases.append({"op": "file", "format": "csv", "suffix": suf, "encoding": "latin-1", "sep": ";", "header": True, "frame": fr})
    # text columns whose every value LOOKS like a date / a number / a boolean: text comes back as text in every typed format
    for fmt in ("json", "pickle", "npz", "parquet"):
        for look in (["2024-02-29", "2024-03-01", "", "2024-03-15"], ["007", "1e3", "10", ""], ["True", "False", "True", ""], ["null", "NaN", "None", "-"]):
            cases.append({"op": "file", "format": fmt, "suffix": rng.choice(SUFFIXES), "encoding": "utf-8", "sep": ",", "header": True,
                          "frame": {"n": 4, "cols": [{"name": "a", "kind": "int", "vals": [1, 2, 3, 4]}, {"name": "b", "kind": "str", "vals": look}]}})
    # CSV: header x encoding x where the first line break falls, crossed (a reader that looks at "the first line" of the raw
    # bytes meets a multi-byte encoding, or a line break inside a quoted string of the first row)
    for header in (True, False):
        for enc in ("utf-8", "latin-1", "utf-16", "utf-16-le", "utf-32"):
            for first_row_break in (False, True):
                for suf in ("", ".gz"):
                    a = ["two\nlines", "plain"] if first_row_break else ["plain", "two\nlines"]
                    cases.append({"op": "file", "format": "csv", "suffix": suf, "encoding": enc, "sep": rng.choice([",", ";"]), "header": header,
                                  "frame": {"n": 2, "cols": [{"name": "a", "kind": "str", "vals": a}, {"name": "b", "kind": "int", "vals": [1, 2]}, {"name": "c", "kind": "float", "vals": [0.5, 1.5]}]}})
    # CSV: a text column that holds ordinary text next to spellings other tools read as "no value" (ISO country code NA)
    for header in (True, False):
        cases.append({"op": "file", "format": "csv", "suffix": "", "encoding": "utf-8", "sep": ",", "header": header,
                      "frame": {"n": 5, "cols": [{"name": "a", "kind": "str", "vals": ["FI", "NA", "null", "N/A", "nan"]}, {"name": "b", "kind": "int", "vals": [1, 2, 3, 4, 5]}]}})
    # frames in which EVERY column is constant (a table of defaults, a one-level extract): as many rows come back as went in
    for fmt in ("npz", "pickle", "parquet", "csv", "json"):
        for nrow in (2, 5):
            cases.append({"op": "file", "format": fmt, "suffix": "", "encoding": "utf-8", "sep": ",", "header": True,
                          "frame": {"n": nrow, "cols": [{"name": "a", "kind": "int", "vals": [7] * nrow}, {"name": "b", "kind": "str", "vals": ["k"] * nrow},
                                                         {"name": "c", "kind": "float", "vals": [1.5] * nrow}]}})
    # a list of dicts whose JSON text is larger than any writer block (2**20 characters), in every text encoding incl. those
    # whose codec writes a byte order mark once per stream
    for enc in ("utf-8", "utf-16", "latin-1"):
        cases.append({"op": "file", "format": "lod_json", "suffix": "", "encoding": enc, "sep": ",", "header": True, "big_items": 30000,
                      "dicts": [{"a": 1, "b": "x", "n": 2.5}, {"a": 2, "b": "y", "n": None}]})
    n = 260 if ctx.tier == "quick" else 4000
    for _ in range(n):
        cases.append(gen_case(rng, ctx.tier))
    # one file far larger than a reader's block size (Arrow reads CSV in 1 MiB blocks), with line breaks, quotes and
    # delimiters inside the strings: "for every ... option used consistently on both sides" has no size limit
    cases.append({"op": "file", "format": "csv", "suffix": "", "encoding": "utf-8", "sep": ",", "header": True, "big": 16000,
                  "frame": {"n": 3, "cols": [{"name": "a", "kind": "int", "vals": [1, 2, 3]},
                                              {"name": "b", "kind": "str", "vals": ["first line\nsecond, with comma", 'said "ok"\nmoved on', "plain"]}]}})
    if ctx.tier == "thorough":
        for suf in (".gz", ".xz"):
            cases.append(dict(cases[-1], suffix=suf))
    return cases


def reader_history(di, d, ncol):
    """Earlier reads in the same process (objects with a history, harness/warm.py, for files): files with
    the same number of columns read with column / key restrictions, with and without a header line, as
    CSV and JSON.  A later unrestricted round trip must not see anything of it."""
    from harness import warm
    import json as _json
    names = ["a", "b", "c", "d", "e", "f", "g"][:ncol]
    if ncol < 2:
        return
    rows = [[str(i * 10 + j) for j in range(ncol)] for i in range(3)]
    for hdr in (True, False):
        p = os.path.join(d, f"history-{int(hdr)}.csv")
        with open(p, "w", encoding="utf-8") as f:
            if hdr:
                f.write(",".join("h" + n for n in names) + "\n")
            for r in rows:
                f.write(",".join(r) + "\n")
        cols = [("h" + names[-1]) if hdr else names[-1]]
        warm._quiet(lambda: di.ListOfDicts.read_csv(p, header=hdr, keys=cols))
        warm._quiet(lambda: di.DataFrame.read_csv(p, header=hdr, columns=cols))
        warm._quiet(lambda: di.read_csv(p, header=hdr, columns=cols, dtypes={cols[0]: str}))
        os.remove(p)
    p = os.path.join(d, "history.json")
    with open(p, "w", encoding="utf-8") as f:
        _json.dump([dict(zip(names, r)) for r in rows], f)
    warm._quiet(lambda: di.ListOfDicts.read_json(p, keys=names[-1:]))
    warm._quiet(lambda: di.DataFrame.read_json(p, columns=names[-1:]))
    warm._quiet(lambda: di.DataFrame.read_json(p, columns=names[-1:], dtypes={names[-1]: str}))
    os.remove(p)


def expanded(case):
    """the frame of the case; for a `big` case the small frame repeated `big` times, row j tagged with j (distinct rows)"""
    fr = case["frame"]
    if case.get("big"):
        k = case["big"]
        fr = {"n": fr["n"] * k, "cols": [dict(c, vals=[(f"{v} #{j}" if c["kind"] == "str" else v) for j in range(k) for v in c["vals"]]) for c in fr["cols"]]}
    return fr


def lod_source(case):
    """the items written: those of the case, or — for a `big_items` case — that many items built from them (a counter in every
    string so that a repeated or dropped block shows)"""
    if not case.get("big_items"):
        return case["dicts"]
    base = case["dicts"]
    return [{k: (f"{v} #{j}" if isinstance(v, str) else v) for k, v in base[j % len(base)].items()} for j in range(case["big_items"])]


def impl(case):
    import dataiter as di
    from harness import warm
    fmt, suf, enc = case["format"], case["suffix"], case["encoding"]
    d = tempfile.mkdtemp(prefix="verif-c12-")
    res = {}
    try:
        if warm.ENABLED:
            ncol = len(case["frame"]["cols"]) if "frame" in case else max([len(x) for x in case.get("dicts", [])] + [0])
            reader_history(di, d, ncol)
        ext = {"pickle": ".pkl", "npz": ".npz", "parquet": ".parquet", "csv": ".csv", "json": ".json",
               "lod_pickle": ".pkl", "lod_json": ".json", "lod_csv": ".csv"}[fmt]
        path = os.path.join(d, "t" + ext + suf)
        if fmt.startswith("lod_"):
            src_dicts = lod_source(case)
            obj = di.ListOfDicts([dict(x) for x in src_dicts])
            try:
                if fmt == "lod_pickle":
                    obj.write_pickle(path)
                    back = di.ListOfDicts.read_pickle(path)
                elif fmt == "lod_json":
                    obj.write_json(path, encoding=enc)
                    back = di.ListOfDicts.read_json(path, encoding=enc)
                else:
                    obj.write_csv(path, encoding=enc, sep=case["sep"], header=case["header"])
                    back = di.ListOfDicts.read_csv(path, encoding=enc, sep=case["sep"], header=case["header"])
                res["back"] = [dict(x) for x in back]
                res["is_lod"] = isinstance(back, di.ListOfDicts)
            except Exception as e:
                res["err"] = f"{type(e).__name__}: {e}"
        else:
            fr = expanded(case)
            df = framegen.build(fr, rid=None)
            before = framegen.snapshot(df)
            try:
                if fmt == "pickle":
                    df.write_pickle(path)
                    back = di.DataFrame.read_pickle(path)
                elif fmt == "npz":
                    df.write_npz(path)
                    back = di.DataFrame.read_npz(path)
                elif fmt == "parquet":
                    df.write_parquet(path)
                    back = di.DataFrame.read_parquet(path)
                elif fmt == "csv":
                    df.write_csv(path, encoding=enc, sep=case["sep"], header=case["header"])
                    back = di.DataFrame.read_csv(path, encoding=enc, sep=case["sep"], header=case["header"])
                else:
                    df.write_json(path, encoding=enc)
                    back = di.DataFrame.read_json(path, encoding=enc)
                res["colnames"] = back.colnames
                res["cols"] = {k: (vecgen.canon_array(v.astype("datetime64[us]")) if v.is_datetime() else vecgen.canon_array(v)) for k, v in back.items()}
                res["na"] = {k: [bool(x) for x in v.is_na()] for k, v in back.items()}
                res["dtype"] = {k: str(v.dtype) for k, v in back.items()}
                res["orig_dtype"] = {k: str(v.dtype) for k, v in df.items()}
            except Exception as e:
                res["err"] = f"{type(e).__name__}: {e}"
            res["mutated"] = framegen.snapshot(df) != before
        res["files"] = sorted(os.listdir(d))
        if os.path.exists(path):
            with open(path, "rb") as f:
                res["head"] = list(f.read(6))
    finally:
        shutil.rmtree(d, ignore_errors=True)
    return res


def model_requests(case, obs):
    return []


def judge(ctx, case, obs, mouts):
    fmt, suf, enc = case["format"], case["suffix"], case["encoding"]
    ctx.count(f"{fmt}{suf or ':plain'}")
    ctx.count("enc:" + enc)
    base = fmt.replace("lod_", "")
    cls = f"{fmt}:{suf or 'plain'}:{enc}"
    nontrivial = False
    if "err" in obs:
        if fmt == "npz" and suf:
            sig = "npz:suffix:unreadable"
        elif enc == "utf-16" and suf in (".bz2", ".xz"):
            sig = f"utf-16:{suf}:bom"
        else:
            sig = f"roundtrip-raises:{cls}"
        ctx.violation("oracle", sig, f"{fmt} round trip with suffix {suf!r}, encoding {enc} raised: {obs['err']}", case, obs)
        ctx.case_done(case, False)
        return
    # really compressed on write
    if suf and "head" in obs:
        magic = MAGIC[suf]
        if bytes(obs["head"][:len(magic)]) != magic:
            sig = f"not-compressed:{'parquet' if fmt == 'parquet' else fmt}:{suf}" if fmt != "parquet" else "parquet:suffix:not-compressed"
            ctx.violation("oracle", sig, f"{fmt} file with suffix {suf} is not compressed (starts with {bytes(obs['head'])!r})", case, obs)
    if fmt.startswith("lod_"):
        src = [dict(x) for x in lod_source(case)]
        back = obs["back"]
        if fmt == "lod_csv":
            keys = list(dict.fromkeys(k for x in src for k in x))
            exp = [{k: ("" if x.get(k) is None else str(x.get(k))) for k in keys} for x in src]
            if not case["header"]:
                from dataiter import util
                gen = util.generate_colnames(len(keys))
                exp = [dict(zip(gen, [e[k] for k in keys])) for e in exp]
        else:
            exp = src
        if back != exp or not obs["is_lod"]:
            ctx.violation("oracle", f"lod-roundtrip-differs:{cls}", f"list read back {str(back)[:200]} != written {str(exp)[:200]}", case, obs, exp)
        ctx.case_done(case, len(src) >= 2)
        return
    spec = expanded(case)
    if obs.get("mutated"):
        ctx.violation("oracle", f"{fmt}:mutates", "writing changed the data frame", case, obs)
    names = [c["name"] for c in spec["cols"]]
    if base == "csv" and not case["header"]:
        # a CSV without a header line carries no names: the reader generates a, b, c, ... in column order
        from dataiter import util
        names = util.generate_colnames(len(names))
    if obs["colnames"] != names:
        ctx.violation("oracle", f"names-differ:{cls}", f"column names/order {obs['colnames']} != {names}", case, obs)
    else:
        for c, nm in zip(spec["cols"], names):
            kind = c["kind"]
            src = vecgen.canon_vals(kind, c["vals"])
            na_src = [vecgen.canon_is_na(kind, v) for v in src]
            if any(na_src) or (kind == "str" and any(ch in v for v in c["vals"] for ch in ',;"\n\t|')):
                nontrivial = nontrivial or spec["n"] >= 2
            first_na = na_src[0] and not all(na_src)
            got, na = obs["cols"][nm], obs["na"][nm]
            all_na = all(na_src)
            if na != na_src and not (all_na and base in ("csv", "json", "parquet")):
                ctx.violation("oracle", f"na-differs:{cls}:{kind}", f"column {nm}: missing positions {na} != {na_src}", case, obs)
                continue
            for i in range(spec["n"]):
                if na_src[i] or (all_na):
                    continue
                a, b = src[i], got[i]
                if kind == "date" and isinstance(a, int):
                    a = a * 86400 * 10 ** 6
                if kind == "timedelta":
                    pass
                ok = (a == b) or (isinstance(a, (int, float)) and isinstance(b, (int, float)) and not isinstance(a, bool) and float(a) == float(b)
                                  and (not isinstance(a, int) or base in ("csv", "json") and abs(a) < 2 ** 53 or a == b))
                if not ok:
                    ctx.violation("oracle", f"values-differ:{cls}:{kind}", f"column {nm} row {i}: {b!r} != {a!r}", case, obs)
                    break
            if base in ("pickle", "npz", "parquet") and not all_na:
                if obs["dtype"][nm] != obs["orig_dtype"][nm]:
                    sig = f"dtype-differs:{fmt}:{kind}" + (":first-missing" if (kind == "str" and first_na) else "")
                    ctx.violation("oracle", sig, f"column {nm}: dtype {obs['orig_dtype'][nm]} came back as {obs['dtype'][nm]}", case, obs)
    ctx.case_done(case, nontrivial)


def extract(ctx):
    from harness import extract_ast
    extract_ast.gen_io_sites()


run = common.default_run(sys.modules[__name__])
search = common.default_search(sys.modules[__name__])

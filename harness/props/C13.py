# -*- coding: utf-8 -*-
"""C13 — conversions to ListOfDicts, JSON, pandas and Arrow are invertible."""

import itertools
import json
import sys

import numpy as np

from harness import common, framegen, vecgen

LEVEL = {"partial": ["pandas / pyarrow type mapping (to_numpy, null handling) is assumed and observed, not modelled",
                     "JSON cannot carry dates: the JSON round trip is checked with dtypes supplied for date/datetime columns"]}
ASSUMPTIONS = ["pa.array(list) / pd.DataFrame(dict of lists) map None to null / NaN-NaT; json.dumps/loads are inverse on JSON values"]
# objects with a history are also left grouped by an earlier group_by (harness/warm.py): none of the
# operations of this property is documented as group-wise
WARM_GROUPED = True
RULE = ("frames with 1..6 rows and 1..4 columns over bool/int/float/str/date/datetime with arbitrary missing positions (incl. the first "
        "position and all-missing columns), ±inf, -0.0, 2**53+1, empty-looking and non-ASCII strings; the four round trips "
        "(ListOfDicts, JSON text, pandas, Arrow); checked: names/order, values, missing positions, dtype of bool/int/float/str columns "
        "with a non-missing value, nulls in the intermediate object, one record per row / one field per column; "
        "non-trivial = >=2 rows and a missing value; thorough adds all missing-position masks for <=4 rows x 6 dtypes")

KINDS = ["bool", "int", "float", "str", "date", "datetime", "objbool", "objint"]
ROUTES = ["lod", "json", "pandas", "arrow"]
VALS = {
    "bool": [True, False],
    "int": [0, 1, -5, 9007199254740993, 7],
    "float": [1.5, -2.25, 0.0, "inf", "-inf", "-0.0", 1e300],
    "str": ["a", "ä", "x y", "0", "None", "nan", "q\"r", "line\nbreak", " ", "  ", "\u00a0", "\u3000", "\t", "\u0141\u00f3d\u017a"],
    # text that merely LOOKS like other types: it is text, and must come back as the same text in a string column
    "strlike": ["2019-09-16", "2020-01-01", "2021-12-31 10:00:00", "2020-01-01T00:00:00", "1", "2.5", "true", "null", "1e3", "00501"],
    "date": [0, 1, 18000, 19000, -719162],
    "datetime": [0, 1, 1600000000000000, -62135596800000000],
    # object columns: what a boolean / integer column with missing values is in a data frame
    "objbool": [True, False],
    "objint": [0, 1, -5, 7],
}
NA = {"float": "nan", "str": "", "date": None, "datetime": None, "objbool": None, "objint": None}


def gen_case(rng, tier):
    n = rng.choice([1, 2, 3, 4, 6])
    ncol = rng.choice([1, 2, 3, 4])
    cols = []
    for j in range(ncol):
        kind = rng.choice(KINDS)
        vals = [rng.choice(VALS[kind]) for _ in range(n)]
        if kind == "str" and rng.random() < 0.35:
            # a whole string column of one look-alike family (all dates, all timestamps, all numbers, ...)
            like = VALS["strlike"]
            fam = rng.choice([like[:2], like[2:4], like[4:6] + like[8:], like[6:8], like])
            vals = [rng.choice(fam) for _ in range(n)]
        if kind in NA:
            mode = rng.random()
            for i in range(n):
                if (mode < 0.15) or (mode < 0.7 and rng.random() < 0.35) or (i == 0 and mode > 0.85):
                    vals[i] = NA[kind]
        cols.append({"name": framegen.NAMES[j], "kind": kind, "vals": vals})
    return {"op": "roundtrip", "route": rng.choice(ROUTES), "frame": framegen.odd_names(rng, {"n": n, "cols": cols})}


def gen_cases(ctx):
    rng = ctx.rng
    cases = [{"op": "roundtrip", "route": r, "frame": {"n": 2, "cols": [{"name": "a", "kind": "str", "vals": ["", "x"]}, {"name": "b", "kind": "float", "vals": ["inf", "nan"]}]}} for r in ROUTES]
    cases += [{"op": "roundtrip", "route": "pandas", "frame": {"n": 2, "cols": [{"name": "a", "kind": "int", "vals": [9007199254740993, 1]}, {"name": "b", "kind": "float", "vals": ["nan", 1.5]}, {"name": "c", "kind": "bool", "vals": [True, False]}]}}]
    # long columns that START with a long run of missing values (a field introduced after the first records were
    # logged): "at least one non-missing value, arbitrary missing positions incl. first" has no bound on the run
    for lead, total in ((1200, 1500), (4999, 5000)):
        for r in ("lod", "json"):
            cases.append({"op": "roundtrip", "route": r, "frame": {"n": total, "cols": [
                {"name": "a", "kind": "float", "vals": ["nan"] * lead + [1.5, 2.5] * ((total - lead) // 2) + [0.5] * ((total - lead) % 2)},
                {"name": "b", "kind": "str", "vals": [""] * lead + ["x"] * (total - lead)},
                {"name": "c", "kind": "int", "vals": list(range(total))}]}})
    n = 500 if ctx.tier == "quick" else 8000
    for _ in range(n):
        cases.append(gen_case(rng, ctx.tier))
    if ctx.tier == "thorough":
        for kind in ("float", "str", "date", "datetime"):
            for ln in range(1, 5):
                for mask in itertools.product([False, True], repeat=ln):
                    vals = [NA[kind] if m else VALS[kind][i % len(VALS[kind])] for i, m in enumerate(mask)]
                    for r in ROUTES:
                        cases.append({"op": "roundtrip", "route": r, "frame": {"n": ln, "cols": [{"name": "a", "kind": kind, "vals": vals}]}})
    return cases


def impl(case):
    import dataiter as di
    spec, route = case["frame"], case["route"]
    df = framegen.build(spec, rid=None)
    before = framegen.snapshot(df)
    res = {}
    try:
        dtypes = {c["name"]: ("datetime64[D]" if c["kind"] == "date" else "datetime64[us]") for c in spec["cols"] if c["kind"] in ("date", "datetime")}
        if route == "lod":
            mid = df.to_list_of_dicts()
            res["mid_records"] = len(mid)
            res["mid_fields"] = [len(x) for x in mid]
            res["mid_null"] = {c["name"]: [x[c["name"]] is None for x in mid] for c in spec["cols"]}
            back = mid.to_data_frame()
        elif route == "json":
            text = df.to_json()
            mid = json.loads(text)
            res["mid_records"] = len(mid)
            res["mid_fields"] = [len(x) for x in mid]
            res["mid_null"] = {c["name"]: [x[c["name"]] is None for x in mid] for c in spec["cols"]}
            back = di.DataFrame.from_json(text, dtypes=dtypes)
            # the same text through a FILE in an encoding that cannot carry every character (write_json / read_json with
            # encoding="latin-1"): the writer refuses (UnicodeEncodeError) or the text that comes back is the text written —
            # never a silently altered one
            import os, shutil, tempfile
            d = tempfile.mkdtemp(prefix="verif-c13-")
            try:
                path = os.path.join(d, "t.json")
                try:
                    df.write_json(path, encoding="latin-1")
                    b2 = di.DataFrame.read_json(path, encoding="latin-1", dtypes=dtypes)
                    res["file_latin1"] = {k: [None if m_ else vecgen.canon_elem(x) for x, m_ in zip(b2[k], b2[k].is_na())] for k in df.colnames if df[k].is_string() and k in b2}
                    res["file_latin1_src"] = {k: [None if m_ else vecgen.canon_elem(x) for x, m_ in zip(df[k], df[k].is_na())] for k in df.colnames if df[k].is_string()}
                except UnicodeError:
                    res["file_latin1"] = "refused"
                except Exception as e:
                    res["file_latin1"] = f"raises {type(e).__name__}"
            finally:
                shutil.rmtree(d, ignore_errors=True)
        elif route == "pandas":
            mid = df.to_pandas()
            res["mid_records"] = int(mid.shape[0])
            res["mid_fields"] = [int(mid.shape[1])] * int(mid.shape[0])
            res["mid_null"] = {c["name"]: [bool(x) for x in mid[c["name"]].isna()] for c in spec["cols"]}
            back = di.DataFrame.from_pandas(mid)
        else:
            mid = df.to_arrow()
            res["mid_records"] = int(mid.num_rows)
            res["mid_fields"] = [int(mid.num_columns)] * int(mid.num_rows)
            res["mid_null"] = {c["name"]: [bool(x) for x in mid[c["name"]].is_null().to_pylist()] for c in spec["cols"]}
            back = di.DataFrame.from_arrow(mid)
        res["colnames"] = back.colnames
        res["cols"] = {}
        for k in back.colnames:
            v = back[k]
            if v.is_datetime():
                vals = vecgen.canon_array(v.astype("datetime64[us]"))
            elif v.is_object():
                import datetime as _dt
                vals = [int(np.datetime64(x, "us").astype("int64")) if isinstance(x, (_dt.date, _dt.datetime)) else vecgen.canon_elem(x) for x in v]
            else:
                vals = vecgen.canon_array(v)
            res["cols"][k] = vals
        res["na"] = {k: [bool(x) for x in back[k].is_na()] for k in back.colnames}
        res["dtype"] = {k: str(back[k].dtype) for k in back.colnames}
        res["orig_dtype"] = {k: str(df[k].dtype) for k in df.colnames}
    except Exception as e:
        res["err"] = f"{type(e).__name__}: {e}"
    res["mutated"] = framegen.snapshot(df) != before
    return res


def model_requests(case, obs):
    spec = case["frame"]
    cols = [[c["name"], [None if vecgen.is_na_val(c["kind"], v) else json.dumps(v) for v in c["vals"]]] for c in spec["cols"]]
    return [("convert_roundtrip", {"cols": cols, "n": spec["n"]})]


def judge(ctx, case, obs, mouts):
    spec, route = case["frame"], case["route"]
    ctx.count(route)
    n = spec["n"]
    any_na = any(vecgen.is_na_val(c["kind"], v) for c in spec["cols"] for v in c["vals"])
    nontrivial = n >= 2 and any_na
    if "err" in obs:
        ctx.violation("oracle", f"{route}:raises", f"round trip through {route} raised: {obs['err']}", case, obs)
        ctx.case_done(case, nontrivial)
        return
    if obs["mutated"]:
        ctx.violation("oracle", f"{route}:mutates", "conversion changed the data frame", case, obs)
    fl = obs.get("file_latin1")
    if isinstance(fl, dict):
        ctx.count("json:file-latin-1:written")
        if fl != obs.get("file_latin1_src"):
            ctx.violation("oracle", "json:file-latin1:values", f"write_json / read_json with encoding='latin-1' returned {str(fl)[:200]} for {str(obs.get('file_latin1_src'))[:200]} (neither refused nor the same text)", case, obs)
    elif fl == "refused":
        ctx.count("json:file-latin-1:refused")
    names = [c["name"] for c in spec["cols"]]
    if obs["mid_records"] != n or any(f != len(names) for f in obs["mid_fields"]):
        ctx.violation("oracle", f"{route}:shape", "intermediate object does not have one record per row and one field per column", case, obs)
    if obs["colnames"] != names:
        ctx.violation("oracle", f"{route}:names", f"column names/order changed: {obs['colnames']}", case, obs)
    else:
        for c in spec["cols"]:
            nm, kind = c["name"], c["kind"]
            ctx.count("kind:" + kind)
            src = vecgen.canon_vals(kind, c["vals"])
            na_src = [vecgen.canon_is_na(kind, v) for v in src]
            first_na = bool(na_src) and na_src[0]
            all_na = all(na_src)
            cls = "first-missing" if (kind == "str" and first_na and not all_na) else "all-missing" if all_na else "regular"
            if obs["mid_null"][nm] != na_src:
                ctx.violation("oracle", f"{route}:null-positions", f"column {nm}: missing values do not cross as the format's null exactly at the missing positions", case, obs)
            if obs["na"][nm] != na_src:
                ctx.violation("oracle", f"{route}:na-positions:{kind}:{cls}", f"column {nm}: missing positions changed {obs['na'][nm]} != {na_src}", case, obs)
            else:
                got = obs["cols"][nm]
                bad = None
                for i in range(n):
                    if na_src[i]:
                        continue
                    a, b = src[i], got[i]
                    if kind == "date" and isinstance(a, int):
                        a = a * 86400 * 10 ** 6
                    if kind in ("int", "float", "bool") and not isinstance(b, str) and not isinstance(a, str):
                        if isinstance(b, float) and isinstance(a, int) and not isinstance(a, bool):
                            ok = float(a) == b and a == int(b)
                        else:
                            ok = a == b
                    else:
                        ok = a == b
                    if not ok:
                        bad = (i, a, b)
                        break
                if bad:
                    ctx.violation("oracle", f"{route}:values:{kind}", f"column {nm} row {bad[0]}: {bad[2]!r} != {bad[1]!r}", case, obs)
            if kind in ("bool", "int", "float", "str") and not all_na:
                if obs["dtype"][nm] != obs["orig_dtype"][nm]:
                    ctx.violation("oracle", f"{route}:dtype:{kind}:{cls}", f"column {nm}: dtype {obs['orig_dtype'][nm]} came back as {obs['dtype'][nm]}", case, obs)
    if mouts:
        m = mouts[0]
        if isinstance(m, dict) and "err" in m:
            ctx.violation("correspondence", "convert:model-error", f"model rejected the request: {m['err']}", case, obs, m)
        elif route in ("lod", "json") and obs.get("colnames") == names:
            # the model predicts names/order and the missing positions after records -> columns
            if [c[0] for c in m] != obs["colnames"] or any([v is None for v in c[1]] != obs["na"][c[0]] for c in m):
                ctx.violation("correspondence", f"{route}:differs", "model and implementation disagree on names or missing positions", case, obs, m)
    ctx.case_done(case, nontrivial)


run = common.default_run(sys.modules[__name__])
search = common.default_search(sys.modules[__name__])

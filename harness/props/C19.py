# -*- coding: utf-8 -*-
"""C19 — dt and regex functions act element-wise like datetime and re."""

import datetime
import re
import sys

import numpy as np

from harness import common

LEVEL = {"partial": ["calendar arithmetic (datetime) and regular-expression matching (re) are CPython's: they are the per-element reference, not modelled",
                     "the model covers the lifting: NaT / missing-string masking, the all-missing and empty early returns, vector components of replace, scalar wrapping, proxies"]}
ASSUMPTIONS = ["np.vectorize(f) applies f to every element of the non-missing selection in order"]
RULE = ("date / datetime vectors in units D, s, ms, us (time-of-day extractors on second-or-finer units only), years 1..9999 incl. ISO-week-53 "
        "years, leap days, pre-1970, NaT anywhere, length 0..6; 11 extractors, quarter, replace with scalar and vector components, to_string / "
        "from_string over a fixed family of unambiguous formats; 7 regex functions over a fixed pattern family incl. empty-matching patterns, "
        "flags, count / maxsplit; Vector .dt / .re / .str proxies vs module functions; scalar arguments; "
        "non-trivial = >=2 elements with a missing and a non-missing one")

DATES = ["0001-01-01", "0476-09-04", "0999-12-31", "1969-12-31", "1970-01-01", "2000-02-29", "2004-12-31", "2015-12-31", "2020-12-31", "2021-01-03", "2024-02-29",
         "2026-09-29", "9999-12-31", "1999-03-07"]
TIMES = ["T00:00:00", "T12:34:56", "T23:59:59.999999", "T06:07:08.000123"]
ROUND_TIMES = ["T12:00:00", "T06:00:00", "T18:00:00", "T00:07:12", "T01:12:00", "T23:16:48"]
EXTRACTORS = ["year", "month", "day", "hour", "minute", "second", "microsecond", "weekday", "isoweekday", "isoweek", "quarter"]
TOD = {"hour", "minute", "second", "microsecond"}
FORMATS_D = ["%Y-%m-%d", "%d.%m.%Y", "%Y%m%d", "%j/%Y"]
FORMATS_T = ["%Y-%m-%dT%H:%M:%S", "%d.%m.%Y %H.%M.%S", "%Y-%m-%d %H:%M:%S.%f"]
STRINGS = ["", "banana", "asdf", "1234", "one two  three", "Great great", "a.b.c", "ünï çödé", "aaa", "x\ny"]
PATTERNS = [r"[a-z]", r"[a-z]+", r"\d+", r" +", r"$", r"^", r"x*", r"(a)(b)?", r"\.", r"(?P<w>\w+)", r"great", r"a", r"an"]
STRFUNCS = [("upper", []), ("lower", []), ("capitalize", []), ("title", []), ("swapcase", []), ("strip", []), ("lstrip", ["a"]), ("rstrip", []),
            ("str_len", []), ("isalpha", []), ("isdigit", []), ("islower", []), ("isupper", []), ("isspace", []), ("isalnum", []), ("isdecimal", []),
            ("isnumeric", []), ("istitle", []), ("startswith", ["a"]), ("endswith", ["a"]), ("find", ["a"]), ("rfind", ["a"]), ("count", ["a"]),
            ("replace", ["a", "bb"]), ("add", ["!"]), ("multiply", [2]), ("equal", ["aaa"]), ("not_equal", ["aaa"]), ("less", ["b"]),
            ("greater", ["b"]), ("less_equal", ["b"]), ("greater_equal", ["b"]), ("center", [9]), ("ljust", [9]), ("rjust", [9]), ("zfill", [9]),
            ("expandtabs", [])]
REFUNCS = ["findall", "fullmatch", "match", "search", "split", "sub", "subn"]


def gen_case(rng, tier):
    c = rng.random()
    n = rng.choice([0, 1, 2, 3, 4, 6])
    if c < 0.45:
        unit = rng.choice(["D", "s", "ms", "us"])
        vals = []
        for _ in range(n):
            if rng.random() < 0.25:
                vals.append(None)
            else:
                d = rng.choice(DATES)
                vals.append(d if unit == "D" else d + rng.choice(TIMES))
        ex = rng.choice(EXTRACTORS if unit != "D" else [e for e in EXTRACTORS if e not in TOD])
        return {"op": "extract", "unit": unit, "vals": vals, "f": ex, "via": rng.choice(["module", "proxy", "scalar"])}
    if c < 0.6:
        unit = rng.choice(["D", "us"])
        vals = [None if rng.random() < 0.25 else (rng.choice(DATES[1:-2]) + ("" if unit == "D" else rng.choice(TIMES))) for _ in range(n)]
        comps = {}
        for key in rng.sample(["year", "month", "day"], rng.choice([1, 2])):
            pool = {"year": [2000, 1999, 2031], "month": [1, 3, 12], "day": [1, 15, 28]}[key]
            comps[key] = rng.choice(pool) if rng.random() < 0.5 else [rng.choice(pool) for _ in range(n)]
        return {"op": "replace", "unit": unit, "vals": vals, "comps": comps, "via": rng.choice(["module", "proxy"])}
    if c < 0.75:
        unit = rng.choice(["D", "s", "us"])
        # times of day: midnight, an odd one, and "round" ones (whole hours, quarter days, 00:07:12 = 1/200 day) — a vector
        # whose every time is round is still a vector of datetimes, not of dates
        tpool = TIMES[:2] + ROUND_TIMES if rng.random() < 0.6 else ROUND_TIMES
        subsec = unit == "us" and rng.random() < 0.2
        if subsec:
            # every element within the first second after midnight: hour, minute and second are all 0, the time is not
            tpool = ["T00:00:00.500000", "T00:00:00.000001", "T00:00:00.500000"]
        vals = [None if rng.random() < 0.25 else (rng.choice(DATES) + ("" if unit == "D" else rng.choice(tpool))) for _ in range(n)]
        fmt = rng.choice(FORMATS_D if unit == "D" else FORMATS_T)
        if subsec:
            fmt = "%Y-%m-%d %H:%M:%S.%f"
        composite = unit != "D" and not subsec and rng.random() < 0.2
        if composite:
            # composite directives that print the time of day without naming %H / %M / %S (the inverse is not asked for:
            # "%X" alone carries no date)
            fmt = rng.choice(["%X", "%c", "%Y-%m-%d %X", "%x %X", "%d.%m.%Y %T", "%R on %Y%m%d"])
        # years below 1000: glibc's %Y does not pad them, so strptime cannot read them back; to_string must still give
        # exactly what datetime.strftime gives for them ("tostring_only": the inverse is not asked for)
        early = any(v is not None and v[:4] < "1000" for v in vals)
        if rng.random() < 0.3 and fmt.count("%Y") == 1:
            fmt = fmt.replace("%Y", rng.choice(["%Y", "%%Y%Y", "%Y%%"]))       # a literal percent sign next to the year
        return {"op": "strings", "unit": unit, "vals": vals, "fmt": fmt, "via": rng.choice(["module", "proxy"]), "tostring_only": early or composite}
    svals = [rng.choice(STRINGS) for _ in range(n)]
    if c < 0.82:
        f, args = rng.choice(STRFUNCS)
        return {"op": "strproxy", "vals": svals, "f": f, "args": args}
    f = rng.choice(REFUNCS)
    case = {"op": "regex", "vals": svals, "f": f, "pattern": rng.choice(PATTERNS), "flags": rng.choice([0, 0, re.I]), "via": rng.choice(["module", "proxy", "scalar"])}
    if f in ("sub", "subn"):
        case["repl"] = rng.choice(["!", r"<\g<0>>", "", r"\\", r"\t|"])
        if rng.random() < 0.4:
            case["pattern"] = rng.choice(["great", "a", "an", " "])
        case["count"] = rng.choice([0, 0, 1, 2, -1])
    if f == "split":
        case["maxsplit"] = rng.choice([0, 0, 1, -1, 2])
    return case


def gen_cases(ctx):
    rng = ctx.rng
    cases = [
        {"op": "strings", "unit": "D", "vals": [], "fmt": "%Y-%m-%d", "via": "module"},
        {"op": "strings", "unit": "D", "vals": [None, None], "fmt": "%Y-%m-%d", "via": "module"},
        {"op": "extract", "unit": "D", "vals": [None], "f": "year", "via": "module"},
        {"op": "replace", "unit": "D", "vals": [None, "2000-02-29", "2001-03-03"], "comps": {"year": [1996, 2004, 2008]}, "via": "module"},
        {"op": "regex", "vals": ["banana", "", "b"], "f": "sub", "pattern": "a", "repl": r"\g<0>\g<0>", "count": 0, "flags": 0, "via": "module"},
    ]
    n = 1500 if ctx.tier == "quick" else 12000
    for _ in range(n):
        cases.append(gen_case(rng, ctx.tier))
    return cases


def with_history(v):
    """see harness/warm.py: the vector has been used (proxies created, methods called) and then changed in place"""
    from harness import warm
    if warm.ENABLED:
        warm.vector_through_history(v)
    return v


def mkvec(unit, vals):
    import dataiter as di
    return with_history(di.Vector.fast(np.array([np.datetime64("NaT") if v is None else np.datetime64(v) for v in vals], dtype=f"datetime64[{unit}]")))


def canon(x):
    if x is None:
        return None
    if isinstance(x, (np.datetime64,)):
        return None if np.isnat(x) else str(x.astype("datetime64[us]"))
    if isinstance(x, (float, np.floating)):
        return None if x != x else (int(x) if float(x).is_integer() else float(x))
    if isinstance(x, (np.integer,)):
        return int(x)
    if isinstance(x, re.Match):
        return ["match", x.span(), x.groups(), x.groupdict()]
    if isinstance(x, (list, tuple)):
        return [canon(y) for y in x]
    if isinstance(x, np.str_):
        return str(x)
    return x


def canon_vec(v):
    import dataiter as di
    if hasattr(v, "is_na"):
        na = [bool(b) for b in v.is_na()]
        return [None if m else canon(x) for x, m in zip(v, na)]
    return [canon(x) for x in v]


def pyobj(unit, s):
    d = np.datetime64(s).astype(f"datetime64[{unit}]").astype(object)
    return d


def impl(case):
    import dataiter as di
    from dataiter import dt, regex
    op, via = case["op"], case.get("via", "module")
    res = {}
    try:
        if op == "extract":
            v = mkvec(case["unit"], case["vals"])
            if via == "scalar":
                res["out"] = [canon(getattr(dt, case["f"])(x)) for x in v]
            elif via == "proxy":
                res["out"] = canon_vec(getattr(v.dt, case["f"])())
            else:
                out = getattr(dt, case["f"])(v)
                res["out"] = canon_vec(out)
                res["len"] = len(out)
                res["integer"] = bool(out.is_integer())
        elif op == "replace":
            v = mkvec(case["unit"], case["vals"])
            kw = {k: (np.array(c) if isinstance(c, list) else c) for k, c in case["comps"].items()}
            out = v.dt.replace(**kw) if via == "proxy" else dt.replace(v, **kw)
            res["out"] = canon_vec(di.Vector.fast(out))
        elif op == "strings":
            v = mkvec(case["unit"], case["vals"])
            s = v.dt.to_string(case["fmt"]) if via == "proxy" else dt.to_string(v, case["fmt"])
            res["strings"] = canon_vec(s)
            res["str_dtype"] = str(s.dtype)
            if not case.get("tostring_only"):
                back = s.dt.from_string(case["fmt"]) if via == "proxy" else dt.from_string(s, case["fmt"])
                res["back"] = canon_vec(di.Vector.fast(back))
        elif op == "strproxy":
            v = with_history(di.Vector(case["vals"], str) if case["vals"] else di.Vector([], str))
            try:
                ref = getattr(np.strings, case["f"])(np.array(case["vals"], dtype=v.dtype), *case["args"])
                res["ref"] = [canon(x) for x in np.asarray(ref).tolist()]
            except Exception as e:
                res["ref"] = f"{type(e).__name__}: {e}"
            try:
                out = getattr(v.str, case["f"])(*case["args"])
                res["out"] = [canon(x) for x in np.asarray(out).tolist()]
                res["is_vector"] = isinstance(out, di.Vector)
            except Exception as e:
                res["out"] = f"{type(e).__name__}: {e}"
                res["is_vector"] = True
        else:
            v = with_history(di.Vector(case["vals"], str) if case["vals"] else di.Vector([], str))
            f = case["f"]
            kw = {}
            if case.get("flags"):
                kw["flags"] = case["flags"]
            if "count" in case and case["count"]:
                kw["count"] = case["count"]
            if "maxsplit" in case and case["maxsplit"]:
                kw["maxsplit"] = case["maxsplit"]
            args = [case["pattern"]] + ([case["repl"]] if f in ("sub", "subn") else [])
            if via == "scalar":
                res["out"] = [canon(getattr(regex, f)(*args, str(x), **kw)) if str(x) != "" else None for x in v]
                res["scalar_empty"] = canon(getattr(regex, f)(*args, "", **kw))
            elif via == "proxy":
                res["out"] = canon_vec(getattr(v.re, f)(*args, **kw))
            else:
                res["out"] = canon_vec(getattr(regex, f)(*args, v, **kw))
    except Exception as e:
        res["err"] = f"{type(e).__name__}: {e}"
    return res


def extract_expected(case):
    f, unit = case["f"], case["unit"]
    exp = []
    for s in case["vals"]:
        if s is None:
            exp.append(None)
            continue
        y = pyobj(unit, s)
        e = {"year": lambda: y.year, "month": lambda: y.month, "day": lambda: y.day, "hour": lambda: y.hour, "minute": lambda: y.minute,
             "second": lambda: y.second, "microsecond": lambda: y.microsecond, "weekday": lambda: y.weekday(),
             "isoweekday": lambda: y.isoweekday(), "isoweek": lambda: y.isocalendar()[1], "quarter": lambda: (y.month + 2) // 3}[f]()
        exp.append(e)
    return exp


def replace_expected(case):
    exp = []
    for i, s in enumerate(case["vals"]):
        if s is None:
            exp.append(None)
            continue
        y = pyobj(case["unit"], s)
        kw = {k: (c[i] if isinstance(c, list) else c) for k, c in case["comps"].items()}
        try:
            exp.append(str(np.datetime64(y.replace(**kw)).astype("datetime64[us]")))
        except ValueError:
            return None
    return exp


def model_requests(case, obs):
    if case["op"] == "extract":
        return [("dtre_pull", {"xs": extract_expected(case)})]
    if case["op"] == "replace":
        return [("dtre_replace", {"xs": [None if v is None else i for i, v in enumerate(case["vals"])],
                                  "comps": [[k, c] for k, c in case["comps"].items()]})]
    if case["op"] == "regex":
        return [("dtre_regex", {"xs": [None if v == "" else len(v) for v in case["vals"]]})]
    return []


def judge(ctx, case, obs, mouts):
    op = case["op"]
    ctx.count(op + ":" + str(case.get("f", "")))
    vals = case["vals"]
    nontrivial = len(vals) >= 2 and any(v in (None, "") for v in vals) and any(v not in (None, "") for v in vals)
    if "err" in obs and op == "replace" and replace_expected(case) is None:
        ctx.count("replace:datetime-rejects")     # datetime.replace itself rejects some element
        ctx.case_done(case, False)
        return
    if "err" in obs:
        cls = "empty" if not vals else "all-missing" if all(v in (None, "") for v in vals) else "some"
        ctx.violation("oracle", f"{op}:{case.get('f', case.get('fmt'))}:raises:{cls}", f"{op} raised: {obs['err']}", case, obs)
        ctx.case_done(case, nontrivial)
        return
    if op == "extract":
        f = case["f"]
        exp = extract_expected(case)
        if obs["out"] != exp:
            ctx.violation("oracle", f"extract:{f}:wrong", f"dt.{f} gave {obs['out']}, datetime gives {exp}", case, obs, exp)
        want_int = all(v is not None for v in vals) and (len(vals) > 0 or f == "quarter")   # quarter: ceil(month / 3) cast unless a NaN is present
        if "integer" in obs and obs["integer"] != want_int and len(vals) > 0:
            ctx.violation("oracle", f"extract:{f}:typing", f"result is {'integer' if obs['integer'] else 'float'} for {vals}", case, obs)
        if mouts:
            m = mouts[0]
            if isinstance(m, dict) and "err" in m:
                ctx.violation("correspondence", "pull:model-error", f"model rejected the request: {m['err']}", case, obs, m)
            elif m["out"] != obs["out"] or ("integer" in obs and m["quarter_integer" if f == "quarter" else "integer"] != obs["integer"]):
                ctx.violation("correspondence", "pull:differs", "model lifting of the per-element values differs from the implementation", case, obs, m)
    elif op == "replace":
        exp = replace_expected(case)
        if exp is None:
            ctx.violation("oracle", "replace:accepts-invalid", f"dt.replace returned {obs['out']} although datetime.replace rejects an element", case, obs)
        elif obs["out"] != exp:
            ctx.violation("oracle", "replace:wrong", f"dt.replace gave {obs['out']}, datetime.replace gives {exp}", case, obs, exp)
        if mouts and exp is not None:
            m = mouts[0]
            if isinstance(m, dict) and "err" in m:
                ctx.violation("correspondence", "replace:model-error", f"model rejected the request: {m['err']}", case, obs, m)
            else:
                via = [None if e is None else str(np.datetime64(pyobj(case["unit"], vals[e["i"]]).replace(**dict(e["kw"]))).astype("datetime64[us]")) for e in m]
                if via != obs["out"]:
                    ctx.violation("correspondence", "replace:differs", "datetime.replace with the model's per-element components differs from the implementation", case, obs, via)
    elif op == "strings":
        exp = [None if s is None else pyobj(case["unit"], s).strftime(case["fmt"]) for s in vals]
        got = [None if x in (None, "") else x for x in obs["strings"]]
        if got != exp:
            ctx.violation("oracle", "to_string:wrong", f"dt.to_string gave {obs['strings']}, strftime gives {exp}", case, obs, exp)
        if "String" not in obs["str_dtype"]:
            ctx.violation("oracle", "to_string:dtype", f"dt.to_string returned dtype {obs['str_dtype']}", case, obs)
        # from_string inverts to_string (to the precision the format carries)
        expb = []
        for s in ([] if case.get("tostring_only") else vals):
            if s is None:
                expb.append(None)
            else:
                y = pyobj(case["unit"], s)
                r = datetime.datetime.strptime(y.strftime(case["fmt"]), case["fmt"])
                expb.append(str(np.datetime64(r).astype("datetime64[us]")))
        if not case.get("tostring_only") and obs["back"] != expb:
            ctx.violation("oracle", "from_string:not-inverse", f"from_string(to_string(x)) gave {obs['back']}, expected {expb}", case, obs, expb)
    elif op == "strproxy":
        if obs["out"] != obs["ref"] or not obs["is_vector"]:
            ctx.violation("oracle", f"strproxy:{case['f']}:differs", f".str.{case['f']} gave {obs['out']}, numpy.strings.{case['f']} gives {obs['ref']}", case, obs)
    else:
        f = case["f"]
        kw = {}
        if case.get("flags"):
            kw["flags"] = case["flags"]
        if case.get("count"):
            kw["count"] = case["count"]
        if case.get("maxsplit"):
            kw["maxsplit"] = case["maxsplit"]
        args = [case["pattern"]] + ([case["repl"]] if f in ("sub", "subn") else [])
        exp = [None if s == "" else canon(getattr(re, f)(*args, s, **kw)) for s in vals]
        got = obs["out"]
        if f == "sub":       # the package's missing string is "": an empty result is indistinguishable from missing
            exp = [None if e == "" else e for e in exp]
            got = [None if x == "" else x for x in got]
        if got != exp:
            ctx.violation("oracle", f"regex:{f}:wrong", f"regex.{f} gave {obs['out']}, re gives {exp}", case, obs, exp)
        if mouts and case["via"] != "scalar":
            m = mouts[0]
            if isinstance(m, dict) and "err" in m:
                ctx.violation("correspondence", "regex:model-error", f"model rejected the request: {m['err']}", case, obs, m)
            elif f not in ("fullmatch", "match", "search", "sub") and [x is None for x in m] != [x is None for x in got]:
                ctx.violation("correspondence", "regex:mask-differs", "missing positions differ from the model's", case, obs, m)
    ctx.case_done(case, nontrivial)


def extract(ctx):
    from harness import extract_ast
    extract_ast.gen_proxy_table()


run = common.default_run(sys.modules[__name__])
search = common.default_search(sys.modules[__name__])

# -*- coding: utf-8 -*-
"""C20 — text rendering is total, side-effect free and structurally faithful."""

import contextlib
import copy
import io
import json
import math
import os
import pickle
import sys

import numpy as np

from harness import common

LEVEL = {"partial": ["per-dtype number formatting (format_floats, '{:,d}', str(x), json.dumps) is not modelled: cell strings are inputs of the layout model; "
                     "that rendering never raises and never changes the object is observed on generated objects, not proved",
                     "display widths are wcwidth's; strings with characters without a width (control characters other than line breaks) are rendered for totality only"]}
ASSUMPTIONS = ["wcwidth.wcwidth gives the display width of a character; terminal size falls back to PRINT_MAX_WIDTH (COLUMNS unset, stdout not a tty)"]
RULE = ("DataFrame / GeoJSON: 0..5 columns x 0..8 rows over float (nan, ±inf, -0.0, 5e-324, 1e-10, 1e17, 1e300), int, bool, string (ASCII, Latin, "
        "CJK wide, emoji, combining, zero-width, multi-line incl. trailing line break, long), date, datetime, timedelta, object (None, dict, list, "
        "multi-line str, float); wide column names; max_rows / max_width / truncate_width in {default, 1, 2, 3, 5, 10, 20, 200}; PRINT_* settings "
        "varied; str / repr / to_string / print_; Vector: same dtypes, 0..30 elements, max_elements; ListOfDicts: 0..6 items, max_items; "
        "separate stream with control characters (totality only); non-trivial = >=2 rows and >=2 columns or a non-ASCII-width character")

NAMES = ["a", "b", "name", "値", "名前", "x1", "long_column_name", "é"]
STRS = ["", "a", "ab", "hello world", "ä", "中文", "日本語テキスト", "é", "\U0001F600", "a​b", "x\ny", "a\n", "\n", "word " * 12,
        "q\"r", "   ", "　", "a\r\nb", "tail ",
        # values whose first line ends in something else than "\n" (a lone \r, form feed, U+2028, NEL)
        "cr\rx", "ff\x0cx", "ls\u2028x", "nel\x85x",
        # sequences whose display width is NOT the sum of their code points' widths (emoji + variation selector, ZWJ family)
        "\u2764\ufe0f ok", "\U0001F468\u200d\U0001F469\u200d\U0001F467 fam"]
CTRL = ["tab\there", "\x1b[31mred", "bell\x07", "nul-ish\x01"]
FLOATS = ["nan", "inf", "-inf", 0.0, "-0.0", 1e-10, 1e17, 123456.789, 1 / 3, 1e300, 5e-324, 1.0, -2.5, 1234567.0, 0.000001, 9999999999999998.0]
INTS = [0, -1, 7, 1234567, 2 ** 62, -(2 ** 63)]
DATES = [None, "0001-01-01", "1969-12-31", "2024-02-29", "9999-12-31"]
DTS = [None, "1970-01-01T00:00:00", "2024-02-29T12:34:56.789012"]
TDS = [None, 0, -5, 86400, 10 ** 9]
OBJS = [None, {"a": 1}, [1, 2, 3], "multi\nline", 1.5, "plain", {"k": "中"}, "trail\n"]
GEOMS = [None, {"type": "Point", "coordinates": [1, 2]}, {"type": "LineString", "coordinates": [[0, 0], [1, 1]]}]
KINDS = ["float", "int", "bool", "str", "date", "datetime", "timedelta", "object", "bytes", "ustr"]
BYTES = ["", "Oslo", "\xc5lesund", "Troms\xf8", "\xff\xfe", "a b"]          # latin-1 images of the byte strings
USTRS = ["", "a", "hello", "ä", "中文", "x y"]
OPTS = [None, None, None, 1, 2, 3, 5, 10, 20, 200, "inf"]      # "inf": math.inf, the library's own spelling of "no limit"
OPTS0 = OPTS + [0]        # 0 is falsy: "use the default", like None


def fl(v):
    return {"nan": math.nan, "inf": math.inf, "-inf": -math.inf, "-0.0": -0.0}[v] if isinstance(v, str) else float(v)


def gen_vals(rng, kind, n, ctrl=False):
    pool = {"float": FLOATS, "int": INTS, "bool": [True, False], "str": STRS + (CTRL if ctrl else []), "date": DATES, "datetime": DTS,
            "timedelta": TDS, "object": OBJS, "bytes": BYTES, "ustr": USTRS}[kind]
    if kind == "float" and rng.random() < 0.5:
        pool = [x for x in pool if not (isinstance(x, float) and (abs(x) > 1e16 or 0 < abs(x) < 1e-6))]
    return [rng.choice(pool) for _ in range(n)]


def unmark(x):
    """"__nan__" / "__inf__" / "__-inf__" stand for the float values NaN / inf / -inf (a ListOfDicts may hold any value; as a
    missing-value marker NaN is common in data that came through pandas)"""
    if isinstance(x, str) and x in ("__nan__", "__inf__", "__-inf__"):
        return {"__nan__": math.nan, "__inf__": math.inf, "__-inf__": -math.inf}[x]
    if isinstance(x, list):
        return [unmark(v) for v in x]
    if isinstance(x, dict):
        return {k: unmark(v) for k, v in x.items()}
    return x


def gen_settings(rng):
    s = {}
    if rng.random() < 0.3:
        s["PRINT_FLOAT_PRECISION"] = rng.choice([0, 1, 2, 6, 12])
    if rng.random() < 0.3:
        s["PRINT_MAX_ROWS"] = rng.choice([1, 2, 3, 100])
    if rng.random() < 0.3:
        s["PRINT_MAX_WIDTH"] = rng.choice([5, 10, 20, 40, 80, 200])
    if rng.random() < 0.3:
        s["PRINT_TRUNCATE_WIDTH"] = rng.choice([1, 2, 4, 8, 36])
    if rng.random() < 0.3:
        s["PRINT_THOUSAND_SEPARATOR"] = rng.choice(["", ",", " ", "'"])
    if rng.random() < 0.3:
        s["PRINT_MAX_ELEMENTS"] = rng.choice([1, 2, 5, 100])
    if rng.random() < 0.3:
        s["PRINT_MAX_ITEMS"] = rng.choice([1, 2, 10])
    return s


def gen_case(rng, tier, ctrl=False):
    c = rng.random()
    settings = gen_settings(rng)
    if c < 0.6:
        n = rng.choice([0, 1, 2, 3, 5, 8])
        ncol = rng.choice([0, 1, 2, 3, 4, 5])
        names = rng.sample(NAMES, ncol)
        cols = []
        for nm in names:
            kind = rng.choice(KINDS)
            cols.append({"name": nm, "kind": kind, "vals": gen_vals(rng, kind, n, ctrl)})
        case = {"op": "frame", "n": n, "cols": cols, "settings": settings, "how": rng.choice(["to_string", "to_string", "str", "repr", "print_"]),
                "max_rows": rng.choice(OPTS0), "max_width": rng.choice(OPTS0 + [40, 80]), "truncate_width": rng.choice([o for o in OPTS0 if o != "inf"]), "ctrl": ctrl}      # (truncate_width=inf asks for cells as they are, line breaks included)
        if rng.random() < 0.3 and ncol > 0:
            case["geo"] = [rng.choice(GEOMS) for _ in range(n)]
            case["geo_pos"] = rng.randint(0, ncol)
        if case["how"] in ("str", "repr"):
            case["max_rows"] = case["max_width"] = case["truncate_width"] = None
        return case
    if c < 0.85:
        n = rng.choice([0, 1, 2, 3, 7, 30])
        kind = rng.choice(KINDS)
        return {"op": "vector", "kind": kind, "vals": gen_vals(rng, kind, n, ctrl), "settings": settings, "how": rng.choice(["to_string", "str", "repr"]),
                "max_elements": rng.choice([None, None, 1, 2, 5, 100, "inf"]), "ctrl": ctrl}
    n = rng.choice([0, 1, 2, 3, 6])
    items = []
    for _ in range(n):
        d = {}
        for k in rng.sample(["a", "b", "値", "d"], rng.randint(0, 3)):
            d[k] = rng.choice([1, 2.5, None, "x", "中文", "x\ny", [1, {"z": None}], True, "__nan__", "__inf__", {"deep": ["__-inf__"]}] + (CTRL if ctrl else []))
        items.append(d)
    return {"op": "lod", "items": items, "settings": settings, "how": rng.choice(["to_string", "str", "repr", "print_"]),
            "max_items": rng.choice([None, None, 1, 2, 10, "inf"]), "ctrl": ctrl}


def gen_cases(ctx):
    rng = ctx.rng
    cases = [
        {"op": "frame", "n": 3, "cols": [{"name": "x", "kind": "str", "vals": ["a\n", "b", "c\nd"]}, {"name": "y", "kind": "int", "vals": [1, 2, 3]}],
         "settings": {}, "how": "to_string", "max_rows": None, "max_width": None, "truncate_width": None, "ctrl": False},
        {"op": "frame", "n": 2, "cols": [{"name": "値", "kind": "str", "vals": ["中文", "é"]}], "settings": {}, "how": "str",
         "max_rows": None, "max_width": None, "truncate_width": None, "ctrl": False},
        {"op": "frame", "n": 5, "cols": [{"name": "a", "kind": "int", "vals": [1, 2, 3, 4, 5]}], "geo": [None, GEOMS[1], None, GEOMS[2], None], "geo_pos": 1,
         "settings": {}, "how": "to_string", "max_rows": 2, "max_width": None, "truncate_width": None, "ctrl": False},
        {"op": "frame", "n": 0, "cols": [], "settings": {}, "how": "str", "max_rows": None, "max_width": None, "truncate_width": None, "ctrl": False},
    ]
    # every entry point under every run-time setting that BITES (more rows / a wider cell / a wider table than the setting
    # allows), with no explicit argument: the setting in force at the time of the call decides
    for how in ("to_string", "str", "repr", "print_"):
        for settings in ({"PRINT_MAX_ROWS": 2}, {"PRINT_MAX_ROWS": 3, "PRINT_TRUNCATE_WIDTH": 4}, {"PRINT_TRUNCATE_WIDTH": 3}, {"PRINT_MAX_WIDTH": 12},
                         {"PRINT_MAX_ROWS": 1, "PRINT_MAX_WIDTH": 20, "PRINT_TRUNCATE_WIDTH": 5}):
            for geo in (False, True):
                case = {"op": "frame", "n": 6, "cols": [{"name": "name", "kind": "str", "vals": ["alpha-beta-gamma", "b", "中文中文中文", "d", "", "f f f f f f"]},
                                                       {"name": "v", "kind": "int", "vals": [1, 22, 333, 4444, 55555, 666666]},
                                                       {"name": "w", "kind": "float", "vals": [0.5, 1.25, "nan", 2.0, 3.0, 4.0]}],
                        "settings": dict(settings), "how": how, "max_rows": None, "max_width": None, "truncate_width": None, "ctrl": False}
                if geo:
                    case["geo"] = [GEOMS[1], None, GEOMS[2], GEOMS[1], None, GEOMS[1]]
                    case["geo_pos"] = 1
                cases.append(case)
    # columns in which EVERY element is missing, of every kind that has a missing value, alone and next to an ordinary column
    # (what a left join without matches, or a freshly added placeholder column, looks like), through every entry point
    allna = {"float": ["nan"] * 3, "str": [""] * 3, "date": [None] * 3, "datetime": [None] * 3, "timedelta": [None] * 3, "object": [None] * 3}
    for kind, vals in allna.items():
        for how in ("to_string", "str", "repr", "print_"):
            for extra in (False, True):
                cols = [{"name": "m", "kind": kind, "vals": list(vals)}] + ([{"name": "k", "kind": "int", "vals": [1, 2, 3]}] if extra else [])
                cases.append({"op": "frame", "n": 3, "cols": cols, "settings": {}, "how": how, "max_rows": None, "max_width": None, "truncate_width": None, "ctrl": False})
        for how in ("to_string", "str", "repr"):
            cases.append({"op": "vector", "kind": kind, "vals": list(vals), "settings": {}, "how": how, "max_elements": None, "ctrl": False})
    n = 500 if ctx.tier == "quick" else 10000
    for i in range(n):
        cases.append(gen_case(rng, ctx.tier, ctrl=(i % 10 == 9)))
    return cases


def make_column(kind, vals):
    import dataiter as di
    if kind == "float":
        return np.array([fl(v) for v in vals], dtype=float)
    if kind == "int":
        return np.array(vals, dtype=np.int64)
    if kind == "bool":
        return np.array(vals, dtype=bool)
    if kind == "str":
        return np.array(vals, dtype=di.dtypes.string)
    if kind == "date":
        return np.array([np.datetime64("NaT") if v is None else np.datetime64(v) for v in vals], dtype="M8[D]")
    if kind == "datetime":
        return np.array([np.datetime64("NaT") if v is None else np.datetime64(v) for v in vals], dtype="M8[us]")
    if kind == "timedelta":
        return np.array([np.timedelta64("NaT") if v is None else np.timedelta64(v, "s") for v in vals], dtype="m8[s]")
    if kind == "bytes":
        return np.array([v.encode("latin-1") for v in vals], dtype="S9")
    if kind == "ustr":
        return np.array(vals, dtype="<U6")
    a = np.empty(len(vals), dtype=object)
    for i, v in enumerate(vals):
        a[i] = copy.deepcopy(v)
    return a


def snap(obj):
    """byte-level snapshot of a frame / vector / list of dicts."""
    import dataiter as di
    if isinstance(obj, di.DataFrame):
        return [(k, str(v.dtype), pickle.dumps(np.asarray(v).tolist()) if v.dtype == object or "String" in str(v.dtype) else np.asarray(v).tobytes())
                for k, v in obj.items()] + [("group", repr(getattr(obj, "_group_colnames", None)))]
    if isinstance(obj, np.ndarray):
        return (str(obj.dtype), pickle.dumps(np.asarray(obj).tolist()) if obj.dtype == object or "String" in str(obj.dtype) else np.asarray(obj).tobytes())
    return pickle.dumps(list(map(dict, obj)))


def widths_of(strings):
    import wcwidth
    out = {}
    for s in strings:
        for ch in s:
            w = wcwidth.wcwidth(ch)
            if w != 1 or ord(ch) > 126:
                out[ord(ch)] = None if w < 0 else w
    return [[k, v] for k, v in sorted(out.items())]


def impl(case):
    res = impl_(dict(case, **{k: (math.inf if case.get(k) == "inf" else case.get(k)) for k in ("max_rows", "max_width", "truncate_width", "max_elements", "max_items") if k in case}))
    # (what goes on to the layout model is a number: "no limit" is a limit nothing reaches)
    if isinstance(res.get("eff"), dict):
        res["eff"] = {k: (10 ** 9 if v == math.inf else v) for k, v in res["eff"].items()}
    return res


def impl_(case):
    import dataiter as di
    from dataiter import util
    os.environ.pop("COLUMNS", None)
    os.environ.pop("LINES", None)
    saved = {k: getattr(di, k) for k in case["settings"]}
    res = {}
    try:
        for k, v in case["settings"].items():
            setattr(di, k, v)
        res["print_width"] = util.get_print_width()
        op, how = case["op"], case["how"]
        if op == "frame":
            data = {c["name"]: make_column(c["kind"], c["vals"]) for c in case["cols"]}
            if "geo" in case:
                items = list(data.items())
                g = np.empty(case["n"], dtype=object)
                for i, v in enumerate(case["geo"]):
                    g[i] = copy.deepcopy(v)
                items.insert(case["geo_pos"], ("geometry", g))
                obj = di.GeoJSON(**dict(items))
            else:
                obj = di.DataFrame(**data)
            from harness import warm
            if warm.ENABLED:
                # an object with a history (harness/warm.py) that is, in addition, grouped: `group_by` marks the
                # receiver, and a grouped frame / GeoJSON must render like any other (fixed 94faf51)
                warm.frame_through_history(obj, skip=("geometry",))
                names = [k for k in obj.colnames if k != "geometry"]
                if names:
                    obj.group_by(names[0])
            before = snap(obj)
            kw = {k: case[k] for k in ("max_rows", "max_width", "truncate_width") if case[k] is not None}
            try:
                if how == "to_string":
                    out = obj.to_string(**kw)
                elif how == "str":
                    out = str(obj)
                elif how == "repr":
                    out = repr(obj)
                else:
                    buf = io.StringIO()
                    with contextlib.redirect_stdout(buf):
                        ret = obj.print_(**kw)
                    out = buf.getvalue()
                    res["print_ret_none"] = ret is None
                    res["print_newline"] = out.endswith("\n")
                    out = out[:-1] if out.endswith("\n") else out
                res["out"] = out
            except Exception as e:
                res["err"] = f"{type(e).__name__}: {e}"
            res["mutated"] = snap(obj) != before
            res["nrow"], res["colnames"] = obj.nrow, list(obj.colnames)
            res["labels"] = [str(obj[k].dtype_label) if not ("geo" in case and k == "geometry") else "object" for k in obj.colnames]
            mr = case["max_rows"] or di.PRINT_MAX_ROWS
            tw = case["truncate_width"] or di.PRINT_TRUNCATE_WIDTH
            res["eff"] = {"max_rows": mr, "max_width": case["max_width"] or res["print_width"], "truncate_width": tw}
            # the implementation's own per-cell strings: the inputs of the layout model
            try:
                n = min(obj.nrow, mr)
                cells = []
                for k in obj.colnames:
                    col = obj[k]
                    if "geo" in case and k == "geometry":
                        col = di.Vector.fast([f"<{x['type']}>" if x else str(x) for x in col], object)
                    cells.append([str(x) for x in col[:n].to_strings(quote=False, pad=True, truncate_width=tw)])
                res["cells"] = cells
                # raw strings for the truncation model (string / object columns)
                res["raw"] = []
                for k in obj.colnames:
                    col = obj[k]
                    if "geo" in case and k == "geometry":
                        col = di.Vector.fast([f"<{x['type']}>" if x else str(x) for x in col], object)
                    res["raw"].append([str(x) for x in col[:n]] if (col.is_string() or col.is_object()) else None)
            except Exception as e:
                res["cells_err"] = f"{type(e).__name__}: {e}"
        elif op == "vector":
            v = di.Vector.fast(make_column(case["kind"], case["vals"]))
            before = snap(v)
            kw = {} if case["max_elements"] is None else {"max_elements": case["max_elements"]}
            try:
                res["out"] = v.to_string(**kw) if how == "to_string" else str(v) if how == "str" else repr(v)
            except Exception as e:
                res["err"] = f"{type(e).__name__}: {e}"
            res["mutated"] = snap(v) != before
            me = case["max_elements"] if (case["max_elements"] is not None and how == "to_string") else di.PRINT_MAX_ELEMENTS
            res["eff"] = {"max_elements": me}
            res["label"] = str(v.dtype_label)
            res["length"] = int(v.length)
            try:
                res["elems"] = [str(x) for x in v[:min(len(v), me)].to_strings(pad=True)]
            except Exception as e:
                res["cells_err"] = f"{type(e).__name__}: {e}"
        else:
            obj = di.ListOfDicts(unmark(copy.deepcopy(case["items"])))
            before = snap(obj)
            kw = {} if case["max_items"] is None else {"max_items": case["max_items"]}
            try:
                if how == "to_string":
                    out = obj.to_string(**kw)
                elif how == "str":
                    out = str(obj)
                elif how == "repr":
                    out = repr(obj)
                else:
                    buf = io.StringIO()
                    with contextlib.redirect_stdout(buf):
                        obj.print_(**kw)
                    out = buf.getvalue()
                    out = out[:-1] if out.endswith("\n") else out
                res["out"] = out
            except Exception as e:
                res["err"] = f"{type(e).__name__}: {e}"
            res["mutated"] = snap(obj) != before
            mi = case["max_items"] if (case["max_items"] is not None and how in ("to_string", "print_")) else di.PRINT_MAX_ITEMS
            res["eff"] = {"max_items": mi}
            try:
                res["head_json"] = obj.head(mi).to_json()
            except Exception as e:
                res["cells_err"] = f"{type(e).__name__}: {e}"
    finally:
        for k, v in saved.items():
            setattr(di, k, v)
    return res


def model_requests(case, obs):
    if "out" not in obs or "cells_err" in obs:
        return []
    if any(ch in json.dumps(case, ensure_ascii=False) for ch in ("\ufe0f", "\u200d")):
        # a sequence whose display width is not the sum of its code points' widths (variation selector, zero-width joiner):
        # the layout model measures per code point, so such cases are judged by the oracle alone (which measures with wcswidth)
        return []
    op = case["op"]
    if op == "frame":
        if case["how"] in ("str", "repr") or True:
            eff = obs["eff"]
        strings = obs["colnames"] + obs["labels"] + [s for c in obs["cells"] for s in c] + [s for r in obs["raw"] if r for s in r] + ["─…. "]
        w = widths_of(strings)
        reqs = [("render_df", {"widths": w, "nrow": obs["nrow"], "max_rows": eff["max_rows"], "max_width": max(eff["max_width"], 0),
                               "cols": [{"name": k, "label": l, "cells": c} for k, l, c in zip(obs["colnames"], obs["labels"], obs["cells"])]})]
        for raw in obs["raw"]:
            if raw is not None and raw:
                reqs.append(("render_tostrings", {"widths": w, "tw": eff["truncate_width"], "xs": raw}))
        return reqs
    if op == "vector":
        w = widths_of(obs["elems"] + [obs["label"]])
        return [("render_vec", {"widths": w, "pw": obs["print_width"], "elems": obs["elems"], "cut": obs["eff"]["max_elements"] < obs["length"], "label": obs["label"]})]
    return [("render_lod", {"json": obs["head_json"], "len": len(case["items"]), "max_items": obs["eff"]["max_items"]})]


def printable(s):
    import wcwidth
    return all(wcwidth.wcwidth(ch) >= 0 for ch in s)


def judge(ctx, case, obs, mouts):
    import wcwidth
    op = case["op"]
    ctx.count(op + ":" + case["how"])
    if "err" in obs:
        ctx.violation("oracle", f"{op}:{case['how']}:raises", f"rendering raised: {obs['err']}", case, obs)
        ctx.case_done(case, False)
        return
    if obs.get("mutated"):
        ctx.violation("oracle", f"{op}:mutates", "rendering changed the object", case, obs)
    if "cells_err" in obs:
        ctx.violation("oracle", f"{op}:cells:raises", f"to_strings / head raised: {obs['cells_err']}", case, obs)
    out = obs["out"]
    nontrivial = False
    if op == "frame":
        names, labels, nrow, eff = obs["colnames"], obs["labels"], obs["nrow"], obs["eff"]
        n = min(nrow, eff["max_rows"])
        nontrivial = (nrow >= 2 and len(names) >= 2) or any(ord(ch) > 126 for ch in out)
        if case["how"] == "print_" and not (obs.get("print_ret_none") and obs.get("print_newline")):
            ctx.violation("oracle", "frame:print_", "print_ did not print the rendering followed by a newline and return None", case, obs)
        if not names:
            if out != "":
                ctx.violation("oracle", "frame:no-columns", f"a frame without columns rendered as {out!r}", case, obs)
        else:
            lines = out.split("\n")
            if out.splitlines() != lines and not (out.endswith("\n") and out.splitlines() == lines[:-1]):
                # the rendering is lines separated by "\n": a cell shows the FIRST line of its value, whatever ends that line
                # (\r\n, \r, form feed, U+2028 …) — a line separator left inside a cell breaks the block for every consumer
                # that splits lines (and moves the cursor on a terminal)
                ctx.violation("oracle", "frame:line-separator-in-cell", f"the rendering contains a line separator other than \\n: {[l for l in lines if len(l.splitlines()) > 1][:2]!r}", case, obs)
            cut = eff["max_rows"] < nrow
            foot = f"... {nrow} rows total"
            ok_print = printable(out.replace("\n", ""))
            if not ok_print:
                ctx.count("frame:unprintable")
            if cut != (lines[-1] == foot):
                ctx.violation("oracle", "frame:footer", f"rows cut={cut} but last line is {lines[-1]!r}", case, obs)
            body = lines[:-1] if lines[-1] == foot else lines
            # blocks: "." block "" block ... "."
            blocks, cur, good = [], None, body[:1] == ["."] and body[-1:] == ["."] and len(body) >= 2
            if good:
                inner = body[1:-1]
                # separators are empty lines; a block has exactly n + 3 lines
                i = 0
                while i < len(inner):
                    blk = inner[i:i + n + 3]
                    blocks.append(blk)
                    i += n + 3
                    if i < len(inner):
                        if inner[i] != "":
                            good = False
                            break
                        i += 1
                if any(len(b) != n + 3 for b in blocks) or not blocks:
                    good = False
            if not good and ok_print:
                ctx.violation("oracle", "frame:structure", f"rendering is not '.', blocks of {n + 3} lines separated by empty lines, '.'", case, obs)
            elif good and ok_print:
                ctx.count("frame:blocks:%d" % min(len(blocks), 4))
                ctx.count("frame:cut" if cut else "frame:uncut")
                seen = []
                for b in blocks:
                    ws = {wcwidth.wcswidth(l) for l in b}
                    if len(ws) != 1:
                        ctx.violation("oracle", "frame:block-width", f"lines of a block have display widths {sorted(ws)}", case, obs)
                    head, lab = b[0].split(), b[1].split()
                    seen += list(zip(head, lab))
                    if len(head) != len(lab) or any(set(ch for ch in tok) != {"─"} for tok in b[2].split()) or len(b[2].split()) != len(head):
                        ctx.violation("oracle", "frame:header", "name / dtype / rule lines do not line up", case, obs)
                    for j in range(n):
                        if not b[3 + j].lstrip().startswith(str(j)):
                            ctx.violation("oracle", "frame:row-number", f"data line {j} does not start with its row number", case, obs)
                            break
                if seen != list(zip(names, labels)):
                    ctx.violation("oracle", "frame:names", f"column names / dtype labels shown {seen} != {list(zip(names, labels))}", case, obs)
        if mouts and "cells" in obs:
            m = mouts[0]
            if isinstance(m, dict) and "err" in m:
                ctx.violation("correspondence", "frame:model-error", f"model rejected the request: {m['err']}", case, obs, m)
            else:
                mtxt = "" if m is None else "\n".join(m)
                if mtxt != out:
                    ctx.violation("correspondence", "frame:layout-differs", "model layout of the implementation's cell strings differs from to_string()", case, obs, m)
            k = 1
            for raw, cells in zip(obs["raw"], obs["cells"]):
                if raw is not None and raw:
                    mm = mouts[k]
                    k += 1
                    if isinstance(mm, dict) and "err" in mm:
                        ctx.violation("correspondence", "tostrings:model-error", f"model rejected the request: {mm['err']}", case, obs, mm)
                    elif mm != cells:
                        ctx.violation("correspondence", "tostrings:differs", f"model truncation/padding {mm} differs from to_strings {cells}", case, obs, mm)
    elif op == "vector":
        label, length, me = obs["label"], obs["length"], obs["eff"]["max_elements"]
        nontrivial = length >= 2 or any(ord(ch) > 126 for ch in out)
        if not out.startswith("[") or not out.endswith("] " + label):
            ctx.violation("oracle", "vector:brackets", f"rendering does not run from '[' to '] {label}'", case, obs)
        if me < length and "..." not in out:
            ctx.violation("oracle", "vector:cut", "elements are cut but no '...' is shown", case, obs)
        if "elems" in obs:
            pos = 0
            for e in obs["elems"]:
                j = out.find(e.strip(), pos)
                if j < 0:
                    ctx.violation("oracle", "vector:elements", f"element {e!r} is not shown in order", case, obs)
                    break
                pos = j + len(e.strip())
        if mouts and "elems" in obs:
            m = mouts[0]
            if isinstance(m, dict) and "err" in m:
                ctx.violation("correspondence", "vector:model-error", f"model rejected the request: {m['err']}", case, obs, m)
            else:
                rows = m
                if len(rows) == 1:
                    rows = [[x.strip() for x in rows[0]]]
                mtxt = "\n".join(" ".join(r) for r in rows)
                if mtxt != out:
                    ctx.violation("correspondence", "vector:rows-differ", "model line wrapping differs from to_string()", case, obs, m)
    else:
        nitems, mi = len(case["items"]), obs["eff"]["max_items"]
        nontrivial = nitems >= 2
        foot = f" ... {nitems} items total"
        if (mi < nitems) != out.endswith(foot):
            ctx.violation("oracle", "lod:footer", f"items cut={mi < nitems} but the rendering ends {out[-30:]!r}", case, obs)
        part = out[:-len(foot)] if out.endswith(foot) else out
        try:
            shown = json.loads(part)
            want = json.loads(json.dumps(unmark(case["items"][:mi])))
            if json.dumps(shown, sort_keys=True) != json.dumps(want, sort_keys=True):      # (NaN != NaN: compare the texts)
                ctx.violation("oracle", "lod:items", "the items shown are not the first max_items items", case, obs)
        except Exception as e:
            ctx.violation("oracle", "lod:json", f"the rendering is not JSON (+ footer): {e}", case, obs)
        if mouts and "head_json" in obs:
            m = mouts[0]
            if isinstance(m, dict) and "err" in m:
                ctx.violation("correspondence", "lod:model-error", f"model rejected the request: {m['err']}", case, obs, m)
            elif m != out:
                ctx.violation("correspondence", "lod:differs", "model rendering differs from to_string()", case, obs, m)
    ctx.case_done(case, nontrivial)


run = common.default_run(sys.modules[__name__])
search = common.default_search(sys.modules[__name__])

# -*- coding: utf-8 -*-
"""C17 — ListOfDicts shared-dict discipline: isolation and obsolescence (histories)."""

import copy
import io
import sys
from contextlib import redirect_stdout

from harness import common, lodgen

LEVEL = {"partial": ["the private flag _obsolete is read by the harness (the public signal, the printed warning, is compared too)",
                     "which positions a method keeps is taken from the implementation (C15 decides that); the model predicts warnings, obsolete flags, predecessor structure and which dict objects are written"]}
ASSUMPTIONS = ["copy.deepcopy copies nested values; attribute access through __getattribute__ happens exactly where the method bodies say"]
RULE = ("random derivation trees: 3..12 calls (thorough ..30) on up to 7 live lists starting from one list of 1..5 dicts with a nested dict "
        "value; call kinds: 12 non-modifying methods, 8 editing methods, deepcopy/copy.deepcopy, plain use (pluck), direct item writes "
        "(top-level and nested) through any live list; after every call: captured warning, _obsolete of every list, item identities, "
        "deep snapshot of every dict object; non-trivial = history with an edit on a list of depth >=2 and a later use of an ancestor")

DERIVE = ["filter", "sort", "unique", "head", "tail", "slice", "copy", "reverse", "sample", "semi_join", "anti_join", "append", "extend", "add", "drop_na"]
EDIT = ["modify", "modify_if", "unselect", "fill_missing_keys", "left_join", "inner_join"]
FRESH = ["rename", "select"]


RIGHT_OBSOLETE = [False]      # set by a join step that built its own right-hand list (renamed key pair)


PROBES = ["sort", "sort_desc", "unique", "filter_kv", "filter_out_kv", "drop_na", "semi_join", "anti_join", "pluck", "group_aggregate", "group_aggregate_a", "group_aggregate_a", "to_string"]


def probe(lod, st, other):
    m, key = st["m"], st["key"]
    if m == "sort":
        return lod.sort(**{key: 1})
    if m == "sort_desc":
        return lod.sort(a=1, **{key: -1})
    if m == "unique":
        return lod.unique(key)
    if m == "filter_kv":
        return lod.filter(**{key: 1})
    if m == "filter_out_kv":
        return lod.filter_out(**{key: 1})
    if m == "drop_na":
        return lod.drop_na(key)
    if m == "semi_join":
        return lod.semi_join(other, ("a", "a"), (key, "q"))
    if m == "anti_join":
        return lod.anti_join(other, (key, "q"))
    if m == "pluck":
        return lod.pluck(key)
    if m == "group_aggregate":
        return lod.group_by(key).aggregate(n=len)
    if m == "group_aggregate_a":
        # a key every item has: the aggregation runs to the end (and must leave the list and its ancestors as they were)
        return lod.group_by("a").aggregate(n=len, s=lambda g: sum(x.get("a") or 0 for x in g))
    if m == "to_string":
        return lod.to_string()
    raise ValueError(m)


def gen_history(rng, tier):
    n0 = rng.randint(1, 5)
    k = rng.randint(3, 12) if tier == "quick" else rng.randint(3, 30)
    steps = []
    nlists = 1
    alive = [0]
    for _ in range(k):
        r = rng.choice(alive)
        c = rng.random()
        if c < 0.07 and len(alive) >= 3:
            # the program drops its reference to an intermediate list (`c = a.filter(...).sort(...)` keeps no name for the
            # filtered list): the lists derived from it are still successors of its predecessors
            victim = rng.choice(alive[1:-1])
            alive.remove(victim)
            steps.append({"k": "forget", "m": "del", "r": victim})
            continue
        if c < 0.40:
            st = {"k": "derive", "m": rng.choice(DERIVE), "r": r, "arg": rng.randint(0, 3)}
        elif c < 0.62:
            st = {"k": "edit", "m": rng.choice(EDIT), "r": r, "arg": rng.randint(0, 3)}
            if rng.random() < 0.25:
                st["via_group"] = True       # the edit is made on what `lod.group_by("a")` returns — the list itself, grouped
        elif c < 0.70:
            st = {"k": "fresh", "m": rng.choice(FRESH), "r": r}
        elif c < 0.80:
            st = {"k": "deepcopy", "m": rng.choice(["deepcopy", "copy.deepcopy"]), "r": r}
        elif c < 0.86:
            st = {"k": "use", "m": "pluck", "r": r}
        elif c < 0.93:
            # a non-modifying method asked for a key that only some items (or none) have: it may raise
            # KeyError or succeed, but it must not write into any item (result discarded)
            st = {"k": "probe", "m": rng.choice(PROBES), "r": r, "key": rng.choice(["w", "z", "zz", "poked", "nokey"])}
        else:
            st = {"k": "poke", "m": rng.choice(["top", "nested"]), "r": r, "pos": rng.randint(0, 2)}
        steps.append(st)
        if st["k"] not in ("use", "poke", "probe"):
            alive.append(nlists)
            nlists += 1
    return {"op": "history", "n0": n0, "steps": steps}


def gen_cases(ctx):
    rng = ctx.rng
    cases = [
        {"op": "history", "n0": 3, "steps": [{"k": "derive", "m": "filter", "r": 0, "arg": 0}, {"k": "derive", "m": "sort", "r": 1, "arg": 0},
                                            {"k": "derive", "m": "slice", "r": 2, "arg": 0}, {"k": "edit", "m": "modify", "r": 3, "arg": 1},
                                            {"k": "use", "m": "pluck", "r": 0}, {"k": "use", "m": "pluck", "r": 0}, {"k": "use", "m": "pluck", "r": 1},
                                            {"k": "use", "m": "pluck", "r": 2}, {"k": "use", "m": "pluck", "r": 4}]},
        {"op": "history", "n0": 2, "steps": [{"k": "deepcopy", "m": "deepcopy", "r": 0}, {"k": "poke", "m": "nested", "r": 1, "pos": 0},
                                            {"k": "edit", "m": "modify", "r": 1, "arg": 0}, {"k": "use", "m": "pluck", "r": 0}]},
    ]
    n = 300 if ctx.tier == "quick" else 2500      # (a thorough history has up to 30 calls and is observed after each: ~0.3 s)
    for _ in range(n):
        cases.append(gen_history(rng, ctx.tier))
    return cases


def call(lod, st, other):
    """Perform the call on the real object; returns the new list (or None)."""
    import dataiter as di
    m, arg = st["m"], st.get("arg", 0)
    if m == "filter":
        return lod.filter(lambda x: (x.get("a") or 0) % 2 == arg % 2)
    if m == "sort":
        return lod.sort(a=1 if arg % 2 else -1)
    if m == "unique":
        return lod.unique("a")
    if m == "head":
        return lod.head(arg)
    if m == "tail":
        return lod.tail(arg)
    if m == "slice":
        return lod[arg % 2:]
    if m == "copy":
        return lod.copy()
    if m == "reverse":
        return lod.reverse()
    if m == "sample":
        return lod.sample(arg)
    if m == "drop_na":
        return lod.drop_na("a")
    if m == "semi_join":
        return lod.semi_join(other, "a")
    if m == "anti_join":
        return lod.anti_join(other, "a")
    if m == "append":
        return lod.append({"a": 7, "meta": {"n": 0}})
    if m == "extend":
        return lod.extend([{"a": 8, "meta": {"n": 0}}, {"a": 9, "meta": {"n": 0}}])
    if m == "add":
        return lod + di.ListOfDicts([{"a": 5, "meta": {"n": 0}}])
    if m == "modify":
        if arg == 3:
            # an edit whose new values compare EQUAL to the old ones (int -> float of the same number, a new key holding
            # None): the dicts are written all the same
            return lod.modify(a=lambda x: float(x["a"]) if isinstance(x.get("a"), int) else x.get("a"), znone=lambda x: None)
        return lod.modify(z=lambda x: arg)
    if m == "modify_if":
        return lod.modify_if(lambda x: (x.get("a") or 0) % 2 == arg % 2, z=lambda x: arg + 10)
    if m == "unselect":
        return lod.unselect("z", "w")
    if m == "fill_missing_keys":
        return lod.fill_missing_keys(w=arg)
    if m in ("left_join", "inner_join"):
        if arg % 2 == 1:
            # by a (left, right) pair of DIFFERENT names: the right list's key is called "k"
            other2 = di.ListOfDicts([{("k" if kk == "a" else kk): v for kk, v in d.items()} for d in other]).filter(lambda x: True)
            out = getattr(lod, m)(other2, ("a", "k"))
            RIGHT_OBSOLETE[0] = bool(other2._obsolete) or bool(getattr(other2._predecessor, "_obsolete", False))
            return out
        return getattr(lod, m)(other, "a")
    if m == "rename":
        return lod.rename(zz="z")
    if m == "select":
        return lod.select("a", "meta")
    if m == "deepcopy":
        return lod.deepcopy()
    if m == "copy.deepcopy":
        return copy.deepcopy(lod)
    raise ValueError(m)


def impl(case):
    import dataiter as di
    tg = lodgen.Tagger()
    base = di.ListOfDicts([{"a": i % 3, "meta": {"n": i}} for i in range(case["n0"])])
    import gc
    import weakref
    lists = [base]          # strong references the "program" holds; None once it has dropped one
    refs = [weakref.ref(base)]
    shadow = {}             # last observation of a list that can no longer be reached
    for it in base:
        tg.tag(it)

    def reach(i):
        return lists[i] if lists[i] is not None else refs[i]()

    def observe_lists():
        obsolete, items, pred = [], [], []
        for i in range(len(lists)):
            l = reach(i)
            if l is not None:
                p = l._predecessor
                shadow[i] = (bool(l._obsolete), [tg.tags[id(it)] for it in l],
                             None if p is None else next((j for j in range(len(refs)) if reach(j) is p), -1))
            obsolete.append(shadow[i][0]); items.append(shadow[i][1]); pred.append(shadow[i][2])
        return obsolete, items, pred
    other_proto = [{"a": 0, "q": "r0"}, {"a": 1, "q": "r1"}, {"a": 0, "q": "r0b"}]
    recs = []

    def snap():
        return {t: copy.deepcopy(dict(o)) for t, o in ((tg.tags[id(o)], o) for o in tg.keep)}
    for st in case["steps"]:
        r = st["r"]
        lod = lists[r]
        before = snap()
        obs_before = observe_lists()[0]
        other = di.ListOfDicts([dict(d) for d in other_proto]).filter(lambda x: True)      # has a predecessor of its own
        other_before = [dict(x) for x in other]
        buf = io.StringIO()
        rec = {"obs_before": obs_before}
        try:
            with redirect_stdout(buf):
                if st["k"] == "forget":
                    new = None
                    lod = None
                    lists[r] = None
                    gc.collect()
                elif st["k"] == "use":
                    lod.pluck("a")
                    new = None
                elif st["k"] == "probe":
                    new = None
                    try:
                        probe(lod, st, other)
                    except Exception as e:
                        rec["raised"] = f"{type(e).__name__}"
                elif st["k"] == "poke":
                    new = None
                    if st["pos"] < len(lod):
                        item = list.__getitem__(lod, st["pos"])
                        if st["m"] == "top":
                            item["poked"] = item.get("poked", 0) + 1
                        else:
                            item["meta"]["n"] = item["meta"].get("n", 0) + 100 if isinstance(item.get("meta"), dict) else None
                            if not isinstance(item.get("meta"), dict):
                                item["poked"] = item.get("poked", 0) + 1
                        rec["poked"] = True
                else:
                    new = call(lod.group_by("a") if st.get("via_group") else lod, st, other)
        except Exception as e:
            rec["err"] = f"{type(e).__name__}: {e}"
            recs.append(rec)
            break
        rec["warnings"] = buf.getvalue().count("Warning: A successor has modified the shared dicts")
        rec["other_changed"] = [dict(x) for x in other] != other_before
        # the right-hand argument of a join (and the list it was derived from) is only read: never obsolete afterwards
        rec["other_obsolete"] = bool(other._obsolete) or bool(getattr(other._predecessor, "_obsolete", False)) or RIGHT_OBSOLETE[0]
        RIGHT_OBSOLETE[0] = False
        if new is not None:
            known_before = set(tg.tags.values())
            lists.append(new)
            refs.append(weakref.ref(new))
            items = [tg.tag(it) for it in new]
            rec["new_items"] = items
            rec["fresh"] = [t for t in items if t not in known_before]
            src = [tg.tags[id(it)] for it in lod]
            rec["keep"] = [src.index(t) for t in items if t in src] if all((t in src) or (t not in known_before) for t in items) else None
            rec["new_obsolete"] = bool(new._obsolete)
        after = snap()
        rec["changed"] = sorted(t for t in before if before[t] != after.get(t))
        rec["obsolete"], rec["items"], rec["pred"] = observe_lists()
        recs.append(rec)
    return {"recs": recs}


def model_ops(case, obs):
    ops = []
    for st, rec in zip(case["steps"], obs["recs"]):
        if "err" in rec:
            break
        k = st["k"]
        if k == "forget":
            ops.append({"k": "poke", "r": st["r"], "pos": 10 ** 6})      # nothing happens to any list or dict
        elif k in ("use", "probe"):
            ops.append({"k": "use", "r": st["r"]})
        elif k == "poke":
            ops.append({"k": "poke", "r": st["r"], "pos": st["pos"] if rec.get("poked") else 10 ** 6})
        elif k == "deepcopy":
            ops.append({"k": "deepcopy", "r": st["r"]})
        elif k == "fresh":
            ops.append({"k": "fresh", "r": st["r"]})
        elif k == "edit":
            ops.append({"k": "edit", "r": st["r"], "keep": rec.get("keep") or []})
        else:
            ops.append({"k": "derive", "r": st["r"], "keep": rec.get("keep") or [], "extra": len(rec.get("fresh") or [])})
    return ops


def model_requests(case, obs):
    return [("obs_run", {"n": case["n0"], "ops": model_ops(case, obs)})]


def judge(ctx, case, obs, mouts):
    steps, recs = case["steps"], obs["recs"]
    # oracle state: own bookkeeping of the derivation tree
    parent = {0: None}          # list -> (parent list, same_objects?)
    iso = {}                    # dict object -> isolation class (a deepcopy starts a new class)
    lclass = {0: 0}             # list -> isolation class of its lineage
    nclass = 1
    warned = set()
    nlists = 1
    depth = {0: 0}
    nontrivial = False
    edited_deep = False
    for idx, (st, rec) in enumerate(zip(steps, recs)):
        sub = {"op": "history", "n0": case["n0"], "steps": steps[:idx + 1]}
        k, r = st["k"], st["r"]
        ctx.count(f"{k}:{st['m']}")
        if "err" in rec:
            ctx.violation("oracle", f"{st['m']}:raises", f"{st['m']} raised: {rec['err']}", sub, rec)
            break
        # -- warn exactly once, on the first use after becoming obsolete
        uses_r = k not in ("poke", "forget")
        exp_warn = 1 if (uses_r and rec["obs_before"][r] and r not in warned) else 0
        if uses_r and rec["obs_before"][r]:
            warned.add(r)
            if edited_deep:
                nontrivial = True
        if rec["warnings"] != exp_warn:
            ctx.violation("oracle", "warn-once", f"step printed {rec['warnings']} warnings, expected {exp_warn} (list {r} obsolete={rec['obs_before'][r]}, warned before={r in warned and exp_warn == 0})", sub, rec)
        # -- isolation: which dict objects may change
        if k in ("derive", "use", "deepcopy", "fresh", "probe", "forget"):
            if rec["changed"]:
                ctx.violation("oracle", f"{st['m']}:modifies-items", f"non-modifying call {st['m']} changed dict objects {rec['changed']}", sub, rec)
        if k == "edit":
            allowed = set(rec["items"][r])
            if not set(rec["changed"]) <= allowed:
                ctx.violation("oracle", f"{st['m']}:foreign-dict", "an editing method changed a dict that is not an item of its receiver", sub, rec)
        for l, its in enumerate(rec["items"]):
            for t in its:
                iso.setdefault(t, lclass.get(l, lclass.get(st["r"], 0)))
        if k == "poke" and rec.get("poked"):
            target = rec["items"][r][st["pos"]]
            # top-level writes touch one dict object; nested values may be shared by shallow
            # copies (select, rename) but never across a deepcopy
            allowed = {target} if st["m"] == "top" else {t for t, c in iso.items() if c == iso[target]}
            if set(rec["changed"]) - allowed:
                ctx.violation("oracle", "poke:leak", f"writing into item object {target} of list {r} changed dict objects {sorted(set(rec['changed']) - allowed)} beyond a deepcopy boundary / other items", sub, rec)
        if rec.get("other_obsolete"):
            ctx.violation("oracle", "obsolete:right-argument-marked", f"step {idx} ({st['m']}): the right-hand list of the call (only read) or its predecessor reports itself obsolete", sub, rec)
        if rec.get("other_changed"):
            ctx.violation("oracle", f"{st['m']}:right-modified", "a join modified its right-hand argument", sub, rec)
        # -- new list bookkeeping
        if k in ("derive", "edit", "fresh", "deepcopy"):
            new = nlists
            nlists += 1
            lclass[new] = lclass[r]
            if k == "deepcopy":
                parent[new] = None
                depth[new] = 0
                lclass[new] = nclass
                nclass += 1
                for t in rec["new_items"]:
                    iso[t] = lclass[new]
                known_before = set(t for l in rec["items"][:-1] for t in l)
                if set(rec["new_items"]) & known_before:
                    ctx.violation("oracle", "deepcopy:shares-items", "deepcopy returned item objects that already exist", sub, rec)
            else:
                parent[new] = (r, k != "fresh")
                depth[new] = depth[r] + 1
            if rec["new_obsolete"]:
                ctx.violation("oracle", f"{st['m']}:result-obsolete", "the returned list reports itself obsolete", sub, rec)
        # -- obsolescence: must / must-not sets
        if k in ("edit", "fresh"):
            if depth[r] >= 2:
                edited_deep = True
            must = set()
            x = r
            while x is not None:
                must.add(x)
                p = parent[x]
                if p is None or not p[1]:
                    break
                x = p[0]
            anc = set()
            x = r
            while x is not None:
                anc.add(x)
                p = parent[x]
                x = p[0] if p else None
            for l in must:
                if not rec["obsolete"][l]:
                    ctx.violation("oracle", "obsolete:ancestor-not-marked", f"list {l} (ancestor of the edited list {r} through same-object methods) is not obsolete", sub, rec)
                    break
            for l in range(nlists):
                if l not in anc and rec["obsolete"][l] and not rec["obs_before"][l] if l < len(rec["obs_before"]) else (l not in anc and rec["obsolete"][l]):
                    ctx.violation("oracle", "obsolete:non-ancestor-marked", f"list {l} is not an ancestor of {r} but became obsolete", sub, rec)
                    break
        else:
            if rec["obsolete"][:len(rec["obs_before"])] != rec["obs_before"]:
                ctx.violation("oracle", "obsolete:spurious", f"{st['m']} changed an obsolete flag", sub, rec)
    # ---- correspondence
    if mouts is not None and mouts:
        m = mouts[0]
        if isinstance(m, dict) and "err" in m:
            ctx.violation("correspondence", "history:model-error", f"model rejected the history: {m['err']}", case, obs, m)
        else:
            vers_prev = None
            for idx, (mo, rec) in enumerate(zip(m, recs)):
                if "err" in rec:
                    break
                sub = {"op": "history", "n0": case["n0"], "steps": steps[:idx + 1]}
                st = steps[idx]
                keep_known = rec.get("keep") is not None or st["k"] in ("use", "poke", "probe", "forget", "deepcopy", "fresh")
                if (1 if mo["warn"] else 0) != rec["warnings"]:
                    ctx.violation("correspondence", "warn:differs", "model and implementation disagree on the warning", sub, rec, mo)
                    break
                if mo["obsolete"] != rec["obsolete"]:
                    ctx.violation("correspondence", "obsolete:differs", "model and implementation disagree on the obsolete flags", sub, rec, mo)
                    break
                if mo["pred"] != rec["pred"]:
                    ctx.violation("correspondence", "pred:differs", "model and implementation disagree on the predecessor structure", sub, rec, mo)
                    break
                if keep_known and mo["items"] != rec["items"]:
                    ctx.violation("correspondence", "items:differs", "model and implementation disagree on item identities", sub, rec, mo)
                    break
                vers = mo["vers"]
                if vers_prev is not None and keep_known and not (st["k"] == "poke" and st["m"] == "nested"):
                    changed = [i for i in range(len(vers_prev)) if vers[i] != vers_prev[i]]
                    # the model bumps every dict an editing method may write; the implementation
                    # changes a subset of those (a write may store an equal value)
                    if not set(rec["changed"]) <= set(changed):
                        ctx.violation("correspondence", "writes:differs", "implementation changed dict objects the model does not write", sub, rec, changed)
                        break
                vers_prev = vers
    ctx.case_done(case, nontrivial)


run = common.default_run(sys.modules[__name__])
search = common.default_search(sys.modules[__name__])

# -*- coding: utf-8 -*-
"""C07 — aggregation helpers compute the documented statistic and NA policy."""

import itertools
import math
import statistics
import sys
from fractions import Fraction
from unittest.mock import patch

import numpy as np

from harness import common, vecgen

LEVEL = {"partial": ["floating-point rounding: results are compared to the exact rational value within 1e-9 relative tolerance (std: squared)",
                     "NumPy's reductions themselves (np.mean, np.median, np.quantile, ...) are the assumed semantics; helpers on string columns are checked by the oracle only"]}
ASSUMPTIONS = ["np.mean/median/var/std/quantile/sum/amin/amax/all/any as documented; statistics.mode returns the first encountered mode"]
RULE = ("16 helpers x {float, int, bool, date, timedelta} columns drawn from exactly representable pools with NaN/NaT, x drop_na in {default, True, False}, "
        "ddof in {0,1,2}, index in -3..3, q in {0, 1/4, 1/2, 9/10, 1}; vector form on vectors of 0..8 elements and group-wise form on frames "
        "of 0..12 rows with 1..4 groups incl. singleton and all-missing groups (USE_NUMBA off, and on for the Numba-eligible dtypes: in the same process, and for first / last / nth / mode in one fresh interpreter per helper where that helper's kernel is compiled first); non-trivial = >=2 elements with a tie or a "
        "missing value (vector) / >=2 groups (group-wise); thorough adds all groups of <=4 values over a 4-value pool")

HELPERS = ["all", "any", "count", "count_unique", "first", "last", "nth", "min", "max", "mode", "mean", "median", "quantile", "std", "var", "sum"]
NUMERIC_ONLY = {"mean", "median", "quantile", "std", "var", "sum", "all", "any"}
POOLS = {
    "float": ["nan", 1.0, 2.0, 2.5, -1.0, 4.0, 0.5, 0.25, 3.0, 0.0],
    "int": [0, 1, 2, 3, -1, 5, 7],
    "bool": [True, False],
    "date": [None, 0, 1, 18000, 19000, -5],
    "timedelta": [None, 0, 1, 2, 86400, -5, 259200],
}
QS = ["0/1", "1/4", "1/2", "9/10", "1/1"]


def gen_args(rng, helper):
    a = {}
    if helper not in ("all", "any"):
        a["drop_na"] = rng.choice([None, True, False])
    if helper in ("std", "var"):
        a["ddof"] = rng.choice([0, 0, 1, 2])
    if helper == "nth":
        a["index"] = rng.randint(-3, 3)
    if helper == "quantile":
        a["q"] = rng.choice(QS)
    return a


def gen_vals(rng, kind, n):
    pool = POOLS[kind]
    sub = rng.sample(pool, min(rng.choice([1, 2, 3, 3, 4]), len(pool)))
    if rng.random() < 0.1 and kind in ("float", "date", "timedelta"):
        return [pool[0]] * n
    if rng.random() < 0.12 and kind in ("float", "int"):
        # a small spread around a large value (timestamps, identifiers, money in cents): every value exactly representable,
        # so the textbook statistic is too; formulas that subtract two large numbers lose it
        base = rng.choice([16000000, 100000000, 1600000000])   # (eps*base)**2 stays far below the tolerance: a two-pass formula is exact enough
        small = [x for x in sub if not vecgen.is_na_val(kind, x)] or [1]
        return [(base + abs(rng.choice(small))) if rng.random() < 0.9 or kind == "int" else "nan" for _ in range(n)]
    return [rng.choice(sub) for _ in range(n)]


def gen_case(rng, tier, form=None):
    helper = rng.choice(HELPERS)
    kind = rng.choice(["float", "float", "int", "bool"] if helper in NUMERIC_ONLY else ["float", "int", "bool", "date", "timedelta"])
    form = form or rng.choice(["vector", "group"])
    args = gen_args(rng, helper)
    if form == "vector":
        n = rng.choice([0, 1, 2, 3, 4, 5, 8])
        return {"op": "vector", "helper": helper, "kind": kind, "args": args, "vals": gen_vals(rng, kind, n)}
    n = rng.choice([0, 1, 2, 4, 6, 9, 12])
    case = {"op": "group", "helper": helper, "kind": kind, "args": args}
    if rng.random() < 0.2:
        # a string group column and more rows than the size up to which NumPy's default (unstable) sort happens to
        # be stable: the group's elements must still reach the helper in their original order
        n = rng.choice([20, 30, 40])
        case["gstr"] = True
    g = [rng.randint(0, rng.choice([0, 1, 2, 3])) for _ in range(n)]
    case.update({"vals": gen_vals(rng, kind, n), "g": g})
    if rng.random() < 0.25:
        # other helpers on the same column listed BEFORE this one in the same aggregate() call: each helper is a statistic
        # of the group's elements whatever was computed before it
        pool = [h for h in HELPERS if not (kind in ("date", "timedelta") and h in NUMERIC_ONLY)]
        case["before"] = [{"helper": h, "args": gen_args(rng, h)} for h in (rng.choice(pool + ["median", "median"]) for _ in range(rng.choice([1, 2])))
                          if not (kind in ("date", "timedelta") and h in NUMERIC_ONLY)]
    return case


def gen_cases(ctx):
    rng = ctx.rng
    cases = [
        {"op": "vector", "helper": "mode", "kind": "int", "args": {"drop_na": None}, "vals": [3, 1, 3, 1]},
        {"op": "group", "helper": "mode", "kind": "int", "args": {"drop_na": None}, "vals": [3, 1, 3, 1, 2], "g": [0, 0, 0, 0, 1]},
        {"op": "group", "helper": "std", "kind": "float", "args": {"drop_na": None, "ddof": 0}, "vals": [1.0, "nan", 2.5], "g": [0, 0, 1]},
        {"op": "group", "helper": "nth", "kind": "float", "args": {"drop_na": True, "index": -3}, "vals": [1.0, 2.0, "nan", "nan"], "g": [0, 0, 1, 1]},
        {"op": "group", "helper": "count", "kind": "float", "args": {"drop_na": True}, "vals": [1.0, "nan", "nan"], "g": [0, 0, 1]},
    ]
    # integers beyond 2**53 (where float64 loses the last bits): sums, extremes, elements and the mode are exact integers
    big = 9007199254740993
    for h in ("sum", "max", "min", "first", "last", "mode", "median", "count_unique", "nth"):
        a = {"drop_na": None}
        if h == "nth":
            a["index"] = 1
        cases.append({"op": "group", "helper": h, "kind": "int", "args": dict(a), "vals": [big, 1, 1, big, 2, big + 2], "g": [0, 0, 0, 1, 1, 1]})
        cases.append({"op": "vector", "helper": h, "kind": "int", "args": dict(a), "vals": [big, 1, 1]})
    # exactly one element left after the missing ones are dropped (and none, and two): "fewer elements than the statistic needs"
    # is counted AFTER the drop
    for h in HELPERS:
        for vals in (["nan", 5.0], [5.0, "nan", "nan"], ["nan", "nan"], [2.0, "nan", 5.0]):
            a = {"drop_na": None} if h not in ("all", "any") else {}
            if h in ("std", "var"):
                a["ddof"] = 0
            if h == "nth":
                a["index"] = 0
            if h == "quantile":
                a["q"] = "1/2"
            cases.append({"op": "vector", "helper": h, "kind": "float", "args": a, "vals": vals})
            cases.append({"op": "group", "helper": h, "kind": "float", "args": a, "vals": vals + vals, "g": [0] * len(vals) + [1] * len(vals)})
    # an order-dependent helper listed after helpers that may rearrange what they are given (median, quantile, sort-based ones)
    for _ in range(24 if ctx.tier == "quick" else 400):
        kind = rng.choice(["float", "int"])
        nrow = rng.choice([3, 5, 6, 9])
        h = rng.choice(["first", "last", "nth", "mode"])
        a = gen_args(rng, h)
        a["drop_na"] = rng.choice([None, False])
        pool = [x for x in POOLS[kind] if not vecgen.is_na_val(kind, x)]
        cases.append({"op": "group", "helper": h, "kind": kind, "args": a, "vals": [rng.choice(pool) for _ in range(nrow)],
                      "g": [rng.randint(0, 1) for _ in range(nrow)],
                      "before": [{"helper": b, "args": gen_args(rng, b)} for b in rng.sample(["median", "quantile", "max", "count_unique", "std"], rng.choice([1, 2]))]})
    n = 800 if ctx.tier == "quick" else 20000
    for _ in range(n):
        cases.append(gen_case(rng, ctx.tier))
    # the order-dependent helpers with USE_NUMBA on: each helper's group cases of this run (plus directed ones: several groups
    # whose most common value sits at different positions, so that nothing carried over from one group can go unnoticed in
    # the next) go to ONE fresh interpreter per helper, where that helper's kernel is the first one compiled
    for h in ("mode", "first", "last", "nth"):
        a = {"drop_na": None}
        if h == "nth":
            a["index"] = 1
        items = [{"op": "group", "helper": h, "kind": "int", "args": dict(a), "vals": [1, 1, 2, 3, 5, 6, 7, 7, 4, 9, 9, 9], "g": [0, 0, 0, 0, 1, 1, 1, 1, 2, 2, 2, 2]},
                 {"op": "group", "helper": h, "kind": "float", "args": dict(a), "vals": [2.5, 2.5, 1.0, 3.0, 3.0, 1.0, 4.0, 0.5, 0.5], "g": [0, 0, 0, 1, 1, 1, 2, 2, 2]},
                 {"op": "group", "helper": h, "kind": "date", "args": dict(a), "vals": [5, 5, 1, 7, 8, 8, 2, 3, 3], "g": [1, 1, 1, 0, 0, 0, 2, 2, 2]}]
        items += [dict(c) for c in cases if c["op"] == "group" and c["helper"] == h and c["kind"] in NUMBA_KINDS and not c.get("before")][:40 if ctx.tier == "quick" else 600]
        while len(items) < (30 if ctx.tier == "quick" else 300):
            c = gen_case(rng, ctx.tier, form="group")
            if c["kind"] in NUMBA_KINDS and not c.get("before"):
                c["helper"], c["args"] = h, dict(gen_args(rng, h))
                items.append(c)
        cases.append({"op": "numba_batch", "helper": h, "kind": "int", "args": {}, "vals": [], "items": items})
    if ctx.tier == "thorough":
        for helper in HELPERS:
            for ln in range(0, 5):
                for vals in itertools.product(["nan", 1.0, 2.0, 2.5], repeat=ln):
                    for dn in (None, True, False):
                        a = {"drop_na": dn} if helper not in ("all", "any") else {}
                        if helper in ("std", "var"):
                            a["ddof"] = 1
                        if helper == "nth":
                            a["index"] = -2
                        if helper == "quantile":
                            a["q"] = "1/4"
                        cases.append({"op": "vector", "helper": helper, "kind": "float", "args": a, "vals": list(vals)})
    return cases


def call_args(case):
    a = dict(case["args"])
    if a.get("drop_na", None) is None:
        a.pop("drop_na", None)
    pos = []
    if case["helper"] == "nth":
        pos.append(a.pop("index"))
    if case["helper"] == "quantile":
        pos.append(float(Fraction(a.pop("q"))))
    return pos, a


def canon_result(x):
    if x is None:
        return "missing"
    if isinstance(x, (np.datetime64, np.timedelta64)):
        return "missing" if np.isnat(x) else int(x.astype("int64"))
    if isinstance(x, (bool, np.bool_)):
        return bool(x)
    if isinstance(x, (float, np.floating)):
        x = float(x)
        return "missing" if x != x else x
    if isinstance(x, (int, np.integer)):
        return int(x)
    if hasattr(x, "total_seconds"):   # datetime.timedelta from .item()
        return int(x.total_seconds())
    if hasattr(x, "toordinal"):   # datetime.date from .item()
        return int(np.datetime64(x, "D").astype("int64"))
    return repr(x)


NUMBA_KINDS = ("float", "int", "bool", "date", "datetime")


def numba_batch(case):
    import json
    import os
    import shutil
    import subprocess
    import tempfile
    env = dict(os.environ)
    env["VERIF_REPO"] = common.REPO
    env["PYTHONHASHSEED"] = "0"
    env["VERIF_NO_LINE_RECORDING"] = "1"
    env.pop("DATAITER_USE_NUMBA", None)
    cache = tempfile.mkdtemp(prefix="verif-nbbatch-")
    env["NUMBA_CACHE_DIR"] = cache
    env["DATAITER_USE_NUMBA_CACHE"] = "false"
    try:
        r = subprocess.run(["/venv/bin/python", os.path.join(common.VERIF, "harness", "numba_batch.py")], input=json.dumps({"items": case["items"]}),
                           env=env, stdout=subprocess.PIPE, stderr=subprocess.PIPE, text=True, timeout=1500)
    finally:
        shutil.rmtree(cache, ignore_errors=True)
    line = [ln for ln in r.stdout.split("\n") if ln.startswith("RESULT ")]
    if r.returncode != 0 or not line:
        return {"crash": r.returncode, "stderr": r.stderr[-1500:]}
    return {"batch": json.loads(line[0][7:])}


def impl(case, use_numba=False):
    if case["op"] == "numba_batch":
        return numba_batch(case)
    import dataiter as di
    helper, kind = case["helper"], case["kind"]
    f = getattr(di, helper)
    pos, kw = call_args(case)
    res = {}
    try:
        with patch("dataiter.USE_NUMBA", use_numba):
            if case["op"] == "vector":
                v = vecgen.make_vector(kind, case["vals"])
                res["out"] = canon_result(f(v, *pos, **kw))
            else:
                if case.get("gstr"):
                    df = di.DataFrame(g=np.array([f"g{v}" for v in case["g"]], dtype=di.dtypes.string), x=vecgen.make_array(kind, case["vals"]))
                else:
                    df = di.DataFrame(g=np.array(case["g"], dtype=np.int64), x=vecgen.make_array(kind, case["vals"]))
                funs = {}
                for i, b in enumerate(case.get("before") or []):
                    bpos, bkw = call_args(b)
                    funs[f"b{i}"] = getattr(di, b["helper"])("x", *bpos, **bkw)
                funs["y"] = f("x", *pos, **kw)
                stat = df.group_by("g").aggregate(**funs)
                res["out"] = [canon_result(x) for x in stat.y]
                res["groups"] = [int(str(x)[1:]) if case.get("gstr") else int(x) for x in stat.g]
                res["dtype"] = str(stat.y.dtype)
                # the same call as a user with Numba installed runs it (acceleration is ON by default): the documented
                # statistic either way.  Left out: the helpers whose kernels depend on the order of first compilation in one
                # process (a recorded C08 finding) — those run with Numba in a fresh interpreter per helper (`numba_batch`), and against the Python path in the C08 check
                if not use_numba and kind in NUMBA_KINDS and helper not in ("first", "last", "nth", "mode") and not case.get("before"):
                    try:
                        with patch("dataiter.USE_NUMBA", True):
                            stat2 = df.group_by("g").aggregate(y=f("x", *pos, **kw))
                        res["out_numba"] = [canon_result(x) for x in stat2.y]
                    except Exception as e:
                        res["err_numba"] = f"{type(e).__name__}: {e}"
    except Exception as e:
        res["err"] = f"{type(e).__name__}: {e}"
    return res


def rat(kind, v):
    if vecgen.is_na_val(kind, v):
        return None
    if kind == "float":
        fr = Fraction(vecgen.pyval(kind, v))
    else:
        fr = Fraction(int(v))
    return f"{fr.numerator}/{fr.denominator}"


def drop_default(helper):
    return helper in ("max", "mean", "median", "min", "mode", "quantile", "std", "sum", "var")


def model_requests(case, obs):
    if case["op"] == "numba_batch":
        return []
    helper, kind, args = case["helper"], case["kind"], case["args"]
    a = {"helper": helper}
    dn = args.get("drop_na")
    a["drop"] = drop_default(helper) if dn is None else dn
    if helper in ("all", "any"):
        a["drop"] = False
    if helper == "nth":
        a["index"] = args["index"]
    if helper == "quantile":
        a["q"] = args["q"]
    if helper in ("std", "var"):
        a["ddof"] = args["ddof"]
    if helper == "count_unique":
        a["naDistinct"] = kind in ("float", "date", "timedelta")
    if case["op"] == "vector":
        a["xs"] = [rat(kind, v) for v in case["vals"]]
        return [("agg_vector", a)]
    order = sorted(range(len(case["g"])), key=lambda i: case["g"][i])
    a["xs"] = [rat(kind, case["vals"][i]) for i in order]
    a["ids"] = [case["g"][i] for i in order]
    return [("agg_group", a)]


def reference(helper, args, kind, vals):
    """textbook statistic over exact rationals; returns 'missing' | Fraction | bool | int | ('sqrt', Fraction) | None (unspecified)."""
    xs = [None if vecgen.is_na_val(kind, v) else (Fraction(vecgen.pyval(kind, v)) if kind == "float" else Fraction(int(v))) for v in vals]
    dn = args.get("drop_na")
    dn = drop_default(helper) if dn is None else dn
    if helper in ("all", "any"):
        dn = False
    has_na = any(x is None for x in xs)
    if dn:
        xs = [x for x in xs if x is not None]
        has_na = False
    n = len(xs)
    if helper == "count":
        return n
    if helper == "all":
        return all(x is None or x != 0 for x in xs)
    if helper == "any":
        return any(x is None or x != 0 for x in xs)
    if helper == "count_unique":
        # the elements are counted as a Python set counts them: NaN / NaT are equal to nothing, so every missing element of a
        # float / date / timedelta column is a distinct element of its own (the suite pins [NaN, NaN] -> 2); the missing
        # string "" and None are ordinary equal values and count once
        nas = sum(1 for x in xs if x is None)
        return len({x for x in xs if x is not None}) + (nas if kind in ("float", "date", "datetime", "timedelta") else min(nas, 1))
    if helper in ("first", "last", "nth"):
        i = {"first": 0, "last": -1}.get(helper, args.get("index"))
        try:
            v = xs[i]
        except IndexError:
            return "missing"
        return "missing" if v is None else v
    if helper == "mode":
        if n == 0:
            return "missing"
        if has_na:
            return None
        best, cnt = None, 0
        for x in xs:
            c = xs.count(x)
            if c > cnt:
                best, cnt = x, c
        return best
    if helper == "sum":
        return "missing" if has_na else sum(xs, Fraction(0))
    need = 2 if helper in ("std", "var") else 1
    if n < need:
        return "missing"
    if has_na:
        return "missing"
    if helper == "min":
        return min(xs)
    if helper == "max":
        return max(xs)
    if helper == "mean":
        return sum(xs, Fraction(0)) / n
    if helper == "median":
        return statistics.median(xs)
    if helper == "quantile":
        q = Fraction(args["q"])
        s = sorted(xs)
        h = (n - 1) * q
        lo = math.floor(h)
        return s[lo] + (h - lo) * (s[lo + 1] - s[lo]) if lo + 1 < n else s[lo]
    if helper in ("var", "std"):
        m = sum(xs, Fraction(0)) / n
        d = n - args.get("ddof", 0)
        if d == 0:
            return None
        v = sum(((x - m) ** 2 for x in xs), Fraction(0)) / d
        return v if helper == "var" else ("sqrt", v)


def agrees(got, exp):
    """implementation result (canonical) vs exact expectation."""
    if exp is None:
        return True
    if exp == "missing":
        return got == "missing"
    if isinstance(exp, bool):
        return got is exp or got == exp
    if isinstance(exp, tuple):
        if got == "missing" or isinstance(got, str):
            return False
        q = float(exp[1])
        return abs(float(got) ** 2 - q) <= 1e-9 * max(1.0, abs(q))
    if got == "missing" or isinstance(got, str):
        return False
    if isinstance(got, int) and not isinstance(got, bool) and Fraction(exp).denominator == 1:
        return got == int(Fraction(exp))          # an integer result is exact (also beyond 2**53, where a float is not)
    q = float(exp)
    return abs(float(got) - q) <= 1e-9 * max(1.0, abs(q))


def model_to_exp(m):
    if m == "missing":
        return "missing"
    if isinstance(m, bool):
        return m
    if isinstance(m, int):
        return m
    if isinstance(m, dict) and "val" in m:
        return Fraction(m["val"])
    if isinstance(m, dict) and "sqrt" in m:
        return ("sqrt", Fraction(m["sqrt"]))
    raise ValueError(m)


def groups_of(case):
    ks = sorted(set(case["g"]))
    return ks, [[case["vals"][i] for i in range(len(case["g"])) if case["g"][i] == k] for k in ks]


def judge_batch(ctx, case, obs):
    helper = case["helper"]
    ctx.count(f"numba_batch:{helper}")
    if "batch" not in obs:
        ctx.violation("oracle", f"{helper}:group:numba-crash", f"a fresh interpreter running di.{helper} group-wise with USE_NUMBA on ended with {obs.get('crash')}: {obs.get('stderr', '')[-400:]}", case, obs)
        ctx.case_done(case, False)
        return
    for item, o in zip(case["items"], obs["batch"]):
        kind, args = item["kind"], item["args"]
        ctx.count("group:numba-on-fresh")
        has_na = any(vecgen.is_na_val(kind, v) for v in item["vals"])
        if helper == "mode" and has_na and not (drop_default(helper) if args.get("drop_na") is None else args.get("drop_na")):
            continue
        sub = dict(item, numba_fresh=True)
        if "err" in o:
            ctx.violation("oracle", f"{helper}:group:numba-raises", f"di.{helper} (group form, {kind}) raised with USE_NUMBA on in a fresh interpreter: {o['err']}", sub, o)
            continue
        ks, gs = groups_of(item)
        if o.get("groups") != ks or len(o["out"]) != len(ks):
            ctx.violation("oracle", f"{helper}:group:keys", "summary rows do not correspond to the groups (USE_NUMBA on)", sub, o)
            continue
        for k, g, got in zip(ks, gs, o["out"]):
            exp = reference(helper, args, kind, g)
            if not agrees(got, exp):
                ctx.violation("oracle", f"{helper}:group:wrong-with-numba", f"group {k}: di.{helper} with USE_NUMBA on (fresh interpreter, this helper compiled first) gave {got!r}, textbook value {exp!r}", sub, o, repr(exp))
                break
    ctx.case_done(case, True)


def judge(ctx, case, obs, mouts):
    if case["op"] == "numba_batch":
        return judge_batch(ctx, case, obs)
    helper, kind, args = case["helper"], case["kind"], case["args"]
    ctx.count(f"{case['op']}:{helper}")
    ctx.count("kind:" + kind)
    vals = case["vals"]
    has_na = any(vecgen.is_na_val(kind, v) for v in vals)
    if case["op"] == "vector":
        nontrivial = len(vals) >= 2 and (has_na or len(set(map(repr, vals))) < len(vals))
    else:
        nontrivial = len(set(case["g"])) >= 2
    unspecified = helper in ("mode",) and has_na and not (drop_default(helper) if args.get("drop_na") is None else args.get("drop_na"))
    if "err" in obs:
        ctx.violation("oracle", f"{helper}:{case['op']}:raises", f"di.{helper} ({case['op']} form, {kind}) raised: {obs['err']}", case, obs)
    else:
        if case["op"] == "vector":
            exp = reference(helper, args, kind, vals)
            if not agrees(obs["out"], exp):
                ctx.violation("oracle", f"{helper}:vector:wrong", f"di.{helper}(vector) = {obs['out']!r}, textbook value {exp!r}", case, obs, repr(exp))
        else:
            ks, gs = groups_of(case)
            if obs["groups"] != ks:
                ctx.violation("oracle", f"{helper}:group:keys", "summary rows do not correspond to the groups", case, obs)
            else:
                for k, g, got in zip(ks, gs, obs["out"]):
                    # drop_na in the group-wise form: any NA in the whole column triggers dropping in every group
                    exp = reference(helper, args, kind, g)
                    if not agrees(got, exp):
                        ctx.violation("oracle", f"{helper}:group:wrong", f"group {k}: di.{helper} gave {got!r}, textbook value {exp!r}", case, obs, repr(exp))
                        break
                dn_ = drop_default(helper) if args.get("drop_na") is None else args.get("drop_na")
                if "err_numba" in obs:
                    ctx.violation("oracle", f"{helper}:group:numba-raises", f"di.{helper} (group form, {kind}) raised with USE_NUMBA on: {obs['err_numba']}", case, obs)
                elif "out_numba" in obs and not (helper == "median" and has_na and not dn_):
                    ctx.count("group:numba-on")
                    for k, g, got in zip(ks, gs, obs["out_numba"]):
                        exp = reference(helper, args, kind, g)
                        if len(obs["out_numba"]) != len(ks) or not agrees(got, exp):
                            ctx.violation("oracle", f"{helper}:group:wrong-with-numba", f"group {k}: di.{helper} with USE_NUMBA on gave {got!r}, textbook value {exp!r}", case, obs, repr(exp))
                            break
    if mouts is not None and "err" not in obs and not unspecified:
        m = mouts[0]
        if isinstance(m, dict) and "err" in m:
            ctx.violation("correspondence", f"{helper}:model-error", f"model rejected the request: {m['err']}", case, obs, m)
        elif case["op"] == "vector":
            # n - ddof = 0: the statistic is a division by zero (NumPy: inf or nan with a warning); the model's
            # rational arithmetic has no such value, the property names none: not compared
            degenerate = helper in ("std", "var") and reference(helper, args, kind, vals) is None
            if not degenerate and not agrees(obs["out"], model_to_exp(m)):
                ctx.violation("correspondence", f"{helper}:vector:differs", "model and implementation disagree", case, obs, m)
        else:
            gs2 = groups_of(case)[1]
            deg = [helper in ("std", "var") and reference(helper, args, kind, g) is None for g in gs2] if len(gs2) == len(m) else [False] * len(m)
            if len(m) != len(obs["out"]) or not all(d or agrees(g, model_to_exp(x)) for g, x, d in zip(obs["out"], m, deg)):
                ctx.violation("correspondence", f"{helper}:group:differs", "model and implementation disagree", case, obs, m)
    ctx.case_done(case, nontrivial)


def extract(ctx):
    from harness import extract_ast
    extract_ast.gen_helper_table()


run = common.default_run(sys.modules[__name__])
search = common.default_search(sys.modules[__name__])

# -*- coding: utf-8 -*-
"""C09 — combining and reshaping columns preserves every untouched value."""

import math
import sys

import numpy as np

from harness import common, framegen, vecgen

LEVEL = {"partial": ["NumPy's dtype promotion in np.concatenate and the NA-capable dtype tables (na_dtype / na_value) are observed, not modelled: values are compared after numeric coercion, missing values by is_na()"]}
ASSUMPTIONS = ["np.concatenate keeps the order of its parts; np.repeat broadcasts a length-one column"]
RULE = ("tuples of 1..4 frames (0..6 rows, 1..4 columns) with overlapping / disjoint column sets; per column name one promotable dtype family "
        "(int/float/bool mixed, string, date, datetime, timedelta); operations rbind, cbind (incl. length-one frames to broadcast), update, "
        "modify (scalar, vector, callable), select / unselect (all subsets and orders), rename (incl. swaps); non-trivial = >=2 frames with "
        "different column sets (rbind/cbind/update) or a result whose column list differs from the input (others)")

# column names incl. names that contain other names ("ab" / "a" / "b", "d_e" / "d" / "e"): a name is a key, never a pattern
FAMILIES = {"a": ["int", "float", "bool"], "b": ["str", "str", "strlong"], "c": ["date"], "d": ["float", "int"], "e": ["timedelta"], "f": ["datetime"],
            "ab": ["int", "float"], "d_e": ["float"],
            # one name that is a date column in some frames and a datetime column in others (a daily extract stacked with a
            # time-stamped one): NumPy promotes to the finer unit, every instant is kept
            "t": ["date", "datetime"]}
# objects with a history are also left grouped by an earlier group_by (harness/warm.py), except for `modify`, which is
# documented as group-wise on a grouped receiver
WARM_GROUPED = True


def warm_grouped(case):
    return case.get("op") != "modify"

OPS = ["rbind", "cbind", "update", "modify", "select", "unselect", "rename", "colnames", "modify"]


def gen_frame(rng, names, nrow=None):
    n = rng.choice([0, 1, 2, 3, 3, 4, 6]) if nrow is None else nrow
    cols = []
    for nm in names:
        kind = rng.choice(FAMILIES[nm])
        cols.append({"name": nm, "kind": kind, "vals": vecgen.gen_vals(rng, kind, n)})
    return {"n": n, "cols": cols}


def gen_case(rng, tier):
    op = rng.choice(OPS)
    allnames = list(FAMILIES)
    case = {"op": op}
    if op == "rbind":
        k = rng.choice([1, 2, 2, 3, 4])
        case["frames"] = [gen_frame(rng, rng.sample(allnames, rng.randint(1, 4))) for _ in range(k)]
    elif op == "cbind":
        n = rng.choice([1, 2, 3, 4])
        k = rng.choice([2, 2, 3, 3])
        frames = [gen_frame(rng, rng.sample(allnames, rng.randint(1, 3)), nrow=n)]
        for _ in range(k - 1):
            # mostly fitting operands (same length, or one row = broadcast); sometimes one that cannot fit (longer than a
            # one-row receiver, shorter, longer): the call must refuse it, not stretch or cut any column
            frames.append(gen_frame(rng, rng.sample(allnames, rng.randint(1, 3)), nrow=rng.choice([n, n, n, 1, 1, n + 2, 2, 3])))
        case["frames"] = frames
    elif op == "update":
        n = rng.choice([1, 2, 3, 4])
        case["frames"] = [gen_frame(rng, rng.sample(allnames, rng.randint(1, 4)), nrow=n),
                          gen_frame(rng, rng.sample(allnames, rng.randint(1, 3)), nrow=rng.choice([n, n, n, 1, 1, n + 2, 2, 3]))]
    else:
        f = gen_frame(rng, rng.sample(allnames, rng.randint(1, 4)))
        if op == "modify" and f["n"] == 0 and rng.random() < 0.7:
            f = gen_frame(rng, [c["name"] for c in f["cols"]], nrow=3)
        case["frames"] = [f]
        names = [c["name"] for c in f["cols"]]
        if op in ("select", "unselect"):
            pool = names + (["zz"] if op == "unselect" else [])
            case["cols"] = rng.sample(pool, rng.randint(0, len(pool)))      # (also no name at all: select() is the frame without columns)
        elif op == "rename":
            frm = rng.sample(names, rng.randint(1, min(2, len(names))))
            if len(frm) == 2 and rng.random() < 0.4:
                to = [frm[1], frm[0]]     # swap two existing names
            else:
                to = rng.sample(["p", "q", "r"], len(frm))
            case["to_from"] = [[t, f_] for t, f_ in zip(to, frm)]
        elif op == "colnames":
            # a positional renaming in which some names stay as they are (`[x.lower() for x in data.colnames]`)
            fresh = iter(["p", "q", "r", "s"])
            case["names"] = [nm if rng.random() < 0.5 else next(fresh) for nm in names]
        elif op == "modify":
            kvs = []
            for key in rng.sample(names + ["p", "q"], rng.randint(1, 2)):
                kvs.append([key, rng.choice(["scalar", "vector", "callable", "scalar", "vector", "callable", "longvector", "longcallable"] + SCALAR_KINDS)])
            if rng.random() < 0.35 and any(c["kind"] in ("int", "float") for c in f["cols"]) and f["n"] >= 1:
                # a callable that READS a column of the receiver, listed after a value that replaces that very column: every
                # callable is handed the frame modify was called on
                src = rng.choice([c["name"] for c in f["cols"] if c["kind"] in ("int", "float")])
                kvs = [[src, rng.choice(["scalar", "vector"])], [rng.choice(["p", "q"]), "reads:" + src]]
            case["kvs"] = kvs
    return case


def gen_cases(ctx):
    rng = ctx.rng
    i2 = lambda nm, vals, kind="int": {"name": nm, "kind": kind, "vals": vals}
    cases = [
        {"op": "cbind", "frames": [{"n": 3, "cols": [i2("a", [1, 2, 3])]}, {"n": 3, "cols": [i2("d", [1, 1, 1])]}, {"n": 3, "cols": [i2("d", [9, 9, 9]), i2("c", [0, 1, 2], "date")]}]},
        {"op": "rbind", "frames": [{"n": 0, "cols": [i2("a", []), i2("b", [], "str")]}, {"n": 2, "cols": [i2("d", [1.5, 2.5], "float"), i2("a", [1, 2])]}]},
        {"op": "rename", "frames": [{"n": 2, "cols": [i2("a", [1, 2]), i2("d", [3, 4])]}], "to_from": [["d", "a"], ["a", "d"]]},
    ]
    # three frames, one WITHOUT the column and two that hold it in different precisions, the coarser first (and every other
    # order): what a later frame brings may not be cut down to what an earlier one could hold
    day = {"name": "t", "kind": "date", "vals": [18000, None]}
    stamp = {"name": "t", "kind": "datetime", "vals": [1600000000000001, 1600000000123456]}
    none = {"n": 2, "cols": [i2("a", [1, 2])]}
    fd, fs = {"n": 2, "cols": [i2("a", [3, 4]), day]}, {"n": 2, "cols": [i2("a", [5, 6]), stamp]}
    for order in ([none, fd, fs], [fd, none, fs], [fd, fs, none], [none, fs, fd], [fs, none, fd], [fd, fs], [fs, fd]):
        cases.append({"op": "rbind", "frames": order})
    # one name given, other names contained in it (and the reverse): names are keys, never patterns
    for names, drop in ((["a", "b", "ab"], ["ab"]), (["ab", "a", "b"], ["a"]), (["d", "e", "d_e"], ["d_e"]), (["d_e", "d"], ["d"]), (["a", "ab"], ["ab"])):
        fr = gen_frame(rng, names, nrow=3)
        cases.append({"op": "unselect", "frames": [fr], "cols": drop})
        cases.append({"op": "select", "frames": [fr], "cols": drop})
    # a one-row operand (what `data.filter(id=3)` gives) broadcast into a longer receiver, holding strings around and beyond
    # NumPy's inline small-string size (15 bytes of UTF-8), also with multi-byte characters
    for op in ("cbind", "update"):
        for strs in (["a" * 15], ["a" * 16], ["ä" * 8], [LONGSTR], ["\U0001F1EB\U0001F1EE" * 3], ["a" * 49], ["a" * 50 + "x"]):
            for nrecv in (2, 4):
                cases.append({"op": op, "frames": [{"n": nrecv, "cols": [i2("a", list(range(nrecv))), {"name": "b", "kind": "str", "vals": ["x"] * nrecv}]},
                                                   {"n": 1, "cols": [{"name": "b" if op == "update" else "s", "kind": "strlong", "vals": strs}, i2("d", [7])]}]})
    n = 600 if ctx.tier == "quick" else 15000
    for _ in range(n):
        cases.append(gen_case(rng, ctx.tier))
    return cases


# scalars of the types a caller may hold one in: Python numbers that are not int / float (complex, Decimal, Fraction), strings
# longer than NumPy's inline small-string size and with multi-byte characters, and the same string as a ready one-row column
SCALAR_KINDS = ["scalar:complex", "scalar:decimal", "scalar:fraction", "scalar:longstr", "scalar:onerowcol", "scalar:npint"]
LONGSTR = "Hämeenlinna, Kanta-Häme — ääääääää"


def scalar_of(kind):
    import dataiter as di
    import decimal
    import fractions
    return {"scalar:complex": 2 + 1j, "scalar:decimal": decimal.Decimal("0.24"), "scalar:fraction": fractions.Fraction(1, 3),
            "scalar:longstr": LONGSTR, "scalar:onerowcol": di.DataFrame(c=[LONGSTR]).c, "scalar:npint": np.int32(7)}[kind]


def modify_value(kind, key, n):
    if kind.startswith("scalar:"):
        v = scalar_of(kind)
        return v, [vecgen.canon_elem(LONGSTR if kind == "scalar:onerowcol" else v)]
    if kind.startswith("reads:"):
        col = kind.split(":", 1)[1]
        return (lambda x: x[col].is_na()), None          # (the expected values come from the receiver's own column)
    if kind == "scalar":
        return 42, [42]
    if kind in ("longvector", "longcallable"):
        # two elements too many for the frame (for a one-row frame: a vector that would have to stretch the frame)
        vec = [100 + r for r in range(n + 2)]
        return (np.array(vec, dtype=np.int64) if kind == "longvector" else (lambda x: np.array(vec, dtype=np.int64))), vec
    vec = [100 + r for r in range(n)]
    if kind == "vector":
        return np.array(vec, dtype=np.int64), vec
    return (lambda x: np.array(vec, dtype=np.int64)), vec


def impl(case):
    op = case["op"]
    frames = [framegen.build(f, rid=None) for f in case["frames"]]
    snaps = [framegen.snapshot(f) for f in frames]
    res = {}
    try:
        self = frames[0]
        if op == "rbind":
            out = self.rbind(*frames[1:])
        elif op == "cbind":
            out = self.cbind(*frames[1:])
        elif op == "update":
            out = self.update(frames[1])
        elif op == "modify":
            kv = {}
            for key, kind in case["kvs"]:
                kv[key] = modify_value(kind, key, self.nrow)[0]
            out = self.modify(**kv)
        elif op == "select":
            out = self.select(*case["cols"])
        elif op == "unselect":
            out = self.unselect(*case["cols"])
        elif op == "rename":
            out = self.rename(**{t: f for t, f in case["to_from"]})
        elif op == "colnames":
            out = self.deepcopy()          # colnames assignment is the documented in-place operation: done on a private copy
            out.colnames = list(case["names"])
        res["colnames"] = out.colnames
        res["nrow"] = out.nrow
        res["cols"] = {k: vecgen.canon_array(v) for k, v in out.items()}
        res["na"] = {k: [bool(x) for x in v.is_na()] for k, v in out.items()}
        res["aliases"] = [k for k, v in out.items() for f in frames for c in f.values() if np.shares_memory(v, c)]
        # the result is a plain frame: an ungrouped modify with a scalar works on it whatever the history of the operands
        try:
            if out.nrow >= 1:      # (a scalar cannot be broadcast into a frame without rows: accepted, see C01)
                out.modify(_probe_=0)
        except Exception as e:
            res["result_not_plain"] = f"{type(e).__name__}: {e}"
    except Exception as e:
        res["err"] = f"{type(e).__name__}: {e}"
    res["mutated"] = [framegen.snapshot(f) for f in frames] != snaps
    return res


def model_requests(case, obs):
    if case["op"] == "colnames" or any(str(k[1]).startswith("reads:") for k in case.get("kvs", [])):
        return []            # judged by the reference layout alone (colnames assignment is modelled in C01's FrameState)
    op = case["op"]
    frames = [{"nrow": f["n"], "names": [c["name"] for c in f["cols"]]} for f in case["frames"]]
    a = {"kind": op, "frames": frames}
    if op in ("select", "unselect"):
        a["cols"] = case["cols"]
    if op == "rename":
        a["to_from"] = case["to_from"]
    if op == "modify":
        n = case["frames"][0]["n"]
        a["kvs"] = [[k, 1 if kind.startswith("scalar") else n + 2 if kind.startswith("long") else n] for k, kind in case["kvs"]]
    return [("bind", a)]


def num(v):
    if v == "nan" or v is None:
        return None
    if v == "inf":
        return math.inf
    if v == "-inf":
        return -math.inf
    if v == "-0.0":
        return 0.0
    if isinstance(v, bool):
        return float(v)
    if isinstance(v, (int, float)):
        return float(v)
    return v


def cell_eq(kind, src, out, out_na):
    """source canonical value vs output canonical value (after NumPy promotion)."""
    if vecgen.canon_is_na(kind, src):
        # a float NaN that lands in an object column (bool + float + synthesised None parts) is still the
        # value NaN, which is all the property demands ("values ... of any other column"); object
        # columns flag only None as missing
        return bool(out_na) or (kind == "float" and out == "nan")
    if out_na:
        return False
    if kind in ("int", "float", "bool"):
        return num(src) == num(out)
    if kind == "date" and src != out:
        # a date stacked with datetimes is that day's midnight in the finer unit (microseconds here)
        return isinstance(out, int) and src * 86400000000 == out
    return src == out


def source_value(case, src):
    """(kind, canonical value) of a model provenance entry."""
    if src == "na":
        return ("na", None)
    if src[0] == "c":
        f = case["frames"][src[1]]
        c = framegen.col(f, src[2])
        return (c["kind"], vecgen.canon_vals(c["kind"], c["vals"])[src[3]])
    if src[0] == "r":
        f = case["frames"][0]
        c = framegen.col(f, src[1])
        v = vecgen.canon_vals(c["kind"], c["vals"])[src[2]]
        return ("bool", bool(vecgen.canon_is_na(c["kind"], v)))
    if src[0] == "v":
        kind = dict(map(tuple, case["kvs"]))[src[1]]
        vec = modify_value(kind, src[1], case["frames"][0]["n"])[1]
        return ("int" if not kind.startswith("scalar:") or kind == "scalar:npint" else "obj", vec[src[2]])
    raise ValueError(src)


def expected_layout(case):
    """list-of-columns reference model: [(name, [(frame idx, col name, row) | 'na' | ('v', key, row)])] or 'reject'."""
    op = case["op"]
    F = case["frames"]
    names = lambda f: [c["name"] for c in f["cols"]]
    if op == "rbind":
        allnames = list(dict.fromkeys(n for f in F for n in names(f)))
        out = []
        for nm in allnames:
            cells = []
            for i, f in enumerate(F):
                cells += [["c", i, nm, r] for r in range(f["n"])] if nm in names(f) else ["na"] * f["n"]
            out.append([nm, cells])
        return out
    n0 = F[0]["n"]

    def fit(i, nm, ln):
        if ln == n0:
            return [["c", i, nm, r] for r in range(ln)]
        if ln == 1 and n0 >= 1:
            return [["c", i, nm, 0]] * n0
        return None
    if op == "cbind":
        out, seen = [], set()
        for i, f in enumerate(F):
            for nm in names(f):
                if nm in seen:
                    continue
                seen.add(nm)
                cells = fit(i, nm, f["n"])
                if cells is None:
                    return "reject"
                out.append([nm, cells])
        return out
    if op == "update":
        out = [[nm, fit(0, nm, n0)] for nm in names(F[0]) if nm not in names(F[1])]
        for nm in names(F[1]):
            cells = fit(1, nm, F[1]["n"])
            if cells is None:
                return "reject"
            out.append([nm, cells])
        return out
    if op == "modify":
        out = [[nm, fit(0, nm, n0)] for nm in names(F[0])]
        for key, kind in case["kvs"]:
            ln = 1 if kind.startswith("scalar") else n0 + 2 if kind.startswith("long") else n0
            if kind.startswith("reads:"):
                cells = [["r", kind.split(":", 1)[1], r] for r in range(n0)]
            elif ln == n0:
                cells = [["v", key, r] for r in range(ln)]
            elif ln == 1 and n0 >= 1:
                cells = [["v", key, 0]] * n0
            else:
                return "reject"
            hit = [j for j, (nm, _) in enumerate(out) if nm == key]
            if hit:
                out[hit[0]] = [key, cells]
            else:
                out.append([key, cells])
        return out
    if op == "colnames":
        # positional: column i keeps its values and gets names[i]
        return [[new, fit(0, old, n0)] for old, new in zip(names(F[0]), case["names"])]
    if op == "select":
        out = []
        for nm in case["cols"]:
            if nm not in [o[0] for o in out]:
                out.append([nm, fit(0, nm, n0)])
        return out
    if op == "unselect":
        return [[nm, fit(0, nm, n0)] for nm in names(F[0]) if nm not in case["cols"]]
    if op == "rename":
        ren = {f: t for t, f in case["to_from"]}
        out = []
        for nm in names(F[0]):
            to = ren.get(nm, nm)
            hit = [j for j, (x, _) in enumerate(out) if x == to]
            if hit:
                out[hit[0]] = [to, fit(0, nm, n0)]
            else:
                out.append([to, fit(0, nm, n0)])
        return out


def compare_layout(case, obs, layout):
    """None if the implementation's result has exactly this layout, else a description."""
    if layout == "reject":
        return None if "err" in obs else "implementation accepted what should be rejected"
    if "err" in obs:
        return f"implementation raised: {obs['err']}"
    if obs["colnames"] != [nm for nm, _ in layout]:
        return f"column names/order {obs['colnames']} != {[nm for nm, _ in layout]}"
    for nm, cells in layout:
        got, na = obs["cols"][nm], obs["na"][nm]
        if len(got) != len(cells):
            return f"column {nm}: length {len(got)} != {len(cells)}"
        for r, src in enumerate(cells):
            kind, v = source_value(case, src)
            if kind == "na":
                if not na[r]:
                    return f"column {nm} row {r}: expected a missing value, got {got[r]!r}"
            elif not cell_eq(kind, v, got[r], na[r]):
                return f"column {nm} row {r}: {got[r]!r} is not the source value {v!r}"
    return None


def judge(ctx, case, obs, mouts):
    op = case["op"]
    ctx.count(op)
    F = case["frames"]
    sets = {tuple(c["name"] for c in f["cols"]) for f in F}
    nontrivial = (len(F) >= 2 and len(sets) >= 2) if op in ("rbind", "cbind", "update") else ("err" not in obs and obs.get("colnames") != [c["name"] for c in F[0]["cols"]])
    if obs["mutated"]:
        ctx.violation("oracle", f"{op}:mutates", "an operand was modified", case, obs)
    if obs.get("result_not_plain"):
        ctx.violation("oracle", f"{op}:result-not-plain", f"the result does not behave like a plain frame (modify with a scalar raised {obs['result_not_plain']}): it carries state of its operands", case, obs)
    if obs.get("aliases"):
        ctx.violation("oracle", f"{op}:aliases", f"result columns {obs['aliases']} share memory with an operand", case, obs)
    exp = expected_layout(case)
    problem = compare_layout(case, obs, exp)
    if problem:
        if exp == "reject":
            ctx.violation("oracle", f"{op}:stores-mismatch", problem, case, obs)
        elif "err" in obs:
            ctx.violation("oracle", f"{op}:raises", problem, case, obs)
        else:
            ctx.violation("oracle", f"{op}:wrong", problem, case, obs, exp)
    if mouts:
        m = mouts[0]
        if isinstance(m, dict) and "err" in m:
            ctx.violation("correspondence", f"{op}:model-error", f"model rejected the request: {m['err']}", case, obs, m)
        else:
            p2 = compare_layout(case, obs, m)
            if p2 and not ("err" in obs and exp != "reject"):
                ctx.violation("correspondence", f"{op}:differs", f"model and implementation disagree: {p2}", case, obs, m)
    ctx.case_done(case, nontrivial)


run = common.default_run(sys.modules[__name__])
search = common.default_search(sys.modules[__name__])

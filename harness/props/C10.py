# -*- coding: utf-8 -*-
"""C10 — Vector construction and the missing-value model are coherent."""

import datetime
import itertools
import math
import sys

import numpy as np

from harness import common

LEVEL = {"partial": ["NumPy's dtype inference for a list of Python / NumPy scalars is a stand-in decision table over the set of element types present (Model/Construct.lean), validated by the same correspondence stream",
                     "element values are abstracted to (type kind, small payload); conversions of payloads by NumPy (int -> float beyond 2**53, str of numbers) are not modelled"]}
ASSUMPTIONS = ["np.array(list) infers: bool<int<float numeric promotion, any str -> unicode, date/datetime objects -> object, timedelta objects -> m8[us], bytes -> S"]
RULE = ("sequences of length 0..6 over a pool of named values (None, NaN, Python bool/int/float/str/date/datetime/timedelta/bytes/tuple, NumPy "
        "bool_/int64/float64/datetime64 (day and nanosecond)/str_ scalars), homogeneous or mixed, with and without an explicit dtype (bool, int, float, str, "
        "object, datetime64[D], datetime64[us], timedelta64[s]); laws checked on the real objects: NA mapping, is_na exactness, tolist round "
        "trip, rebuild-equal, equal reflexive/symmetric/transitive, na_dtype holds na_value, drop_na / replace_na; non-trivial = length>=2 "
        "with a missing and a non-missing element; thorough: all sequences of length<=3 over the pool x all dtype options")

class Stamp(datetime.datetime):
    """an instance of a proper subclass of datetime (what pandas.Timestamp is)"""


class Day(datetime.date):
    pass


POOL = {
    "None": None, "nan": float("nan"), "True": True, "False": False, "1": 1, "big": 2 ** 53 + 1, "1.5": 1.5, "a": "a", "empty": "",
    "date": datetime.date(2020, 1, 2), "datetime": datetime.datetime(2020, 1, 2, 3, 4, 5), "timedelta": datetime.timedelta(days=1, seconds=5),
    "bytes": b"xy", "tuple": frozenset({1}), "np.bool": np.bool_(True), "np.int": np.int64(3), "np.float": np.float64(2.5),
    "np.nan": np.float64("nan"), "np.dt": np.datetime64("2020-01-02"), "np.str": np.str_("z"),
    # extreme but non-missing floats: they are values like any other for is_na / drop_na / replace_na / equal
    "inf": float("inf"), "-inf": float("-inf"), "-0.0": -0.0, "huge": 1.7976931348623157e308,
    "stamp": Stamp(2020, 1, 2, 12, 0, 0), "day": Day(2020, 1, 3),
    # NumPy's own missing scalars: elements of a date / timedelta vector (e.g. `list(v[1:]) + [None]`) that are missing already
    "np.nat": np.datetime64("NaT"), "np.tdnat": np.timedelta64("NaT"),
    # numbers NumPy has a dtype for but the library no missing value: with a missing element next to them they stay objects
    "complex": 1 + 2j,
    # an object that compares equal to everything, None included (`unittest.mock.ANY`, a user's wildcard class): a value
    "any": __import__("unittest.mock").mock.ANY,
    # NumPy datetime scalars finer than Python's datetime can hold (what pandas and np.datetime64(..., "ns") hand out): two
    # instants inside the same microsecond; tolist has to give back something from which exactly these are rebuilt
    "np.dtns": np.datetime64("2020-01-01T00:00:00.123456789"), "np.dtns2": np.datetime64("2020-01-01T00:00:00.123456001"),
}
NAT_NAMES = ("np.nat", "np.tdnat", "complex", "np.dtns", "np.dtns2")
KIND = {"None": "none", "nan": "nan", "True": "bool", "False": "bool", "1": "int", "big": "int", "1.5": "float", "a": "str", "empty": "str",
        "date": "date", "datetime": "datetime", "timedelta": "timedelta", "bytes": "bytes", "tuple": "obj", "np.bool": "npbool",
        "np.int": "npint", "np.float": "npfloat", "np.nan": "npnan", "np.dt": "npdt", "np.str": "npstr",
        "inf": "float", "-inf": "float", "-0.0": "float", "huge": "float", "stamp": "datesub", "day": "datesub", "np.nat": "npnat", "np.tdnat": "nptdnat", "complex": "complex", "any": "obj",
        "np.dtns": "npdtns", "np.dtns2": "npdtns"}
DTYPES = [None, "bool", "int", "float", "str", "object", "datetime64[D]", "datetime64[us]", "timedelta64[s]", "StringDType()"]
FAMILIES = [["True", "False"], ["1", "big"], ["1.5", "1"], ["a", "empty"], ["date"], ["datetime"], ["timedelta"], ["bytes"], ["tuple", "1"],
            ["np.bool"], ["np.int"], ["np.float", "np.nan"], ["np.dt"], ["np.str"], ["True", "1"], ["1", "a"], ["date", "datetime"],
            ["True", "1.5"], ["a", "1.5"], ["1.5", "inf", "-inf"], ["inf", "-0.0", "huge", "1"],
            ["stamp"], ["day"], ["stamp", "datetime"], ["day", "date"],
            ["np.nat"], ["np.nat"], ["np.nat", "np.dt"], ["np.nat", "date"], ["np.tdnat"], ["date", "1"], ["date", "a"], ["datetime", "1.5"], ["date", "timedelta"], ["any", "1"], ["any", "a"], ["any"], ["complex"], ["complex", "1.5"], ["complex", "1"],
            ["np.dtns", "np.dtns2"], ["np.dtns"], ["np.dtns2", "np.dt"]]


def gen_case(rng, tier):
    n = rng.choice([0, 1, 2, 3, 4, 6])
    fam = list(rng.choice(FAMILIES))
    if rng.random() < 0.15:
        fam = rng.sample([k for k in POOL if k not in NAT_NAMES], rng.randint(1, 3))
    na = rng.random()
    names = []
    for _ in range(n):
        r = rng.random()
        if r < 0.25 * (na > 0.3):
            names.append(rng.choice(["None", "None", "nan"]))
        else:
            names.append(rng.choice(fam))
    if rng.random() < 0.08:
        names = [rng.choice(["None", "nan"]) for _ in range(n)]
    dtype = rng.choice([None, None, None] + DTYPES)
    if any(n in NAT_NAMES for n in names):
        dtype = None          # (judged by the laws on the real object only: the kind-level model has no NaT scalar)
    return {"op": "construct", "names": names, "dtype": dtype}


def gen_cases(ctx):
    rng = ctx.rng
    cases = [
        {"op": "construct", "names": ["np.bool", "None"], "dtype": None},
        {"op": "construct", "names": ["None", "a"], "dtype": None},
        {"op": "construct", "names": ["nan", "nan"], "dtype": None},
        {"op": "construct", "names": [], "dtype": None},
        {"op": "construct", "names": ["1", "None"], "dtype": "int"},
        {"op": "construct", "names": ["timedelta", "None"], "dtype": None},
    ]
    n = 900 if ctx.tier == "quick" else 8000
    for _ in range(n):
        cases.append(gen_case(rng, ctx.tier))
    if ctx.tier == "thorough":
        pool = ["None", "nan", "True", "1", "1.5", "a", "empty", "date", "datetime", "timedelta", "np.bool", "np.int", "np.float", "np.dt"]
        for ln in range(0, 4):
            for names in itertools.product(pool, repeat=ln):
                for dt in DTYPES:
                    cases.append({"op": "construct", "names": list(names), "dtype": dt})
    return cases


def np_dtype(name):
    import dataiter as di
    if name is None:
        return None
    if name == "StringDType()":
        # a variable-width string dtype that is NOT dataiter's own instance (what `astype("T")`, pyarrow or a caller's own
        # `StringDType()` give): a string vector like any other
        return np.dtypes.StringDType()
    return {"bool": bool, "int": int, "float": float, "str": str, "object": object}.get(name, name)


def dclass(v):
    import dataiter as di
    if v.is_string():
        return "str"
    if v._is_string_fixed():
        return "ustr"
    if v.is_boolean():
        return "bool"
    if v.is_timedelta():
        return "timedelta"
    if v.is_integer():
        return "int"
    if v.is_float():
        return "float"
    if v.is_datetime():
        return "date" if str(v.dtype) == "datetime64[D]" else "datetime"
    if v.is_bytes():
        return "bytes"
    if v.is_object():
        return "object"
    return str(v.dtype)


def is_missing_input(name):
    return KIND[name] in ("none", "nan", "npnan", "npnat", "nptdnat")


def pyeq(a, b):
    """original value vs tolist value (widening allowed)."""
    if a is None or b is None:
        return a is None and b is None
    try:
        if isinstance(a, np.datetime64) and np.datetime_data(a.dtype)[0] in ("ns", "ps", "fs", "as"):
            # finer than Python's datetime: the element comes back as the integer tick count NumPy gives, or as something that
            # denotes exactly the same instant
            if isinstance(b, int) and not isinstance(b, bool):
                return int(a.astype("int64")) == b
            return bool(np.datetime64(b) == a)
        if isinstance(a, np.datetime64) and isinstance(b, int) and not isinstance(b, bool):
            # a coarser scalar stored next to nanosecond ones: the same instant counted in nanoseconds
            return int(a.astype("datetime64[ns]").astype("int64")) == b
        if isinstance(a, (np.datetime64,)):
            a = a.astype("datetime64[us]").astype(object)
        if isinstance(b, (np.datetime64,)):
            b = b.astype("datetime64[us]").astype(object)
        if isinstance(a, datetime.datetime) and isinstance(b, datetime.date) and not isinstance(b, datetime.datetime):
            b = datetime.datetime(b.year, b.month, b.day)
        if isinstance(b, datetime.datetime) and isinstance(a, datetime.date) and not isinstance(a, datetime.datetime):
            a = datetime.datetime(a.year, a.month, a.day)
        if isinstance(a, int) and not isinstance(a, bool) and isinstance(b, float):
            return float(a) == b          # documented widening (precision beyond 2**53 is lost)
        r = a == b
        return bool(r) if not hasattr(r, "all") else bool(r.all())
    except Exception:
        return False


COMPAT = {"bool": {"bool", "npbool"}, "int": {"int", "npint", "bool", "npbool"}, "float": {"float", "npfloat", "int", "npint"},
          "str": {"str", "npstr"}, "ustr": {"str", "npstr"}, "date": {"date", "npdt"}, "datetime": {"datetime", "date", "npdt", "npdtns"},
          "timedelta": {"timedelta"}, "bytes": {"bytes"},
          "object": {"bool", "int", "float", "str", "date", "datetime", "timedelta", "bytes", "obj", "npbool", "npint", "npfloat", "npdt", "npstr", "complex", "npdtns"}}


def compatible(name, dclass):
    """is the element stored as itself (no cross-kind coercion by NumPy / an explicit dtype)?"""
    return KIND[name] in COMPAT.get(dclass, set())


def impl(case):
    import dataiter as di
    vals = [POOL[n] for n in case["names"]]
    res = {}
    try:
        arg = list(vals)
        v = di.Vector(arg, np_dtype(case["dtype"]))
    except Exception as e:
        return {"err": f"{type(e).__name__}: {e}"}
    # the caller's list is an argument: the same objects at the same positions afterwards (a second vector built from it sees
    # what the first one saw)
    res["arg_unchanged"] = len(arg) == len(vals) and all(a is b for a, b in zip(arg, vals))
    from harness import warm
    if warm.ENABLED:
        warm.vector_through_history(v)
    res["dclass"] = dclass(v)
    res["dtype"] = str(v.dtype)
    res["ndim"] = int(v.ndim)
    laws = {}
    try:
        na = [bool(x) for x in v.is_na()]
        res["na"] = na
        tl = v.tolist()
        res["tolist_none"] = [x is None for x in tl]
        laws["tolist_values"] = all(pyeq(a, b) for a, b, m, nm in zip(vals, tl, na, case["names"]) if not m and compatible(nm, res["dclass"]))
        laws["tolist_len"] = len(tl) == len(vals)
        try:
            w = di.Vector(tl, v.dtype)
            laws["rebuild_equal"] = bool(w.equal(v))
        except Exception as e:
            laws["rebuild_equal"] = f"raises {type(e).__name__}: {e}"
        laws["equal_reflexive"] = bool(v.equal(v))
        c = v.copy()
        laws["equal_symmetric"] = bool(v.equal(c)) == bool(c.equal(v)) and bool(c.equal(v))
        nav = v.na_value
        res["na_value"] = "nan" if isinstance(nav, float) and nav != nav else "nat" if isinstance(nav, (np.datetime64, np.timedelta64)) else repr(nav)
        res["na_dtype"] = str(np.dtype(v.na_dtype)) if not isinstance(v.na_dtype, np.dtypes.StringDType) else "str"
        if len(v) >= 1:
            try:
                w = v.astype(v.na_dtype)
                w[0] = v.na_value
                laws["na_dtype_holds_na"] = bool(w.is_na()[0])
            except Exception as e:
                laws["na_dtype_holds_na"] = f"raises {type(e).__name__}: {e}"
        d = v.drop_na()
        laws["drop_na"] = len(d) == sum(not m for m in na) and not any(bool(x) for x in d.is_na()) and \
            all(pyeq(a, b) for a, b in zip([x for x, m in zip(tl, na) if not m], d.tolist()))
        fill = {"str": "zz", "ustr": "z", "float": 9.5, "int": 9, "bool": True, "object": "fill", "bytes": b"q"}.get(res["dclass"])
        if fill is None and res["dclass"] in ("date", "datetime"):
            fill = np.datetime64("2001-01-01")
        if fill is None and res["dclass"] == "timedelta":
            fill = np.timedelta64(7, "s")
        if str(v.dtype) in ("datetime64", "timedelta64"):
            # an all-missing vector built from NaT scalars has NumPy's GENERIC unit: NumPy refuses to put any value that has a
            # unit into it ("Cannot convert from specific units to generic units"): there is no fill value to try
            fill = None
        r = v.replace_na(fill) if fill is not None else v.copy()
        rl = r.tolist() if fill is not None else [0] * len(v)
        laws["replace_na"] = fill is None or (len(r) == len(v) and not any(bool(x) for x in r.is_na()) and
                                              all((pyeq(a, b) if not m else True) for a, b, m in zip(tl, rl, na)))
        laws["receiver_unchanged"] = [bool(x) for x in v.is_na()] == na
        # equal agrees with the ELEMENTS: a copy in which one non-missing element is another value (a string with a
        # character appended, a number one larger, the other boolean, the next day) is not equal, whichever side is asked
        pos = [i for i, m_ in enumerate(na) if not m_]
        if pos and res["dclass"] in ("str", "int", "float", "bool", "date", "datetime"):
            i = pos[len(pos) // 2]
            w = v.copy()
            try:
                if res["dclass"] == "str":
                    w[i] = str(v[i]) + "X"
                elif res["dclass"] == "bool":
                    w[i] = not bool(v[i])
                elif res["dclass"] in ("date", "datetime"):
                    w[i] = v[i] + np.timedelta64(1, "D")
                elif res["dclass"] == "float" and not np.isfinite(v[i]):
                    w[i] = 0.5
                else:
                    w[i] = v[i] + 1
                differs = not bool(w[i] == v[i])
            except Exception:
                differs = False
            if differs:
                laws["equal_sees_elements"] = (not bool(v.equal(w))) and (not bool(w.equal(v)))
        if case["dtype"] is None and "nan" in case["names"] and not any(n in NAT_NAMES for n in case["names"]):
            # the two spellings of a missing element in a Python list, None and float NaN, denote the same thing: the same
            # list with NaN written as None gives the same kind of vector, missing at the same positions
            try:
                v2 = di.Vector([None if n == "nan" else POOL[n] for n in case["names"]])
                laws["nan_none_same"] = (dclass(v2) == res["dclass"] and [bool(x) for x in v2.is_na()] == na
                                         and [x is None for x in v2.tolist()] == res["tolist_none"]) or \
                    f"with NaN: {res['dclass']} {na}; with None: {dclass(v2)} {[bool(x) for x in v2.is_na()]}"
            except Exception as e:
                laws["nan_none_same"] = f"raises {type(e).__name__}: {e}"
    except Exception as e:
        res["law_err"] = f"{type(e).__name__}: {e}"
    res["laws"] = laws
    return res


def model_requests(case, obs):
    if any(n in NAT_NAMES for n in case["names"]):
        return []
    return [("construct", {"kinds": [KIND[n] for n in case["names"]], "empties": [n == "empty" for n in case["names"]],
                           "dtype": "str" if case["dtype"] == "StringDType()" else case["dtype"]})]


def expected_na_capable(case):
    """does the property claim the NA mapping for this case? (inferred dtypes; explicit dtypes that
    have a missing value or widen to one)"""
    return case["dtype"] in (None, "int", "float", "str", "object", "datetime64[D]", "datetime64[us]", "timedelta64[s]", "StringDType()")


def judge(ctx, case, obs, mouts):
    names, dtype = case["names"], case["dtype"]
    ctx.count("dtype:" + str(dtype))
    kinds = {KIND[n] for n in names} - {"none", "nan", "npnan", "npnat", "nptdnat"}
    miss = [is_missing_input(n) for n in names]
    nontrivial = len(names) >= 2 and any(miss) and not all(miss)
    if "err" in obs:
        # explicit dtype that cannot represent the values (e.g. "a" as int) is a legitimate rejection
        legit = dtype is not None
        if not legit:
            ctx.violation("oracle", "construct:raises", f"Vector({names}) raised: {obs['err']}", case, obs)
        ctx.case_done(case, nontrivial)
        if mouts and not (isinstance(mouts[0], dict) and mouts[0].get("reject")) and not legit:
            pass
        return
    ctx.count("class:" + obs["dclass"])
    if obs.get("arg_unchanged") is False:
        ctx.violation("oracle", "construct:argument-changed", f"Vector({names}) changed the list it was given", case, obs)
    if kinds and kinds <= {"npbool"} and any(miss) and dtype is None:
        cls = "npbool-with-missing"
    elif obs["dclass"] == "object" and dtype is None and any(miss) and \
            ("str" in kinds or (kinds and kinds <= {"date", "datetime", "npdt"})):
        # a typed missing value ("" or NaT) was substituted, but NumPy infers object for the mixture
        cls = "mixed-object-with-typed-sentinel"
    elif "npstr" in kinds and len(kinds) >= 2 and any(miss) and dtype is None:
        # np.str_ is a str subclass but not the class str: "" is not chosen, yet the string dtype is
        cls = "npstr-mixture-with-missing"
    else:
        cls = "other"
    if obs["ndim"] != 1:
        ctx.violation("oracle", "construct:not-1d", "Vector is not one-dimensional", case, obs)
    if "law_err" in obs:
        ctx.violation("oracle", "laws:raises", f"a Vector method raised on the constructed vector: {obs['law_err']}", case, obs)
    else:
        na = obs["na"]
        if expected_na_capable(case):
            lost = [i for i, m in enumerate(miss) if m and not na[i]]
            if lost:
                ctx.violation("oracle", f"na-mapping:lost:{cls}", f"None/NaN at positions {lost} did not become missing values (dtype {obs['dtype']})", case, obs)
            extra = [i for i, m in enumerate(miss) if not m and na[i] and compatible(names[i], obs["dclass"])
                     and not (names[i] == "empty" and obs["dclass"] in ("str", "ustr"))]
            if extra:
                ctx.violation("oracle", "is_na:extra", f"is_na flags non-missing positions {extra}", case, obs)
            if [i for i, t in enumerate(obs["tolist_none"]) if t] != [i for i, m in enumerate(na) if m]:
                ctx.violation("oracle", "tolist:none-positions", "tolist does not have None exactly at the missing positions", case, obs)
            # the NA representative of the inferred type
            if dtype is None and any(miss) and not lost:
                want = None
                if kinds and kinds <= {"int", "float", "npint", "npfloat"}:
                    want = "float"
                elif kinds and kinds <= {"date", "datetime", "npdt"}:
                    want = ("date", "datetime")
                elif kinds and kinds <= {"str", "npstr"}:
                    want = "str"
                if want == "str":
                    want = ("str", "ustr")
                if want is not None and not (obs["dclass"] == want or obs["dclass"] in want):
                    ctx.violation("oracle", "na-mapping:type", f"missing values of {sorted(kinds)} are held in dtype {obs['dtype']}", case, obs)
        for law, ok in obs["laws"].items():
            if ok is not True:
                if law == "tolist_values" and not expected_na_capable(case):
                    continue
                ctx.violation("oracle", f"law:{law}:{cls}", f"law {law} fails: {ok!r} (dtype {obs['dtype']})", case, obs)
    if mouts:
        m = mouts[0]
        if isinstance(m, dict) and "err" in m:
            ctx.violation("correspondence", "construct:model-error", f"model rejected the request: {m['err']}", case, obs, m)
        elif isinstance(m, dict) and m.get("reject"):
            ctx.violation("correspondence", "construct:accept-differs", "model rejects, implementation accepts", case, obs, m)
        elif isinstance(m, dict) and not m.get("unknown"):
            if m["dclass"] != obs["dclass"]:
                ctx.violation("correspondence", "construct:dtype-differs", f"model infers {m['dclass']}, implementation {obs['dclass']}", case, obs, m)
            elif "na" in obs and m["na"] != obs["na"]:
                ctx.violation("correspondence", "construct:na-differs", "model and implementation disagree on the missing positions", case, obs, m)
    ctx.case_done(case, nontrivial)


run = common.default_run(sys.modules[__name__])
search = common.default_search(sys.modules[__name__])

# -*- coding: utf-8 -*-
"""C06 — operations neither mutate nor alias their inputs."""

import pickle
import random
import sys

import numpy as np

from harness import common, framegen, vecgen

LEVEL = {"partial": ["that NumPy really allocates where the site table says 'fresh' (.copy(), np.take, np.delete, np.concatenate, fancy indexing, astype) is observed "
                     "with np.shares_memory and in-place pokes, not proved",
                     "object cells are treated as immutable values (element objects are shared by every NumPy copy of an object array)"]}
ASSUMPTIONS = ["np.shares_memory is exact for the arrays generated (<= 40 elements)"]
RULE = ("chains of 1..6 calls over a pool of 2..3 frames and 2 vectors (float, int, bool, StringDType short/long, legacy <U, date, datetime, timedelta, "
        "object; 0..40 rows; missing values), every public non-in-place DataFrame method (aggregate, anti/semi/inner/left/full join, cbind, rbind, compare, "
        "count, deepcopy, drop_na, filter, filter_out, head, tail, sample, map, modify [vector / array / list / scalar / lambda, grouped and not], rename, "
        "select, unselect, slice, slice_off, sort, split, unique, update, to_* conversions, to_string) and Vector method (as_*, concat, drop_na, head, "
        "tail, is_na, map, range, rank, replace_na, sample, sort, unique, to_strings, tolist, equal, copy), arguments drawn from the pool; the documented "
        "exceptions (copy, group_by, item assignment / deletion / pop / colnames) are exercised and held to their documented effect; after every call: "
        "byte snapshot of every pool object, np.shares_memory of the result against every pool object, in-place poke of the result and of the operands; "
        "non-trivial = a call with a non-empty receiver that returned a new frame / vector")

FRAME_METHODS = ["select", "unselect", "rename", "filter", "filter_col", "filter_out", "filter_tracked", "filter_out_tracked", "filter_owncol", "filter_helper", "filter_helper", "slice_cols_tracked", "slice_rows_tracked", "slice", "slice_cols", "slice_off", "head", "tail", "sample", "sort", "sort2",
                 "unique", "drop_na", "count", "modify_vector", "modify_tracked", "from_pandas_tracked", "modify_array", "modify_list", "modify_scalar", "modify_lambda", "modify_lambda_col",
                 "cbind", "rbind", "rbind_self", "update", "anti_join", "semi_join", "inner_join", "left_join", "full_join", "compare", "group_by", "aggregate",
                 "modify_grouped", "split", "map", "deepcopy", "copy", "to_list_of_dicts", "to_json", "to_pandas", "to_arrow", "to_string",
                 "setitem", "delitem", "pop", "colnames"]
VECTOR_METHODS = ["as_boolean", "as_float", "as_integer", "as_object", "as_string", "as_bytes", "as_date", "as_datetime", "concat", "concat_self", "drop_na",
                  "head", "tail", "is_na", "map", "range", "rank_min", "rank_max", "rank_ordinal", "replace_na", "sample", "sort", "sort_desc", "unique",
                  "to_strings", "tolist", "equal", "copy", "get_memory_use", "helper", "helper"]
HELPER_CALLS = ["all", "any", "count", "count_unique", "first", "last", "max", "mean", "median", "min", "mode", "nth", "quantile", "std", "sum", "var"]
IN_PLACE = {"setitem", "delitem", "pop", "colnames"}


def gen_case(rng, tier):
    same_n = rng.random() < 0.7
    n0 = rng.choice([0, 1, 2, 3, 5, 8, 8, 40 if tier == "thorough" else 12])
    frames = []
    for _ in range(rng.choice([2, 2, 3])):
        n = n0 if same_n else rng.choice([0, 1, 2, 4, 7])
        spec = framegen.gen_frame(rng, tier, nrows=n, ncols=rng.choice([1, 2, 3, 4]))
        names = rng.sample(["a", "b", "c", "d", "e", "f"], len(spec["cols"]))
        for c, nm in zip(spec["cols"], names):
            c["name"] = nm
        frames.append(spec)
    # make joins / updates plausible: share a key column definition between frames 0 and 1 sometimes
    if rng.random() < 0.6 and frames[0]["cols"] and frames[1]["cols"]:
        k = dict(frames[0]["cols"][0])
        k["vals"] = vecgen.gen_vals(rng, k["kind"], frames[1]["n"])
        if k["kind"] == "date" and rng.random() < 0.6:
            # the same key as timestamps on the other side (a date column joined with a datetime column)
            k["kind"] = "datetime"
            k["vals"] = [None if v is None else v * 86400000000 for v in k["vals"]]
        frames[1]["cols"] = [k] + [c for c in frames[1]["cols"] if c["name"] != k["name"]][:3]
    # object columns with unusual elements: a float NaN as an element, lists as elements
    for spec in frames:
        if spec["cols"] and rng.random() < 0.3:
            c = rng.choice(spec["cols"])
            c["kind"] = rng.choice(["objnan", "objlist"])
            c["vals"] = vecgen.gen_vals(rng, c["kind"], spec["n"])
    vectors = []
    for _ in range(2):
        kind = rng.choice(framegen.FRAME_KINDS + ["ustr"]) if rng.random() < 0.8 else rng.choice(["objnan", "objlist"])
        n = n0 if same_n else rng.choice([0, 1, 3, 6])
        vectors.append({"kind": kind, "vals": vecgen.gen_vals(rng, kind, n)})
    steps = []
    for _ in range(rng.choice([1, 2, 3, 4, 6])):
        if rng.random() < 0.7:
            steps.append({"on": "frame", "recv": rng.randint(0, 9), "m": rng.choice(FRAME_METHODS), "r": rng.randint(0, 10 ** 9)})
        else:
            steps.append({"on": "vector", "recv": rng.randint(0, 9), "m": rng.choice(VECTOR_METHODS), "r": rng.randint(0, 10 ** 9)})
    return {"op": "chain", "frames": frames, "vectors": vectors, "steps": steps}


def gen_cases(ctx):
    rng = ctx.rng
    cases = [
        # minimised past failures / documented hazards first
        {"op": "chain", "frames": [{"n": 3, "cols": [{"name": "a", "kind": "ustr", "vals": ["b", "", "a"]}, {"name": "b", "kind": "int", "vals": [1, 2, 3]}]},
                                   {"n": 3, "cols": [{"name": "a", "kind": "ustr", "vals": ["a", "b", ""]}]}],
         "vectors": [{"kind": "float", "vals": [1.0, 2.0, 3.0]}, {"kind": "str", "vals": ["x", "", "z"]}],
         "steps": [{"on": "frame", "recv": 0, "m": "sort", "r": 1}, {"on": "frame", "recv": 0, "m": "count", "r": 2},
                   {"on": "frame", "recv": 0, "m": "modify_vector", "r": 3}, {"on": "frame", "recv": 0, "m": "group_by", "r": 4},
                   {"on": "frame", "recv": 0, "m": "aggregate", "r": 5}]},
    ]
    # every frame method, once per run at least, on frames made of object columns with unusual elements (a float NaN kept
    # as an element, lists as elements) — such columns take the generic element-wise paths of the library
    reps = 4 if ctx.tier == "quick" else 24
    for rep in range(reps):
        for j in range(0, len(FRAME_METHODS), 2):
            nrow = rng.choice([3, 4, 6])
            mk = lambda kinds: {"n": nrow, "cols": [{"name": nm, "kind": k, "vals": vecgen.gen_vals(rng, k, nrow)} for nm, k in zip("abc", kinds)]}
            frames = [mk(rng.sample(["objlist", "objnan", "int", "objlist"], 3)), mk(rng.sample(["objlist", "objnan", "str"], 3))]
            for f in frames:        # at least one non-missing unusual element per object column
                for c in f["cols"]:
                    if c["kind"] == "objlist" and not any(isinstance(v, list) for v in c["vals"]):
                        c["vals"][0] = ["a", "b"]
                    if c["kind"] == "objnan" and "nan" not in c["vals"]:
                        c["vals"][-1] = "nan"
            steps = [{"on": "frame", "recv": rng.randint(0, 1), "m": m, "r": rng.randint(0, 10 ** 9)} for m in FRAME_METHODS[j:j + 2]]
            cases.append({"op": "chain", "frames": frames, "vectors": [{"kind": "objnan", "vals": vecgen.gen_vals(rng, "objnan", nrow)[:-1] + ["nan"]},
                                                                        {"kind": "objlist", "vals": vecgen.gen_vals(rng, "objlist", nrow)}], "steps": steps})
    # every conversion on a vector that ALREADY has the dtype asked for (prices.as_float() on a float column: the usual
    # defensive call before arithmetic): still a new vector, sharing nothing with the receiver — then edited in place
    same = [("float", "as_float"), ("int", "as_integer"), ("bool", "as_boolean"), ("str", "as_string"), ("date", "as_date"), ("datetime", "as_datetime"),
            ("objint", "as_object"), ("objstr", "as_object")]
    for kind, m in same:
        vals = ([v for v in vecgen.POOLS[kind] if not vecgen.is_na_val(kind, v)] * 2)[:4]
        other = {"kind": "int", "vals": [1, 2, 3, 4]}
        for chain in ([m], [m, m], [m, "copy"], ["copy", m]):
            cases.append({"op": "chain", "frames": [{"n": 4, "cols": [{"name": "a", "kind": kind, "vals": vals}, {"name": "b", "kind": "int", "vals": [1, 2, 3, 4]}]}],
                          "vectors": [{"kind": kind, "vals": vals}, other],
                          "steps": [{"on": "vector", "recv": 0, "m": s, "r": 11 + i} for i, s in enumerate(chain)]})
    # every aggregation helper in its vector form on an UNSORTED vector of every kind (a helper that sorts or partitions in
    # place shows only there), and inside the callables of filter / modify on a frame with such columns
    for kind in ["int", "bool", "float", "date", "datetime", "timedelta", "str", "objint"]:
        vals = [v for v in vecgen.POOLS[kind] if not vecgen.is_na_val(kind, v)][:5]
        vals = (vals[::-1] + vals[1:2] + vals[:1])[:6] if len(vals) >= 2 else vals * 3
        withna = vals[:3] + [[v for v in vecgen.POOLS[kind] if vecgen.is_na_val(kind, v)] or vals[:1]][0][:1] + vals[3:]
        for chunk in range(0, len(HELPER_CALLS), 4):
            steps = []
            for j, h in enumerate(HELPER_CALLS[chunk:chunk + 4]):
                for recv in (0, 1):
                    steps.append({"on": "vector", "recv": recv, "m": "helper", "r": 1000 + j, "helper": h})
            cases.append({"op": "chain", "frames": [{"n": len(vals), "cols": [{"name": "a", "kind": kind, "vals": vals}, {"name": "b", "kind": "int", "vals": list(range(len(vals)))[::-1]}]}],
                          "vectors": [{"kind": kind, "vals": vals}, {"kind": kind, "vals": withna}], "steps": steps})
    for kind in ["int", "bool", "float"]:
        vals = [v for v in vecgen.POOLS[kind] if not vecgen.is_na_val(kind, v)][:5][::-1] * 2
        cases.append({"op": "chain", "frames": [{"n": len(vals), "cols": [{"name": "a", "kind": kind, "vals": vals}]}], "vectors": [{"kind": kind, "vals": vals}, {"kind": kind, "vals": vals}],
                      "steps": [{"on": "frame", "recv": 0, "m": "filter_helper", "r": r} for r in range(24)]})
    # every frame method on a GROUPED receiver and with a GROUPED argument (group_by marks a frame for the rest of its life):
    # whether the call returns or refuses, both keep their grouping — two frames with repeated key values, so that the calls
    # that demand unique keys (compare) do refuse
    for m in FRAME_METHODS:
        if m in ("group_by",):
            continue
        fr = lambda: {"n": 4, "cols": [{"name": "a", "kind": "int", "vals": [1, 1, 2, 2]}, {"name": "b", "kind": "str", "vals": ["x", "y", "x", "y"]},
                                        {"name": "c", "kind": "float", "vals": [0.5, 1.5, 0.5, 2.5]}]}
        for who in (0, 1):
            cases.append({"op": "chain", "frames": [fr(), fr()], "vectors": [{"kind": "int", "vals": [1, 2, 3, 4]}, {"kind": "float", "vals": [0.5, 1.5, 2.5, 3.5]}],
                          "steps": [{"on": "frame", "recv": who, "m": "group_by", "r": 5}, {"on": "frame", "recv": 0, "m": m, "r": 7 + who}]})
    n = 400 if ctx.tier == "quick" else 6000
    for _ in range(n):
        cases.append(gen_case(rng, ctx.tier))
    return cases


# ---------------------------------------------------------------- observation

_poke_counter = [0]


def arrays_of(obj):
    import dataiter as di
    if isinstance(obj, di.DataFrame):
        return [np.asarray(v) for v in dict.values(obj)]
    return [np.asarray(obj)]


def snap_array(a):
    a = np.asarray(a)
    if a.dtype == object or a.dtype.kind == "T":
        return (str(a.dtype), a.shape, pickle.dumps(a.tolist()))
    return (str(a.dtype), a.shape, a.tobytes())


def snap(obj):
    import dataiter as di
    if isinstance(obj, di.DataFrame):
        return ([(k, snap_array(v)) for k, v in dict.items(obj)], tuple(getattr(obj, "_group_colnames", ())))
    return snap_array(obj)


def snap_columns(obj):
    s = snap(obj)
    return s[0] if isinstance(s, tuple) and isinstance(s[0], list) else s


def poke(obj):
    """write a fresh value into every element of every array of obj, in place."""
    done = False
    for a in arrays_of(obj):
        if a.size == 0:
            continue
        _poke_counter[0] += 1
        c = _poke_counter[0]
        k = a.dtype.kind
        try:
            if k == "b":
                a[:] = ~a
            elif k in "iu":
                a[:] = a ^ 1
            elif k == "f":
                a[:] = 1000.5 + c
            elif k == "M":
                a[:] = np.datetime64("1999-09-09") + np.timedelta64(c % 300, "D")
            elif k == "m":
                a[:] = np.timedelta64(7000 + c, "s")
            elif k == "U":
                a[:] = chr(0x100 + c % 500)
            elif k == "S":
                a[:] = bytes([33 + c % 90])
            elif k == "O":
                a[:] = f"POKE{c}"
            else:
                a[:] = f"POKE{c}"
            done = True
        except (ValueError, TypeError):
            pass
    return done


def shares(x, y):
    for a in arrays_of(x):
        for b in arrays_of(y):
            if a.size and b.size and np.shares_memory(a, b):
                return True
    return False


class Entry:
    def __init__(self, obj, kind, group, origin):
        self.obj, self.kind, self.group, self.origin = obj, kind, group, origin
        self.snap = snap(obj)


def pick_value(rng, kind_char, n):
    return {"b": True, "i": 7, "u": 7, "f": 2.5, "M": np.datetime64("2001-01-01"), "m": np.timedelta64(5, "s"), "U": "q", "T": "qq", "O": "obj"}.get(kind_char, 1)


step_helper = [None]      # the helper a directed step names (None: drawn from the step's own rng)
CALLBACK_SHARES = []
CONVERSION_SHARES = []
ARG_MUTATED = []


def call_frame(rng, df, m, pool):
    """returns (description, thunk result, indices of pool entries used as arguments)."""
    import dataiter as di
    cols = list(df.colnames)
    frames = [(i, e) for i, e in enumerate(pool) if e.kind == "frame" and e.obj is not df]
    vectors = [(i, e) for i, e in enumerate(pool) if e.kind == "vector"]
    n = df.nrow
    some = lambda k=None: rng.sample(cols, rng.randint(1, len(cols)) if k is None else min(k, len(cols))) if cols else []
    one = lambda: rng.choice(cols) if cols else "a"
    newname = lambda: rng.choice(["x", "y", "z"] + cols[:1])
    other = lambda: rng.choice(frames) if frames else (None, None)
    if m == "select":
        s = some(); return f"select{s}", df.select(*s), []
    if m == "unselect":
        s = some(); return f"unselect{s}", df.unselect(*s), []
    if m == "rename":
        c = one(); return f"rename(r0={c})", df.rename(r0=c), []
    if m == "filter":
        mask = np.array([rng.random() < 0.5 for _ in range(n)], dtype=bool); return "filter(mask)", df.filter(mask), []
    if m == "filter_col":
        c = one(); v = df[c][0] if n else 0; return f"filter({c}=first)", df.filter(**{c: v}), []
    if m in ("filter_tracked", "filter_out_tracked"):
        # the caller's own mask object (kept, and looked at again afterwards), together with a column=value pair
        mask = np.array([rng.random() < 0.7 for _ in range(n)], dtype=bool).view(di.Vector)
        kept = mask.copy()
        c = one(); v = df[c][0] if n else 0
        f = df.filter if m == "filter_tracked" else df.filter_out
        form = rng.choice(["vector", "lambda"])
        out = f(mask, **{c: v}) if form == "vector" else f(lambda x: mask, **{c: v})
        # (the mask is looked at here rather than put into the pool: the heap model numbers the pool objects)
        if not np.array_equal(np.asarray(mask), np.asarray(kept)):
            ARG_MUTATED.append(f"{form} mask")
        if isinstance(out, di.DataFrame) and any(np.shares_memory(col, mask) for col in out.values()):
            ARG_MUTATED.append(f"{form} mask shared with the result")
        return f"{m}({form} mask, {c}=first)", out, []
    if m == "filter_owncol":
        # a boolean column of the receiver itself as the condition, together with a column=value pair
        bools = [c for c in cols if df[c].dtype == bool]
        c = one(); v = df[c][0] if n else 0
        if not bools:
            return "filter(no bool column)", df.filter(**{c: v}), []
        b = rng.choice(bools)
        form = rng.choice(["column", "lambda"])
        out = df.filter(df[b], **{c: v}) if form == "column" else df.filter(lambda x: x[b], **{c: v})
        return f"filter[{form}]({b}, {c}=first)", out, []
    if m == "filter_helper":
        # the documented idiom `data.filter(lambda x: x.n > di.median(x.n))` / `modify(dev=lambda x: x.n - di.mean(x.n))`:
        # the callable is handed the receiver; a helper summarising one of its columns must leave that column alone
        num = [c for c in cols if df[c].dtype.kind in "iufb"]
        if not num:
            return "filter_helper(no numeric column)", None, []
        c = rng.choice(num); h = rng.choice(["median", "mean", "max", "min", "quantile", "std", "sum", "mode", "first", "count_unique"])
        f = (lambda col: di.quantile(col, 0.5)) if h == "quantile" else getattr(di, h)
        if rng.random() < 0.5:
            df.filter(lambda x: x[c] >= f(x[c]))
        else:
            df.modify(dev=lambda x: x[c] * 0 + (1 if f(x[c]) is not None else 0))
        return f"filter/modify(lambda using di.{h}(x.{c}))", None, []
    if m == "filter_out":
        mask = np.array([rng.random() < 0.5 for _ in range(n)], dtype=bool); return "filter_out(mask)", df.filter_out(mask), []
    if m == "slice":
        rows = [rng.randrange(n) for _ in range(rng.randint(0, 4))] if n else []; return f"slice({rows})", df.slice(rows), []
    if m == "slice_cols":
        ci = [rng.randrange(len(cols)) for _ in range(rng.randint(1, 2))] if cols else []; return f"slice(cols={ci})", df.slice(cols=ci), []
    if m in ("slice_cols_tracked", "slice_rows_tracked"):
        # an index VECTOR the caller keeps (ndarray / Vector, with negative entries) for rows or columns, in slice and slice_off
        k = len(cols) if m == "slice_cols_tracked" else n
        if not k:
            return f"{m}(nothing to index)", None, []
        idx = np.array([rng.randrange(-k, k) for _ in range(rng.randint(1, 3))], dtype=np.int64)
        arg = idx if rng.random() < 0.5 else idx.view(di.Vector)
        kept = idx.copy()
        f = rng.choice([df.slice, df.slice_off])
        try:
            out = f(cols=arg) if m == "slice_cols_tracked" else f(rows=arg)
        finally:
            if not np.array_equal(np.asarray(arg), kept):
                ARG_MUTATED.append(f"index vector {kept.tolist()} -> {np.asarray(arg).tolist()}")
        if isinstance(out, di.DataFrame) and any(np.shares_memory(col, idx) for col in out.values()):
            ARG_MUTATED.append("index vector shared with the result")
        return f"{f.__name__}({'cols' if m == 'slice_cols_tracked' else 'rows'}={kept.tolist()})", out, []
    if m == "slice_off":
        rows = sorted({rng.randrange(n) for _ in range(rng.randint(0, 3))}) if n else []; return f"slice_off({rows})", df.slice_off(rows), []
    if m in ("head", "tail", "sample"):
        k = rng.choice([0, 1, 2, 5]); return f"{m}({k})", getattr(df, m)(k), []
    if m == "sort":
        c = one(); d = rng.choice([1, -1]); return f"sort({c}={d})", df.sort(**{c: d}), []
    if m == "sort2":
        s = some(2); kw = {c: rng.choice([1, -1]) for c in s}; return f"sort({kw})", df.sort(**kw), []
    if m == "unique":
        s = some(2); return f"unique{s}", df.unique(*s), []
    if m == "drop_na":
        s = some(2); return f"drop_na{s}", df.drop_na(*s), []
    if m == "count":
        s = some(2); return f"count{s}", df.count(*s), []
    if m == "modify_vector":
        cand = [(i, e) for i, e in vectors if e.obj.length == n] or vectors
        i, e = rng.choice(cand); nm = newname(); return f"modify({nm}=pool[{i}])", df.modify(**{nm: e.obj}), [i]
    if m == "modify_tracked":
        # the caller's own array / vector (kept, and looked at again afterwards) as a new column: object arrays with a float NaN
        # or list elements, floats with NaN, strings with blanks — by modify and by the constructor
        kind = rng.choice(["objnan", "objnan", "objlist", "float", "str", "objstr"])
        k = rng.choice([n, n, 1]) if n else 0
        arr = vecgen.make_array(kind, vecgen.gen_vals(rng, kind, k))
        form = rng.choice(["ndarray", "vector"])
        arg = arr if form == "ndarray" else arr.view(di.Vector)
        kept = pickle.dumps(arr.tolist())
        how = rng.choice(["modify", "constructor"])
        nm = newname()
        try:
            out = df.modify(**{nm: arg}) if how == "modify" else di.DataFrame(**{nm: arg})
        finally:
            if pickle.dumps(np.asarray(arg).tolist()) != kept:
                ARG_MUTATED.append(f"{form} of kind {kind} given to {how}")
        if isinstance(out, di.DataFrame) and any(np.shares_memory(col, arr) for col in out.values()):
            ARG_MUTATED.append(f"{form} of kind {kind} shared with the result of {how}")
        return f"{how}({nm}={form}:{kind})", out, []
    if m == "from_pandas_tracked":
        # a pandas frame the caller keeps (with a named index, a MultiIndex, or the default one) handed to from_pandas:
        # the returned frame is new, the argument is as it was — columns, index, values
        import pandas as pd
        try:
            pdf = df.to_pandas()
        except Exception:
            return "from_pandas(unconvertible)", None, []
        form = rng.choice(["named-index", "set_index", "multi", "default"])
        if form == "named-index":
            pdf.index.name = "k"
        elif form == "set_index" and len(pdf.columns) >= 2:
            pdf = pdf.set_index(pdf.columns[0])
        elif form == "multi" and len(pdf.columns) >= 3:
            pdf = pdf.set_index(list(pdf.columns[:2]))
        image = lambda: (list(map(str, pdf.columns)), list(pdf.index.names), repr(pdf.index.tolist()), repr(pdf.to_dict("list")), pdf.shape)
        kept = image()
        try:
            out = di.DataFrame.from_pandas(pdf)
        finally:
            if image() != kept:
                ARG_MUTATED.append(f"pandas frame ({form}) given to from_pandas: {kept[:2]} -> {image()[:2]}")
        return f"from_pandas({form})", out, []
    if m == "modify_array":
        nm = newname(); return f"modify({nm}=ndarray)", df.modify(**{nm: np.arange(n, dtype=float)}), []
    if m == "modify_list":
        nm = newname(); return f"modify({nm}=list)", df.modify(**{nm: ["s"] * n}), []
    if m == "modify_scalar":
        nm = newname(); return f"modify({nm}=1)", df.modify(**{nm: 1}), []
    if m == "modify_lambda":
        nm = newname(); c = one(); return f"modify({nm}=lambda x: x.{c})", df.modify(**{nm: lambda x: x[c]}), []
    if m == "modify_lambda_col":
        nm = newname(); c = one(); return f"modify({nm}=lambda x: x.{c}.head(n))", df.modify(**{nm: lambda x: x[c].head(x.nrow)}), []
    if m == "cbind":
        i, e = other(); return f"cbind(pool[{i}])", df.cbind(e.obj), [i]
    if m == "rbind":
        i, e = other(); return f"rbind(pool[{i}])", df.rbind(e.obj), [i]
    if m == "rbind_self":
        return "rbind()", df.rbind(), []
    if m == "update":
        i, e = other(); return f"update(pool[{i}])", df.update(e.obj), [i]
    if m in ("anti_join", "semi_join", "inner_join", "left_join", "full_join", "compare"):
        i, e = other()
        common = [c for c in cols if c in e.obj.colnames]
        by = common[:rng.randint(1, 2)] if common else cols[:1]
        return f"{m}(pool[{i}], {by})", getattr(df, m)(e.obj, *by), [i]
    if m == "group_by":
        s = some(rng.choice([0, 1, 2])) if rng.random() < 0.8 else []; return f"group_by{s}", df.group_by(*s), []
    if m in ("aggregate", "modify_grouped") and not df._group_colnames and cols:
        df.group_by(*some(2))          # documented: group_by marks the receiver
    # the frames handed to user functions by the group-wise operations are subsets of the receiver: they are
    # internal ("internal views kept private", `_view_rows`), so a function that scribbles on or keeps its
    # argument must not reach the receiver's memory through them
    def probe(x):
        for a in arrays_of(x):
            for b in arrays_of(df):
                if a.size and b.size and np.shares_memory(a, b):
                    CALLBACK_SHARES.append(int(a.size))
        return x.nrow
    if m == "aggregate":
        c = one(); return f"aggregate(n=count, f=first({c}), g=lambda)", df.aggregate(n=di.count(), f=di.first(c), g=probe), []
    if m == "modify_grouped":
        c = one(); return "modify(k=lambda x: x.nrow)", df.modify(k=probe), []
    if m == "split":
        s = some(2); return f"split{s}", df.split(*s), []
    if m == "map":
        return "map", df.map(lambda x, i: i), []
    if m == "deepcopy":
        return "deepcopy", df.deepcopy(), []
    if m == "copy":
        return "copy", df.copy(), []
    if m in ("to_list_of_dicts", "to_json", "to_pandas", "to_arrow", "to_string"):
        getattr(df, m)()
        # the converted object (an Arrow table, a pandas frame, ...) is data that "shares no memory" with the frame either:
        # a later in-place edit of the frame must not show in it.  Done on a private deep copy, so the pool is untouched.
        d2 = df.deepcopy()
        obj = getattr(d2, m)()
        image = lambda o: (o.to_pylist() if m == "to_arrow" else o.to_dict("list") if m == "to_pandas" else
                           [dict(x) for x in o] if m == "to_list_of_dicts" else o)
        before = repr(image(obj))
        if poke(d2) and repr(image(obj)) != before:
            CONVERSION_SHARES.append(m)
        return m, None, []
    if m == "setitem":
        nm = newname(); df[nm] = [pick_value(rng, "i", n)] * n if n else []; return f"[{nm}] = list", df, []
    if m == "delitem":
        c = one(); del df[c]; return f"del [{c}]", df, []
    if m == "pop":
        c = one(); df.pop(c); return f"pop({c})", df, []
    if m == "colnames":
        df.colnames = [f"n{i}" for i in range(len(cols))]; return "colnames = [...]", df, []
    raise AssertionError(m)


def call_vector(rng, v, m, pool):
    import dataiter as di
    vectors = [(i, e) for i, e in enumerate(pool) if e.kind == "vector" and e.obj is not v]
    if m.startswith("as_"):
        return m, getattr(v, m)(), []
    if m == "concat":
        cand = [(i, e) for i, e in vectors if e.obj.dtype == v.dtype] or vectors
        i, e = rng.choice(cand); return f"concat(pool[{i}])", v.concat(e.obj), [i]
    if m == "concat_self":
        return "concat()", v.concat(), []
    if m in ("drop_na", "is_na", "range", "unique", "to_strings", "tolist", "copy", "get_memory_use"):
        return m, getattr(v, m)(), []
    if m in ("head", "tail", "sample"):
        k = rng.choice([0, 1, 3]); return f"{m}({k})", getattr(v, m)(k), []
    if m == "map":
        return "map(identity)", v.map(lambda x: x), []
    if m == "helper":
        # the aggregation helpers in their vector form (`di.median(data.x)`): summaries of the argument, which stays as it is
        h = step_helper[0] or rng.choice(HELPER_CALLS)
        kw = rng.choice([{}, {}, {"drop_na": True}, {"drop_na": False}]) if h not in ("all", "any") and not step_helper[0] else {}
        args = {"nth": (rng.choice([0, 1, -1]),), "quantile": (rng.choice([0.25, 0.5, 0.9]),)}.get(h, ())
        getattr(di, h)(v, *args, **kw)
        return f"di.{h}(vector, {args}, {kw})", None, []
    if m.startswith("rank_"):
        return m, v.rank(method=m[5:]), []
    if m == "replace_na":
        return "replace_na", v.replace_na(pick_value(rng, v.dtype.kind, 1)), []
    if m == "sort":
        return "sort", v.sort(), []
    if m == "sort_desc":
        return "sort(dir=-1)", v.sort(dir=-1), []
    if m == "equal":
        i, e = rng.choice(vectors) if vectors else (None, None); return f"equal(pool[{i}])", v.equal(e.obj), [i]
    raise AssertionError(m)


def extract(ctx):
    from harness import extract_sites
    extract_sites.gen_site_table()


def impl(case):
    import dataiter as di
    import warnings
    warnings.simplefilter("ignore")
    np.random.seed(12345)
    pool = []
    for i, spec in enumerate(case["frames"]):
        pool.append(Entry(framegen.build(spec, rid=None), "frame", f"f{i}", f"frame{i}"))
    for i, spec in enumerate(case["vectors"]):
        pool.append(Entry(vecgen.make_array(spec["kind"], spec["vals"]).copy().view(di.Vector), "vector", f"v{i}", f"vector{i}"))
    events = []
    initial_ncols = [len(arrays_of(e.obj)) for e in pool]      # before any in-place step removes / adds a column
    for si, step in enumerate(case["steps"]):
        rng = random.Random(step["r"])
        cands = [e for e in pool if e.kind == step["on"]]
        recv = cands[step["recv"] % len(cands)]
        ri = pool.index(recv)
        ev = {"step": si, "m": step["m"], "on": step["on"], "recv": ri, "recv_origin": recv.origin, "recv_kinds": [str(a.dtype) for a in arrays_of(recv.obj)],
              "recv_size": int(sum(a.size for a in arrays_of(recv.obj)))}
        result, args = None, []
        del CALLBACK_SHARES[:]
        del CONVERSION_SHARES[:]
        del ARG_MUTATED[:]
        step_helper[0] = step.get("helper")
        try:
            if step["on"] == "frame":
                ev["desc"], result, args = call_frame(rng, recv.obj, step["m"], pool)
            else:
                ev["desc"], result, args = call_vector(rng, recv.obj, step["m"], pool)
        except Exception as e:
            ev["err"] = f"{type(e).__name__}: {e}"[:200]
        ev["args"] = args
        ev["callback_shares"] = len(CALLBACK_SHARES)
        ev["conversion_shares"] = list(CONVERSION_SHARES)
        ev["arg_mutated"] = list(ARG_MUTATED)
        # (1) every pool object is byte-identical (the receiver of an in-place edit / group_by excepted as documented)
        mutated = []
        for i, e in enumerate(pool):
            now = snap(e.obj)
            if now != e.snap:
                if i == ri and step["m"] in IN_PLACE and "err" not in ev:
                    e.snap = now
                    continue
                if i == ri and step["m"] in ("group_by", "aggregate", "modify_grouped") and snap_columns(e.obj) == (e.snap[0] if e.kind == "frame" else e.snap):
                    e.snap = now
                    continue
                mutated.append({"pool": i, "origin": e.origin, "is_recv": i == ri, "is_arg": i in args,
                                "before": repr(e.snap)[:300], "after": repr(now)[:300]})
                e.snap = now
        ev["mutated"] = mutated
        # (2) results
        news = []
        if "err" not in ev and step["m"] not in IN_PLACE:
            items = result if isinstance(result, tuple) else [result]
            for r in items:
                if isinstance(r, di.DataFrame):
                    news.append((r, "frame"))
                elif isinstance(r, di.Vector) and r.ndim == 1:
                    news.append((r, "vector"))
        ev["returned"] = [k for _, k in news]
        ev["returned_is_recv"] = any(r is recv.obj for r, _ in news)
        ev["shares"], ev["poke_seen"], ev["poke_back_seen"] = [], [], []
        for r, kind in news:
            if r is recv.obj:
                continue          # group_by: the receiver itself
            group = recv.group if (step["m"] == "copy" and step["on"] == "frame") else f"s{si}.{len(pool)}"
            ev.setdefault("shares_all", []).append([i for i, e in enumerate(pool) if shares(r, e.obj)])
            ev.setdefault("all_nonempty", []).append(all(a.size > 0 for a in arrays_of(r)) and bool(arrays_of(r)) and
                                                      all(a.size > 0 for e in pool for a in arrays_of(e.obj)))
            for i, e in enumerate(pool):
                if e.group != group and shares(r, e.obj):
                    ev["shares"].append({"pool": i, "origin": e.origin, "is_recv": i == ri, "is_arg": i in args})
            # (3) a later in-place edit of the result is not observed on any other object
            if poke(r):
                for i, e in enumerate(pool):
                    if e.group != group and snap(e.obj) != e.snap:
                        ev["poke_seen"].append({"pool": i, "origin": e.origin, "is_recv": i == ri, "is_arg": i in args})
                        e.snap = snap(e.obj)
                    elif e.group == group:
                        e.snap = snap(e.obj)
            entry = Entry(r, kind, group, f"step{si}:{ev.get('desc', step['m'])}")
            # (4) ... and an in-place edit of the receiver / arguments is not observed on the result
            for i in [ri] + [a for a in args if a is not None]:
                e = pool[i]
                if e.group == group:
                    continue
                if poke(e.obj):
                    if snap(r) != entry.snap:
                        ev["poke_back_seen"].append({"pool": i, "origin": e.origin, "is_recv": i == ri, "is_arg": i in args})
                        entry.snap = snap(r)
                    for e2 in pool:
                        e2.snap = snap(e2.obj)
            pool.append(entry)
        events.append(ev)
    return {"events": events, "initial_ncols": initial_ncols}


TABLE_NAME = {"filter_col": "filter", "filter_tracked": "filter", "filter_out_tracked": "filter_out", "filter_owncol": "filter", "slice_cols": "slice", "slice_cols_tracked": "slice", "slice_rows_tracked": "slice", "sort2": "sort", "modify_vector": "modify", "modify_tracked": "modify", "from_pandas_tracked": "modify", "modify_array": "modify", "modify_list": "modify",
              "modify_scalar": "modify", "modify_lambda": "modify", "modify_lambda_col": "modify", "modify_grouped": "modify", "rbind_self": "rbind",
              "concat_self": "concat", "rank_min": "rank", "rank_max": "rank", "rank_ordinal": "rank", "sort_desc": "sort"}
NO_RESULT = {"split", "map", "to_list_of_dicts", "to_json", "to_pandas", "to_arrow", "to_string", "tolist", "equal", "get_memory_use", "helper", "filter_helper"}


def model_steps(case, obs):
    """the call sequence as the heap model sees it; returns (steps, index of the model step for each event or None)."""
    steps, where = [], []
    for ev in obs["events"]:
        m = ev["m"]
        if "err" in ev or (m in NO_RESULT and not (m == "map" and ev["on"] == "vector")):
            where.append(None)
            continue
        cls = "DataFrame" if ev["on"] == "frame" else "Vector"
        arg = ev["args"][0] if ev["args"] and ev["args"][0] is not None else ev["recv"]
        if m in ("aggregate", "modify_grouped"):
            steps.append({"k": "group_by", "recv": ev["recv"]})
        if m in IN_PLACE:
            steps.append({"k": "inplace", "recv": ev["recv"]})
        elif m == "group_by":
            steps.append({"k": "group_by", "recv": ev["recv"]})
        elif m == "copy" and cls == "DataFrame":
            steps.append({"k": "copy", "recv": ev["recv"]})
        elif m == "compare" or (m == "copy" and cls == "Vector"):
            steps.append({"k": "opaque", "n": len(ev["returned"])})
        else:
            steps.append({"k": "call", "cls": cls, "m": TABLE_NAME.get(m, m), "recv": ev["recv"], "arg": arg, "append": len(ev["returned"]) > 0})
        where.append(len(steps) - 1)
    return steps, where


def model_requests(case, obs):
    steps, _ = model_steps(case, obs)
    return [("heap_chain", {"frames": obs["initial_ncols"], "steps": steps})]


def judge(ctx, case, obs, mouts):
    nontrivial = False
    for ev in obs["events"]:
        m = ev["m"]
        ctx.count(m + (":raises" if "err" in ev else ""))
        cls = "ustr" if any(k.startswith("<U") for k in ev["recv_kinds"]) else "other"
        for mu in ev["mutated"]:
            who = "receiver" if mu["is_recv"] else "argument" if mu["is_arg"] else "bystander"
            ctx.violation("oracle", f"mutates:{m}:{who}:{cls}", f"step {ev['step']} {ev.get('desc', m)}: {who} {mu['origin']} changed: {mu['before']} -> {mu['after']}", case, ev)
        for sh in ev.get("shares", []):
            who = "receiver" if sh["is_recv"] else "argument" if sh["is_arg"] else "bystander"
            ctx.violation("oracle", f"aliases:{m}:{who}", f"step {ev['step']} {ev.get('desc', m)}: result shares memory with {who} {sh['origin']}", case, ev)
        for sh in ev.get("poke_seen", []):
            who = "receiver" if sh["is_recv"] else "argument" if sh["is_arg"] else "bystander"
            ctx.violation("oracle", f"edit-observed:{m}:{who}", f"step {ev['step']} {ev.get('desc', m)}: an in-place edit of the result changed {who} {sh['origin']}", case, ev)
        for sh in ev.get("poke_back_seen", []):
            who = "receiver" if sh["is_recv"] else "argument"
            ctx.violation("oracle", f"edit-observed-back:{m}:{who}", f"step {ev['step']} {ev.get('desc', m)}: an in-place edit of the {who} changed the result", case, ev)
        if ev.get("arg_mutated"):
            what = "mask" if m.startswith("filter") else "pandas" if m.startswith("from_pandas") else "index" if m.startswith("slice_") else "array"
            ctx.violation("oracle", f"mutates:{m}:argument:{what}", f"step {ev['step']} {ev.get('desc', m)}: the caller's own {'condition vector' if what == 'mask' else 'pandas frame' if what == 'pandas' else 'array'} was changed / shared ({ev['arg_mutated']})", case, ev)
        if ev.get("conversion_shares"):
            ctx.violation("oracle", f"edit-observed:{m}:converted-object", f"step {ev['step']} {m}: an in-place edit of the frame changed the object {m}() had returned", case, ev)
        if ev.get("callback_shares"):
            ctx.violation("oracle", f"callback-view:{m}", f"step {ev['step']} {ev.get('desc', m)}: the group subset handed to the user function shares memory with the receiver", case, ev)
        if ev.get("returned_is_recv") and m != "group_by" and m not in IN_PLACE and "err" not in ev:
            # the strongest form of sharing: the method handed back the receiver itself (every later edit of the "result" is
            # an edit of the operand); only group_by is documented to do so
            ctx.violation("oracle", f"aliases:{m}:receiver", f"step {ev['step']} {ev.get('desc', m)}: the result IS the receiver (the same object), not a new one", case, ev)
        if m == "group_by" and "err" not in ev and not ev["returned_is_recv"]:
            ctx.violation("oracle", "group_by:not-receiver", "group_by did not return the receiver", case, ev)
        if ev.get("returned") and ev["recv_size"] > 0 and "err" not in ev:
            nontrivial = True
    if mouts:
        m = mouts[0]
        if isinstance(m, dict) and "err" in m:
            ctx.violation("correspondence", "heap:model-error", f"model rejected the call sequence: {m['err']}", case, obs, m)
        else:
            _, where = model_steps(case, obs)
            # `data.colnames = [...]` re-stores every column of the receiver: afterwards the receiver owns fresh buffers and no
            # longer shares with the frames it was copied from. The heap model's in-place step keeps the old buffers, so the
            # SHARING verdict of the model is not consulted for objects downstream of such a step (the mutation verdict is).
            renamed = set()
            npool = len(obs["initial_ncols"])
            for ev, w in zip(obs["events"], where):
                if ev["m"] == "colnames" and "err" not in ev:
                    renamed.add(ev["recv"])
                derived = ev["recv"] in renamed or any(a in renamed for a in ev.get("args", []) if a is not None)
                if "err" not in ev and ev["m"] not in IN_PLACE:
                    for _ in ev.get("returned", []):
                        if ev.get("returned_is_recv"):
                            continue
                        if derived:
                            renamed.add(npool)
                        npool += 1
                if w is None or ev["m"] in ("group_by", "compare"):
                    continue
                mo = m[w]
                if sorted(mo["changed"]) != sorted(x["pool"] for x in ev["mutated"]):
                    ctx.violation("correspondence", f"heap:changed:{ev['m']}", f"step {ev['step']} {ev.get('desc')}: model says objects {mo['changed']} change, observed {[x['pool'] for x in ev['mutated']]}", case, ev, mo)
                ctx.count("heap:compared-changed")
                if ev.get("shares_all") and ev["all_nonempty"][0] and ev["returned"] and not derived and not (renamed & set(mo["shares"])):
                    ctx.count("heap:compared-shares" + (":nonempty" if mo["shares"] else ""))
                    if sorted(mo["shares"]) != sorted(ev["shares_all"][0]):
                        ctx.violation("correspondence", f"heap:shares:{ev['m']}", f"step {ev['step']} {ev.get('desc')}: model says the result shares buffers with {mo['shares']}, observed {ev['shares_all'][0]}", case, ev, mo)
    ctx.case_done(case, nontrivial)


run = common.default_run(sys.modules[__name__])
search = common.default_search(sys.modules[__name__])

# -*- coding: utf-8 -*-
"""C11 — Vector.sort, rank and unique are total and mutually consistent."""

import itertools

import numpy as np

from harness import common, vecgen

LEVEL = {
    "partial": [
        "that NumPy's argsort(kind='stable'), np.unique, bincount and cumsum behave like the Lean stand-ins is validated only by the correspondence run",
        "'accepts every vector' (no exception) is observed on the generated vectors, not proved about NumPy",
    ],
}
ASSUMPTIONS = [
    "np.argsort(kind='stable') = stable merge sort of (value, position) pairs; np.unique(return_inverse/return_index) as documented",
    "str order = code point order; NaN/NaT sort last and \"\" first in a raw NumPy sort",
]
RULE = ("vectors over 10 dtype kinds drawn from small value pools (ties and missing values are the norm), "
        "lengths 0..40 (quick) / 0..120 (thorough) incl. empty and all-missing; ops sort(dir=±1), "
        "rank(min|max|ordinal), unique; non-trivial = length>=2 and (a tie or a missing value); "
        "distinct by canonical JSON of the case; thorough adds exhaustive enumeration of all vectors of "
        "length<=5 over {NA,a,b,c} for float and str")

OPS = [("sort", 1), ("sort", -1), ("rank", "min"), ("rank", "max"), ("rank", "ordinal"), ("unique", None)]


def gen_cases(ctx):
    rng = ctx.rng
    cases = []
    # vectors that are ALREADY in raw ascending order, with their missing elements wherever the raw order puts them (the
    # missing string "" sorts before every string, NaT is the smallest integer underneath): missing last, in both directions
    for kind in ("str", "strlong", "ustr", "float", "date", "timedelta", "int", "objstr"):
        nonna = [v for v in vecgen.POOLS[kind] if not vecgen.is_na_val(kind, v)]
        nas = [v for v in vecgen.POOLS[kind] if vecgen.is_na_val(kind, v)][:1]
        try:
            asc = sorted(nonna, key=lambda v: vecgen.sort_key(kind, vecgen.canon_vals(kind, [v])[0]) if kind != "objstr" else str(v))[:5]
        except TypeError:
            continue
        for vals in ([*nas, *asc], [*nas, *nas, *asc], [*asc, *nas], asc):
            for op, arg in (("sort", 1), ("sort", -1), ("rank", "ordinal"), ("unique", None)):
                cases.append({"kind": kind, "vals": list(vals), "op": op, "arg": arg})
    # vectors in DESCENDING raw order with repeats, of every kind (a Boolean one too: True first): unique keeps the order of first
    # occurrence, rank and sort are judged on the same vectors
    for kind in ("bool", "int", "float", "str", "date", "datetime", "timedelta", "objint"):
        nonna = [v for v in vecgen.POOLS[kind] if not vecgen.is_na_val(kind, v)]
        try:
            desc = sorted(nonna, key=lambda v: vecgen.sort_key(kind, vecgen.canon_vals(kind, [v])[0]), reverse=True)[:3]
        except TypeError:
            continue
        for vals in ([*desc, *desc], [*desc, *desc[::-1]], [desc[0], desc[-1], desc[0]]):
            for op, arg in (("unique", None), ("sort", 1), ("sort", -1), ("rank", "min"), ("rank", "max"), ("rank", "ordinal")):
                cases.append({"kind": kind, "vals": list(vals), "op": op, "arg": arg})
    corpus = [
        {"kind": "float", "vals": [1.0, 1.0, "nan"], "op": "rank", "arg": "min"},
        {"kind": "float", "vals": ["nan", "nan"], "op": "rank", "arg": "min"},
        {"kind": "float", "vals": ["nan", "nan"], "op": "rank", "arg": "ordinal"},
        {"kind": "str", "vals": [], "op": "sort", "arg": 1},
        {"kind": "str", "vals": [], "op": "unique", "arg": None},
        {"kind": "str", "vals": ["", ""], "op": "sort", "arg": 1},
        {"kind": "str", "vals": ["", ""], "op": "rank", "arg": "min"},
        {"kind": "timedelta", "vals": [None, 3, None, 1], "op": "sort", "arg": -1},
        {"kind": "objint", "vals": [None, None], "op": "unique", "arg": None},
        {"kind": "int", "vals": [3, 1, 2, 3, 1, 2, 3, 1, 2, 3, 1, 2, 3, 1, 2, 3, 1, 2, 3, 1, 2, 3, 1, 2], "op": "rank", "arg": "ordinal"},
        # known finding (trailing-nul): trailing null characters are dropped by the fixed-width fast path
        {"kind": "str", "vals": ["a\x00", "a", "a\x00", "b"], "op": "sort", "arg": 1},
        {"kind": "str", "vals": ["a\x00", "a", "a\x00", "b"], "op": "unique", "arg": None},
        {"kind": "str", "vals": ["a\x00", "a", "a\x00", "b"], "op": "rank", "arg": "min"},
        {"kind": "str", "vals": ["a\x00", "a", "a\x00", "b"], "op": "rank", "arg": "ordinal"},
    ]
    cases += corpus
    n = 700 if ctx.tier == "quick" else 20000
    for _ in range(n):
        # fixed-width strings (what `Vector(np.array([...]))` holds), unsigned and narrow integers are vectors too
        kind = rng.choice(vecgen.KINDS + ["ustr", "ustr", "uint8", "int32"])
        ln = vecgen.gen_len(rng, ctx.tier)
        vals = vecgen.gen_vals(rng, kind, ln)
        op, arg = rng.choice(OPS)
        cases.append({"kind": kind, "vals": vals, "op": op, "arg": arg})
    if ctx.tier == "thorough":
        for kind, alpha in (("float", ["nan", 1.0, 2.0, "-0.0"]), ("str", ["", "a", "b", "ab"])):
            for ln in range(0, 6):
                for vals in itertools.product(alpha, repeat=ln):
                    for op, arg in OPS:
                        cases.append({"kind": kind, "vals": list(vals), "op": op, "arg": arg})
    return cases


def impl(case):
    kind, vals, op, arg = case["kind"], case["vals"], case["op"], case["arg"]
    v = vecgen.make_vector(kind, vals)
    before = vecgen.canon_array(v)
    try:
        if op == "sort":
            # the direction as the caller may hold it: a Python int, or a NumPy integer (`for d in np.array([1, -1])`, `np.sign(x)`)
            d = [arg, np.int64(arg), np.int8(arg)][(len(vals) + (arg > 0)) % 3]
            out = v.sort(dir=d)
        elif op == "rank":
            out = v.rank(method=arg)
        else:
            out = v.unique()
        res = {"out": vecgen.canon_array(out), "dtype": str(out.dtype), "in_dtype": str(v.dtype),
               # what the library itself calls missing, before and after (a result of another dtype class may flag other elements)
               "na_in": [bool(x) for x in v.is_na()], "na_out": [bool(x) for x in out.is_na()] if op != "rank" else None}
    except Exception as e:
        res = {"err": f"{type(e).__name__}: {e}"}
    res["mutated"] = vecgen.canon_array(v) != before
    return res


def model_requests(case, obs):
    kind, vals, op, arg = case["kind"], case["vals"], case["op"], case["arg"]
    xs = vecgen.cells(kind, vals)
    na_first = vecgen.NA_FIRST.get(kind, False)
    if op == "sort":
        if kind in ("objint", "objstr"):
            keys = [common.str_codes(str(v)) for v in vals]
            return [("vsort_obj", {"keys": keys, "na": [v is None for v in vals], "desc": arg < 0})]
        return [("vsort", {"xs": xs, "naFirst": na_first, "desc": arg < 0})]
    if op == "rank":
        return [("vrank", {"xs": xs, "method": arg})]
    return [("vunique", {"xs": xs, "naFirst": na_first})]


def ref_rank(kind, cvals, method):
    n = len(cvals)
    na = [vecgen.canon_is_na(kind, v) for v in cvals]
    key = [None if na[i] else vecgen.sort_key(kind, cvals[i]) for i in range(n)]

    def lt(i, j):  # strictly before, NA after everything, NAs tied
        if na[i]:
            return False
        if na[j]:
            return True
        return key[i] < key[j]

    def le(i, j):
        return not lt(j, i)
    if method == "min":
        return [1 + sum(lt(j, i) for j in range(n)) for i in range(n)]
    if method == "max":
        return [sum(le(j, i) for j in range(n)) for i in range(n)]
    return [1 + sum(lt(j, i) or (not lt(i, j) and j < i) for j in range(n)) for i in range(n)]


def judge(ctx, case, obs, mouts):
    kind, vals, op, arg = case["kind"], case["vals"], case["op"], case["arg"]
    cvals = vecgen.canon_vals(kind, vals)
    n = len(vals)
    na = [vecgen.canon_is_na(kind, v) for v in cvals]
    has_tie = len(set(map(repr, cvals))) < n
    nontrivial = n >= 2 and (has_tie or any(na))
    ctx.count(f"{op}:{kind}")
    ctx.count("len0" if n == 0 else "allna" if all(na) else "some_na" if any(na) else "no_na")
    cls = "empty" if n == 0 else "all-na" if all(na) else "mixed"
    objnone = kind in ("objint", "objstr") and any(na)
    # ---- oracle: the property's clauses directly on the implementation's output
    if "err" in obs:
        sig = f"{op}:{'object-with-none' if objnone else cls}:raises"
        ctx.violation("oracle", sig, f"Vector.{op} raised on a {cls} {kind} vector: {obs['err']}", case, obs)
    else:
        out = obs["out"]
        if obs["mutated"]:
            ctx.violation("oracle", f"{op}:mutates", f"Vector.{op} changed its receiver", case, obs)
        if op in ("sort", "unique") and obs.get("na_out") is not None:
            # sort / unique return elements of the receiver: the same kind of vector, with the library's own missing flags
            # where the receiver had them (for sort: as many, all at the end)
            if obs["dtype"] != obs["in_dtype"]:
                ctx.violation("oracle", f"{op}:dtype-changed", f"Vector.{op} of a {obs['in_dtype']} vector returned a {obs['dtype']} vector", case, obs)
            elif op == "sort":
                k_in = sum(obs["na_in"])
                if sum(obs["na_out"]) != k_in or (k_in and not all(obs["na_out"][len(out) - k_in:])):
                    ctx.violation("oracle", "sort:missing-flags", f"the result flags {obs['na_out']} as missing, the receiver had {k_in} missing element(s): they are not the same elements, all last", case, obs)
        if op == "sort":
            okey = (lambda v: str(v)) if kind in ("objint", "objstr") else (lambda v: vecgen.sort_key(kind, v))
            if sorted(map(repr, out)) != sorted(map(repr, cvals)):
                ctx.violation("oracle", "sort:not-permutation", "Vector.sort output is not a permutation of the input", case, obs)
            else:
                ona = [vecgen.canon_is_na(kind, v) for v in out]
                k = sum(not x for x in ona)
                if any(ona[:k]) or not all(ona[k:]):
                    ctx.violation("oracle", "sort:na-not-last", "missing values are not last", case, obs)
                else:
                    ks = [okey(v) for v in out[:k]]
                    good = all(ks[i] <= ks[i + 1] for i in range(k - 1)) if arg > 0 else all(ks[i] >= ks[i + 1] for i in range(k - 1))
                    if not good:
                        ctx.violation("oracle", "sort:not-ordered", "non-missing part is not ordered in the requested direction", case, obs)
        elif op == "rank":
            if kind in ("objint", "objstr") and kind == "objstr":
                pass
            exp = ref_rank(kind, cvals, arg)
            if out != exp:
                ctx.violation("oracle", f"rank:{arg}:wrong", f"rank(method={arg!r}) differs from the counting definition", case, obs, exp)
        else:
            seen = {}
            for i, v in enumerate(cvals):
                k = "NA" if na[i] else ("f", vecgen.sort_key(kind, v)) if kind == "float" else ("v", v)
                seen.setdefault(k, i)
            exp = [cvals[i] for i in sorted(seen.values())]
            norm = lambda xs: [None if vecgen.canon_is_na(kind, x) else x for x in xs]
            if norm(out) != norm(exp):
                ctx.violation("oracle", "unique:wrong", "unique is not 'each distinct value once in first-occurrence order'", case, obs, exp)
    # ---- correspondence: model positions -> values must equal the implementation's output
    if mouts is not None:
        m = mouts[0]
        if isinstance(m, dict) and "err" in m:
            ctx.violation("correspondence", f"{op}:model-error", f"model rejected the request: {m['err']}", case, obs, m)
        elif "err" in obs:
            pass  # already an oracle violation with this input as the replay
        else:
            exp = m if op == "rank" else [cvals[i] for i in m]
            got = obs["out"]
            if op != "rank":
                norm = lambda xs: ["NA" if vecgen.canon_is_na(kind, x) else x for x in xs]
                exp, got = norm(exp), norm(got)
            if exp != got:
                ctx.violation("correspondence", f"{op}:{kind}:differs", "model and implementation disagree", case, obs, exp)
    ctx.case_done(case, nontrivial)


import sys
run = common.default_run(sys.modules[__name__])
search = common.default_search(sys.modules[__name__])

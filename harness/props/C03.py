# -*- coding: utf-8 -*-
"""C03 — sort is a stable, key-ordered permutation of whole rows."""

import functools
import itertools
import sys

from harness import common, framegen, vecgen

LEVEL = {"partial": ["np.lexsort is modelled as a stable lexicographic merge sort with NaN/NaT largest; 'sorting succeeds' is observed"]}
ASSUMPTIONS = ["np.lexsort: stable, last key primary, NaN/NaT sort last; ~x and -x reverse the order of integers / floats"]
# objects with a history are also left grouped by an earlier group_by (harness/warm.py): none of the
# operations of this property is documented as group-wise
WARM_GROUPED = True
RULE = ("frames of 0..40 rows (thorough: ..120), 1..3 sort keys over 10 dtype kinds (short/long/fixed-width strings, object), "
        "directions in {1,-1}^k, value pools of 1..6 values so ties and missing keys dominate; non-trivial = >=2 rows and "
        "(a tie on the first key or a missing key); thorough adds all columns over {NA,a,b,c} with <=5 rows x both directions x 2 keys")


def gen_case(rng, tier):
    spec = framegen.gen_frame(rng, tier, kinds=framegen.KEY_KINDS + ["objint"] + framegen.UINT_KINDS)
    names = [c["name"] for c in spec["cols"]]
    k = rng.choice([1, 1, 2, 2, 3])
    keys = rng.sample(names, min(k, len(names)))
    return {"op": "sort", "frame": spec, "keys": [[nm, rng.choice([1, -1])] for nm in keys]}


def gen_cases(ctx):
    rng = ctx.rng
    cases = [
        {"op": "sort", "frame": {"n": 0, "cols": [{"name": "a", "kind": "str", "vals": []}]}, "keys": [["a", 1]]},
        {"op": "sort", "frame": {"n": 2, "cols": [{"name": "a", "kind": "str", "vals": ["", ""]}]}, "keys": [["a", 1]]},
        {"op": "sort", "frame": {"n": 3, "cols": [{"name": "a", "kind": "ustr", "vals": ["b", "", "a"]}]}, "keys": [["a", 1]]},
        {"op": "sort", "frame": {"n": 3, "cols": [{"name": "a", "kind": "str", "vals": ["\U0001F600", "", "a"]}]}, "keys": [["a", 1]]},
        {"op": "sort", "frame": {"n": 3, "cols": [{"name": "a", "kind": "int", "vals": [0, -9223372036854775808, 5]}]}, "keys": [["a", -1]]},
        {"op": "sort", "frame": {"n": 4, "cols": [{"name": "a", "kind": "timedelta", "vals": [3, None, 1, 2]}]}, "keys": [["a", -1]]},
        {"op": "sort", "frame": {"n": 4, "cols": [{"name": "a", "kind": "uint8", "vals": [3, 0, 255, 0]}]}, "keys": [["a", -1]]},
        {"op": "sort", "frame": {"n": 4, "cols": [{"name": "a", "kind": "ustr", "vals": ["b", "", "a", ""]}, {"name": "b", "kind": "int", "vals": [1, 1, 2, 2]}]}, "keys": [["b", 1], ["a", 1]]},
        {"op": "sort", "frame": {"n": 4, "cols": [{"name": "a", "kind": "strlong", "vals": ["a" * 50 + "b", "a" * 50 + "a", "a" * 50 + "b", "a" * 50]}]}, "keys": [["a", 1]]},
        # known finding (trailing-nul): a trailing null character is dropped by the fixed-width fast path ("a\0" sorts as "a")
        {"op": "sort", "frame": {"n": 4, "cols": [{"name": "a", "kind": "str", "vals": ["a\x00", "a", "a\x00", "b"]}]}, "keys": [["a", 1]]},
        {"op": "sort", "frame": {"n": 4, "cols": [{"name": "a", "kind": "str", "vals": ["a\x00", "a", "a\x00", "b"]}]}, "keys": [["a", -1]]},
    ]
    n = 700 if ctx.tier == "quick" else 20000
    for _ in range(n):
        cases.append(gen_case(rng, ctx.tier))
    if ctx.tier == "thorough":
        for kind, alpha in (("float", ["nan", 1.0, 2.0]), ("str", ["", "a", "b"]), ("int", [1, 2, 3]), ("bool", [True, False])):
            for ln in range(0, 5):
                for vals in itertools.product(alpha, repeat=ln):
                    tie = list(range(ln))
                    for d1 in (1, -1):
                        spec = {"n": ln, "cols": [{"name": "a", "kind": kind, "vals": list(vals)},
                                                  {"name": "b", "kind": "int", "vals": [i % 2 for i in tie]}]}
                        cases.append({"op": "sort", "frame": spec, "keys": [["a", d1]]})
                        cases.append({"op": "sort", "frame": spec, "keys": [["b", -d1], ["a", d1]]})
    return cases


def impl(case):
    spec = case["frame"]
    df = framegen.build(spec)
    before = framegen.snapshot(df)
    res = {}
    try:
        out = df.sort(**{nm: d for nm, d in case["keys"]})
        rids, problem = framegen.rows_integrity(spec, out)
        res.update({"rids": rids, "problem": problem})
    except Exception as e:
        res["err"] = f"{type(e).__name__}: {e}"
    res["mutated"] = framegen.snapshot(df) != before
    return res


def model_requests(case, obs):
    spec = case["frame"]
    keys = []
    for nm, d in case["keys"]:
        c = framegen.col(spec, nm)
        keys.append({"kind": framegen.kind_flags(c), "desc": d < 0, "cells": vecgen.cells(c["kind"], c["vals"])})
    return [("df_sort", {"n": spec["n"], "keys": keys})]


def reference_orders(case):
    """All orders the property allows: stable sort by the spec comparator, the end at which
    missing keys go being free for descending keys (last for ascending keys)."""
    spec = case["frame"]
    n = spec["n"]
    cols = []
    for nm, d in case["keys"]:
        c = framegen.col(spec, nm)
        cv = vecgen.canon_vals(c["kind"], c["vals"])
        na = [vecgen.canon_is_na(c["kind"], v) for v in cv]
        key = [None if na[i] else vecgen.sort_key(c["kind"], cv[i]) for i in range(n)]
        cols.append((d, na, key))
    desc = [j for j, (d, na, key) in enumerate(cols) if d < 0 and any(na)]
    out = []
    for choice in itertools.product(["first", "last"], repeat=len(desc)):
        end = {j: "last" for j in range(len(cols))}
        end.update(dict(zip(desc, choice)))

        def cmp(a, b):
            for j, (d, na, key) in enumerate(cols):
                if na[a] and na[b]:
                    continue
                if na[a] or na[b]:
                    r = 1 if na[a] else -1
                    return r if end[j] == "last" else -r
                if key[a] != key[b]:
                    r = -1 if key[a] < key[b] else 1
                    return r * d
            return 0
        out.append(sorted(range(n), key=functools.cmp_to_key(cmp)))
    return out


def judge(ctx, case, obs, mouts):
    spec = case["frame"]
    n = spec["n"]
    kinds = [framegen.col(spec, nm)["kind"] for nm, d in case["keys"]]
    for (nm, d), k in zip(case["keys"], kinds):
        ctx.count(f"{k}:{'asc' if d > 0 else 'desc'}")
    first = framegen.col(spec, case["keys"][0][0])
    fv = list(map(repr, first["vals"]))
    nontrivial = n >= 2 and (len(set(fv)) < n or any(vecgen.is_na_val(first["kind"], v) for v in first["vals"]))
    if "err" in obs:
        cls = "rows0" if n == 0 else "all-na" if all(vecgen.is_na_val(first["kind"], v) for v in first["vals"]) else "some"
        ctx.violation("oracle", f"sort:raises:{cls}", f"DataFrame.sort raised: {obs['err']}", case, obs)
    else:
        if obs["mutated"]:
            ctx.violation("oracle", "sort:mutates", "sort changed its receiver", case, obs)
        if obs["problem"]:
            ctx.violation("oracle", "sort:not-whole-rows", f"output rows are not whole input rows: {obs['problem']}", case, obs)
        elif sorted(obs["rids"]) != list(range(n)):
            ctx.violation("oracle", "sort:not-permutation", "output is not a permutation of the input rows", case, obs)
        else:
            refs = reference_orders(case)
            if obs["rids"] not in refs:
                ctx.violation("oracle", "sort:not-stable-key-order", "output is not the stable key-ordered permutation (for any placement of missing keys in descending keys)", case, obs, refs[:2])
    if mouts is not None:
        m = mouts[0]
        if isinstance(m, dict) and "err" in m:
            ctx.violation("correspondence", "sort:model-error", f"model rejected the request: {m['err']}", case, obs, m)
        elif "err" in obs:
            pass  # already an oracle violation with this input as the replay
        elif obs.get("problem") is None and m != obs["rids"]:
            ctx.violation("correspondence", "sort:differs", "model and implementation return different row orders", case, obs, m)
    ctx.case_done(case, nontrivial)


run = common.default_run(sys.modules[__name__])
search = common.default_search(sys.modules[__name__])

# -*- coding: utf-8 -*-
"""C01 — every data frame is a well-formed rectangular table (histories of public operations)."""

import sys

import numpy as np

from harness import common, framegen

LEVEL = {"partial": ["values are abstracted to their shape (scalar / length / not 1-d); that NumPy's repeat/ndim behave as assumed is observed",
                     "transforming methods enter the model as a rebuild through the constructor with the column lengths the method produced"]}
ASSUMPTIONS = ["hasattr/getattr resolve instance attributes, then class attributes, then __getattr__, as in CPython's data model"]
RULE = ("histories of 1..10 (thorough ..30) operations on one frame: constructor with mixed shapes (scalars, lengths, 2-d arrays, duplicate keys), "
        "item/attribute assignment and deletion, pop, popitem, colnames assignment (incl. permutations and partial lists), and 14 transforming "
        "methods; names from a universe with identifiers, non-identifiers and names clashing with methods/properties; after every step: "
        "column names, per-column type/ndim/length, and for every universe name: in dict?, hasattr?, what getattr returns; "
        "non-trivial = history with >=1 rejected and >=2 accepted steps or a deletion followed by reuse of the name")

UNIVERSE = ["x", "y", "z", "a b", "items", "filter", "nrow", "_q", "1a", "w", "__idx__"]      # ("__idx__": an identifier with leading underscores, as `__index_level_0__` in files written by pandas)
TRANSFORMS = ["filter", "filter_out", "head", "tail", "sort", "unique", "rbind", "cbind", "select", "unselect", "rename", "modify", "update", "drop_na", "slice", "copy", "deepcopy", "sample",
              "cbind_long", "update_long", "slice_cols:rev", "slice_cols:neg", "slice_cols:out",
              "modify_grouped:scalar", "modify_grouped:one", "modify_grouped:group", "modify_grouped:two", "modify_grouped:nrow", "modify_grouped:plus1",
              "modify_first", "update_first", "modify_grouped_first",
              "join:left", "join:inner", "join:full", "join:semi", "join:anti"]


def gen_shape(rng, nrow):
    c = rng.random()
    if c < 0.3:
        return "scalar"
    if c < 0.36:
        return "nd"
    if c < 0.75:
        return nrow if nrow is not None else rng.randint(0, 4)
    return rng.choice([0, 1, 1, 2, 3, 4])


def gen_case(rng, tier):
    n0 = rng.choice([0, 1, 2, 3, 3, 4])
    k = rng.randint(0, 4)
    init = []
    for nm in rng.sample(UNIVERSE, k):
        init.append([nm, rng.choice(["scalar", n0, n0, n0, 1, rng.randint(0, 4)])])
    if rng.random() < 0.15 and init:
        init.append([init[0][0], n0])     # duplicate key in the pair list
    steps = []
    m = rng.randint(1, 10) if tier == "quick" else rng.randint(1, 30)
    for _ in range(m):
        c = rng.random()
        nm = rng.choice(UNIVERSE)
        if c < 0.28:
            steps.append({"k": "setitem", "name": nm, "v": gen_shape(rng, n0)})
        elif c < 0.40:
            steps.append({"k": "setattr", "name": nm, "v": gen_shape(rng, n0)})
        elif c < 0.50:
            steps.append({"k": "delitem", "name": nm})
        elif c < 0.58:
            steps.append({"k": "delattr", "name": nm})
        elif c < 0.66:
            steps.append({"k": "pop", "name": nm})
        elif c < 0.70:
            steps.append({"k": "popitem"})
        elif c < 0.82:
            steps.append({"k": "colnames", "perm": rng.choice(["swap", "rotate", "fresh", "short", "same"])})
        else:
            steps.append({"k": "transform", "m": rng.choice(TRANSFORMS)})
    return {"op": "history", "init": init, "steps": steps}


def gen_cases(ctx):
    rng = ctx.rng
    cases = [
        {"op": "history", "init": [["x", 2], ["y", 2]], "steps": [{"k": "delitem", "name": "x"}, {"k": "setitem", "name": "x", "v": "scalar"}, {"k": "delattr", "name": "y"}]},
        {"op": "history", "init": [["x", 2], ["y", 2]], "steps": [{"k": "colnames", "perm": "swap"}]},
        {"op": "history", "init": [["x", 3], ["y", 3]], "steps": [{"k": "transform", "m": "filter_none"}, {"k": "setitem", "name": "z", "v": 3}]},
        {"op": "history", "init": [["x", 3], ["y", 3], ["z", 3]], "steps": [{"k": "colnames", "perm": "partial_mid"}]},
    ]
    # every transform once on each small shape (no rows, ONE row — where a broadcast can hide a mismatch —, two and three rows;
    # one and three columns): what a run catches must not hang on which shapes the random histories happen to reach
    for m in TRANSFORMS:
        for nrow in (0, 1, 2, 3):
            cases.append({"op": "history", "init": [["x", nrow], ["y", nrow], ["z", nrow]], "steps": [{"k": "transform", "m": m}]})
        cases.append({"op": "history", "init": [["x", 1]], "steps": [{"k": "transform", "m": m}, {"k": "transform", "m": m}]})
    n = 400 if ctx.tier == "quick" else 8000
    for _ in range(n):
        cases.append(gen_case(rng, ctx.tier))
    return cases


class Unit(str):
    """a scalar whose type is a proper subclass of str (like enum.StrEnum members): still a scalar"""


def value_of(shape, name=None, df=None):
    if shape == "scalar":
        # a string longer than NumPy's inline small-string size for two of the names; scalars whose type is a
        # subclass of a builtin scalar type (str subclass, StrEnum member, bool, np.float32, datetime.date)
        if name in ("w", "y"):
            return "long string scalar 0123456789"
        if name == "x":
            return Unit("kWh")
        if name == "z":
            import enum
            return enum.StrEnum("Color", {"RED": "red"}).RED
        if name == "_q":
            import datetime
            return datetime.date(2020, 1, 2)
        # scalars picked out of the library's own vectors through NumPy (`prices.filter(id=3).price.squeeze()`, an element,
        # a reduction): each is a scalar and is broadcast like one — never a 0-dimensional column
        import dataiter as di
        if name == "a b":
            return di.DataFrame(c=[7]).c.squeeze()
        if name == "items":
            return np.squeeze(di.Vector([7]))
        if name == "filter":
            return di.Vector([7, 8]).max()
        if name == "nrow":
            return di.DataFrameColumn([7.5])[0]
        if name == "1a":
            return di.Vector([3, 4]).sum()
        return 7
    if shape == "nd":
        # not one-dimensional.  For names "x" / "z" and a frame with rows: a two-dimensional *view of a
        # column* with as many elements as the frame has rows (reshape / [:, None] keep the column class),
        # the one value for which only the dimension check stands between it and the dict
        if df is not None and name in ("x", "z"):
            try:
                n = int(df.nrow)
            except Exception:
                n = 0
            if n >= 1:
                import dataiter as di
                col = di.DataFrameColumn(np.arange(n))
                return col[:, None] if name == "x" else col.reshape(1, n)
        return np.zeros((2, 3))
    if shape == 1 and name in ("z", "w", "_q"):
        # a length-one OBJECT column whose one element is itself a list (what `Vector.re.split` / `findall` produce): one value,
        # repeated in every row like any other length-one value
        import dataiter as di
        a = np.empty(1, dtype=object)
        a[0] = ["p", "q"]
        return di.DataFrameColumn(a)
    vals = list(range(shape))
    # the same values in the array types a caller may hold them in: a typed length-one column (taken from a one-row frame,
    # or a ready DataFrameColumn / Vector) is broadcast like a one-element list is
    import zlib
    import dataiter as di
    carrier = zlib.crc32(f"{name}:{shape}".encode()) % 6
    if carrier == 1:
        return np.array(vals, dtype=np.int64)
    if carrier == 2:
        return di.Vector(vals, int)
    if carrier == 3:
        return di.DataFrameColumn(vals, int)
    if carrier == 4:
        return tuple(vals)
    if carrier == 5 and shape >= 1:
        return di.DataFrame(c=vals).c
    return vals


GROUPED_BAD = [False]
SLICE_EXPECT = [None]      # the column names slice(cols=...) must return, in that order, or "reject"


def grouped_result(kind, x, total):
    """what the function handed to a group-wise modify returns for the group x (total = rows of the whole frame)"""
    n = {"one": 1, "group": x.nrow, "two": 2, "nrow": total, "plus1": x.nrow + 1}.get(kind)
    if kind == "scalar":
        return 5
    if n not in (1, x.nrow):
        GROUPED_BAD[0] = True          # neither a scalar, nor one element, nor one per row of the group: must be refused
    return np.arange(n)


def new_names(perm, old, fresh_pool):
    if perm == "swap":
        return ([old[1], old[0]] + old[2:]) if len(old) >= 2 else list(old)
    if perm == "rotate":
        return old[1:] + old[:1]
    if perm == "fresh":
        pool = [p for p in fresh_pool if p not in old]
        return pool[:len(old)] if len(pool) >= len(old) else list(old)
    if perm == "short":
        pool = [p for p in fresh_pool if p not in old]
        return pool[:max(0, len(old) - 1)]
    if perm == "partial_mid":
        return [old[0], "B" if len(old) > 1 else old[0]] + old[2:]
    return list(old)


def transform(df, m):
    import dataiter as di
    n = df.nrow
    if m == "filter":
        return df.filter(np.arange(n) % 2 == 0)
    if m == "filter_none":
        return df.filter(np.zeros(n, dtype=bool))
    if m == "filter_out":
        return df.filter_out(np.arange(n) % 2 == 0)
    if m == "head":
        return df.head(2)
    if m == "tail":
        return df.tail(1)
    if m == "sort":
        return df.sort(**{df.colnames[0]: -1}) if df.ncol else df
    if m == "unique":
        return df.unique()
    if m == "rbind":
        return df.rbind(df)
    if m == "cbind":
        return df.cbind(di.DataFrame(w=1), di.DataFrame(w=2, v=3)) if n else df.cbind(df)
    if m == "cbind_long":
        # an operand with two rows more than the receiver: nothing to broadcast, must be refused (also for a one-row receiver)
        return df.cbind(di.DataFrame(wl=np.arange(n + 2)))
    if m == "update_long":
        return df.update(di.DataFrame(wl=np.arange(n + 2)))
    if m.startswith("slice_cols:"):
        k = df.ncol
        cols = {"rev": list(range(k))[::-1], "neg": [-1] if k else [], "out": [0, k + 3]}[m.split(":")[1]]
        SLICE_EXPECT[0] = ([df.colnames[i] for i in cols] if all(-k <= i < k for i in cols) else "reject")
        return df.slice(cols=cols)
    if m == "select":
        return df.select(*df.colnames[:2])
    if m == "unselect":
        return df.unselect(*df.colnames[:1])
    if m == "rename":
        return df.rename(renamed=df.colnames[0]) if df.ncol else df
    if m == "modify":
        return df.modify(z=lambda x: np.arange(x.nrow))
    if m == "modify_first":
        # replaces an EXISTING column (the first one): it must keep its position
        return df.modify(**{df.colnames[0]: lambda x: np.arange(x.nrow)}) if df.ncol else df
    if m == "update_first":
        return df.update(di.DataFrame(**{df.colnames[0]: np.arange(n)})) if df.ncol and n else df
    if m == "modify_grouped_first":
        if df.ncol < 2 or not n:
            return df
        try:
            return df.group_by(df.colnames[-1]).modify(**{df.colnames[0]: lambda x: 1})
        finally:
            df._group_colnames = ()
    if m.startswith("modify_grouped:"):
        if not df.ncol:
            return df
        total = df.nrow
        out = df.group_by(df.colnames[0]).modify(zg=lambda x: grouped_result(m.split(":")[1], x, total))
        df._group_colnames = ()
        return out
    if m == "update":
        return df.update(di.DataFrame(y=np.arange(n) * 2)) if n else df.update(df)
    if m.startswith("join:"):
        # the right frame: the receiver's first column as the key (its first three distinct values) and two columns of its
        # own; the receiver of a full join first loses the rows that hold the first key, so that the right frame has a row
        # WITHOUT a match as well as rows with one — the column order of the result may not depend on which is the case
        if not df.ncol or not n or "jx" in df or "jy" in df:
            return df
        key = df.colnames[0]
        other = df.select(key).unique(key).head(3)
        other = other.cbind(di.DataFrame(jx=np.arange(other.nrow), jy=np.arange(other.nrow) * 0.5))
        kind = m.split(":")[1]
        recv = df
        if kind == "full":
            first = np.asarray(df[key] == df[key][0], dtype=bool)
            recv = df.filter_out(first) if first.any() and not first.all() else df
        return getattr(recv, kind + "_join")(other, key)
    if m == "drop_na":
        return df.drop_na()
    if m == "slice":
        return df.slice(rows=list(range(0, n, 2)))
    if m == "copy":
        return df.copy()
    if m == "deepcopy":
        return df.deepcopy()
    if m == "sample":
        return df.sample(2)
    raise ValueError(m)


def expected_names(m, order, n):
    """the column names a transform must return, in order (None: not specified here): rows-only transforms keep the names and
    their order; a replaced column keeps its POSITION, new columns are appended in the order given"""
    def plus(*new):
        out = list(order)
        for c in new:
            if c not in out:
                out.append(c)
        return out
    if m in ("filter", "filter_none", "filter_out", "head", "tail", "sort", "unique", "rbind", "drop_na", "slice", "copy", "deepcopy", "sample",
             "modify_first", "join:semi", "join:anti"):
        return list(order)
    if m in ("join:left", "join:inner", "join:full"):
        # the receiver's columns in their order, then what the right frame adds, in its order — whichever rows match
        return plus("jx", "jy") if order and n and "jx" not in order and "jy" not in order else list(order)
    if m == "update_first":
        # update is "the receiver's columns that `other` does not have, then all of `other`'s": a replaced column moves to the end
        return (list(order[1:]) + [order[0]]) if order and n else list(order)
    if m == "cbind":
        return plus("w", "v") if n else list(order)
    if m == "select":
        return list(order[:2])
    if m == "unselect":
        return list(order[1:])
    if m == "rename":
        return (["renamed"] + list(order[1:])) if order and "renamed" not in order else None
    if m == "modify":
        return plus("z")
    if m.startswith("modify_grouped:"):
        return plus("zg") if order else list(order)
    if m == "modify_grouped_first":
        return list(order)
    if m == "update":
        return ([c for c in order if c != "y"] + ["y"]) if n else list(order)
    return None


def observe(df):
    import dataiter as di
    cols = []
    for k in dict.keys(df):
        v = dict.__getitem__(df, k)
        cols.append([k, int(v.shape[0]) if getattr(v, "ndim", 0) >= 1 else -1, int(getattr(v, "ndim", -1)), isinstance(v, di.DataFrameColumn)])
    look = []
    for k in UNIVERSE:
        try:
            val = getattr(df, k)
            if k in df and val is dict.__getitem__(df, k):
                look.append("column")
            elif val is di.DataFrame.COLUMN_PLACEHOLDER:
                look.append("placeholder")
            else:
                look.append("builtin")
        except AttributeError:
            look.append("error")
        except Exception as e:
            look.append(f"raises:{type(e).__name__}")
    try:
        nrow, ncol = int(df.nrow), int(df.ncol)
    except Exception as e:
        nrow, ncol = f"{type(e).__name__}", None
    return {"cols": cols, "lookup": look, "nrow": nrow, "ncol": ncol,
            "attrs": sorted(k for k in df.__dict__ if k not in ("_group_colnames", "metadata"))}


def impl(case):
    import dataiter as di
    res = {"steps": []}
    try:
        df = di.DataFrame([(k, value_of(v, k)) for k, v in case["init"]])
        res["init"] = observe(df)
    except Exception as e:
        res["init_err"] = f"{type(e).__name__}: {e}"
        return res
    for st in case["steps"]:
        rec = {}
        try:
            k = st["k"]
            if k == "setitem":
                df[st["name"]] = value_of(st["v"], st["name"], df)
            elif k == "setattr":
                setattr(df, st["name"], value_of(st["v"], st["name"], df))
            elif k == "delitem":
                del df[st["name"]]
            elif k == "delattr":
                delattr(df, st["name"])
            elif k == "pop":
                df.pop(st["name"])
            elif k == "popitem":
                df.popitem()
            elif k == "colnames":
                names = new_names(st["perm"], df.colnames, ["p", "q", "r", "s", "t", "u", "v2", "x", "y"])
                rec["names"] = names
                df.colnames = names
            elif k == "transform":
                GROUPED_BAD[0] = False
                SLICE_EXPECT[0] = None
                # (a frame without columns has no row count to violate; an operand column whose name the receiver already
                # has is skipped by cbind — first occurrence wins — and never measured)
                rec["nrow_before"] = int(df.nrow) if df.ncol and not (st["m"] == "cbind_long" and "wl" in df) else None
                try:
                    out = transform(df, st["m"])
                finally:
                    if st["m"].startswith("modify_grouped:"):
                        df._group_colnames = ()
                rec["grouped_bad"] = GROUPED_BAD[0]
                rec["slice_expect"] = SLICE_EXPECT[0]
                rec["names_after"] = list(dict.keys(out))
                rec["names_expected"] = expected_names(st["m"], list(dict.keys(df)), int(df.nrow) if df.ncol else 0)
                if not isinstance(out, di.DataFrame):
                    raise TypeError("transform did not return a DataFrame")
                df = out
                rec["pairs"] = [[c, int(len(dict.__getitem__(df, c)))] for c in dict.keys(df)]
            rec["ok"] = True
        except Exception as e:
            rec["ok"] = False
            rec["err"] = f"{type(e).__name__}: {e}"
        rec["obs"] = observe(df)
        res["steps"].append(rec)
    return res


def model_requests(case, obs):
    import dataiter as di
    cls = set(dir(di.DataFrame()))
    ops = []
    for st, rec in zip(case["steps"], obs.get("steps", [])):
        k = st["k"]
        if k in ("setitem", "setattr"):
            ops.append({"k": k, "name": st["name"], "v": st["v"]})
        elif k in ("delitem", "delattr", "pop"):
            ops.append({"k": k, "name": st["name"]})
        elif k == "popitem":
            ops.append({"k": "popitem"})
        elif k == "colnames":
            ops.append({"k": "colnames", "names": rec.get("names", [])})
        elif k == "transform":
            ops.append({"k": "rebuild", "pairs": rec["pairs"] if "pairs" in rec else [["__reject__", "nd"]]})
    return [("fs_run", {"ident": [u for u in UNIVERSE + ["p", "q", "r", "s", "t", "u", "v2", "renamed", "B", "v", "zg", "wl", "jx", "jy"] if u.isidentifier()],
                        "classAttr": [u for u in UNIVERSE + ["p", "q", "r", "s", "t", "u", "v2", "renamed", "B", "v", "zg", "wl", "jx", "jy"] if u in cls],
                        "universe": UNIVERSE, "init": case["init"], "ops": ops})]


def check_state(ctx, sub, o, what):
    """The invariant and attribute/key coherence on the real object."""
    import dataiter as di
    cls = set(dir(di.DataFrame()))
    names = [c[0] for c in o["cols"]]
    lens = {c[1] for c in o["cols"]}
    if any(c[2] != 1 or not c[3] for c in o["cols"]):
        ctx.violation("oracle", "inv:not-column-vector", f"{what}: a column is not a one-dimensional DataFrameColumn", sub, o)
    if len(lens) > 1:
        ctx.violation("oracle", "inv:not-rectangular", f"{what}: columns have different lengths {sorted(lens)}", sub, o)
    if isinstance(o["nrow"], str):
        ctx.violation("oracle", "inv:nrow-raises", f"{what}: data.nrow raises {o['nrow']}", sub, o)
    elif names and o["nrow"] != o["cols"][0][1]:
        ctx.violation("oracle", "inv:nrow-wrong", f"{what}: nrow does not match the columns", sub, o)
    for k, look in zip(UNIVERSE, o["lookup"]):
        if k.isidentifier() and k not in cls:
            if k in names and look != "column":
                ctx.violation("oracle", "attr:column-not-reachable", f"{what}: column {k!r} is in the frame but getattr gives {look}", sub, o)
            if k not in names and look != "error":
                ctx.violation("oracle", "attr:removed-still-reachable", f"{what}: {k!r} is not a column but getattr gives {look}", sub, o)
        if look == "placeholder":
            ctx.violation("oracle", "attr:placeholder-leak", f"{what}: getattr(data, {k!r}) returns the placeholder class", sub, o)


def judge(ctx, case, obs, mouts):
    m = mouts[0] if mouts else None
    if "init_err" in obs:
        shapes = [v for k, v in dict(map(tuple, case["init"])).items()]
        ls = {1 if v == "scalar" else 2 if v == "nd" else v for v in shapes}
        nrow = max(ls) if ls else 0
        legit = "nd" in shapes or any((1 if v == "scalar" else v) not in (1, nrow) for v in shapes) or (nrow == 0 and "scalar" in shapes)
        if not legit:
            ctx.violation("oracle", "new:rejects-valid", f"constructor rejected a valid column set: {obs['init_err']}", case, obs)
        if m is not None and not isinstance(m, dict):
            pass
        elif m is not None and m.get("init_ok"):
            ctx.violation("correspondence", "new:differs", "model accepts the constructor arguments, implementation rejects them", case, obs, m)
        ctx.case_done(case, False)
        return
    check_state(ctx, {"op": "history", "init": case["init"], "steps": []}, obs["init"], "after the constructor")
    if m is not None and isinstance(m, dict) and "err" not in m:
        if not m.get("init_ok"):
            ctx.violation("correspondence", "new:differs", "model rejects the constructor arguments, implementation accepts them", case, obs, m)
            m = None
    rejected = accepted = 0
    order = [c[0] for c in obs["init"]["cols"]]
    for idx, (st, rec) in enumerate(zip(case["steps"], obs["steps"])):
        sub = {"op": "history", "init": case["init"], "steps": case["steps"][:idx + 1]}
        ctx.count(st["k"] + (":" + st["m"] if st["k"] == "transform" else ""))
        o = rec["obs"]
        check_state(ctx, sub, o, f"after step {idx} ({st['k']})")
        names = [c[0] for c in o["cols"]]
        if st["k"] == "transform" and rec["ok"]:
            mm = st["m"]
            if mm in ("cbind_long", "update_long") and rec.get("nrow_before") is not None:
                ctx.violation("oracle", f"{mm.split('_')[0]}:stores-mismatch",
                              f"{mm}: an operand with {rec['nrow_before'] + 2} rows was accepted by a receiver with {rec['nrow_before']} rows (result lengths {rec.get('pairs')})", sub, rec)
            if mm.startswith("slice_cols:") and rec.get("slice_expect") is not None:
                if rec["slice_expect"] == "reject":
                    ctx.violation("oracle", "slice:cols-out-of-range-accepted", f"slice(cols=...) with a position beyond the columns returned {rec.get('names_after')}", sub, rec)
                elif rec.get("names_after") != rec["slice_expect"]:
                    ctx.violation("oracle", "slice:cols-order", f"slice(cols=...) returned the columns {rec.get('names_after')}, requested by position: {rec['slice_expect']}", sub, rec)
        if st["k"] == "transform" and rec["ok"] and rec.get("names_expected") is not None and rec.get("names_after") != rec["names_expected"]:
            ctx.violation("oracle", f"order:transform:{st['m'].split(':')[0]}",
                          f"{st['m']} returned the columns {rec.get('names_after')}, expected {rec['names_expected']} (names unique, order stable: modify keeps the position of a replaced column, update moves it behind the kept ones, new ones are appended)", sub, rec)
        if rec["ok"] and rec.get("grouped_bad"):
            ctx.violation("oracle", "modify_grouped:stores-mismatch", "a group-wise modify stored a result whose length is neither 1 nor the size of its group", sub, rec)
        if rec["ok"]:
            accepted += 1
        else:
            rejected += 1
            if names != order:
                ctx.violation("oracle", "reject:state-changed", "a rejected operation changed the column set", sub, rec)
        # broadcast / rejection clause for assignments
        if st["k"] in ("setitem", "setattr"):
            prev_n = obs["steps"][idx - 1]["obs"]["nrow"] if idx else obs["init"]["nrow"]
            prev_cols = obs["steps"][idx - 1]["obs"]["cols"] if idx else obs["init"]["cols"]
            v = st["v"]
            vlen = 1 if v == "scalar" else None if v == "nd" else v
            if not prev_cols:
                should = "accept" if v != "nd" else "reject"
            elif v == "nd":
                should = "reject"
            elif vlen == prev_n:
                should = "accept"
            elif vlen == 1 and prev_n >= 1:
                should = "accept"
            elif vlen == 1 and prev_n == 0:
                should = "either"
            else:
                should = "reject"
            if should == "accept" and not rec["ok"]:
                ctx.violation("oracle", "assign:rejects-valid", f"assignment of a broadcastable / fitting value was rejected: {rec.get('err')}", sub, rec)
            if should == "reject" and rec["ok"]:
                ctx.violation("oracle", "assign:stores-mismatch", "a value of mismatching length / dimension was stored instead of rejected", sub, rec)
            if rec["ok"]:
                exp_order = order if st["name"] in order else order + [st["name"]]
                if names != exp_order:
                    ctx.violation("oracle", "order:assignment", f"column order changed by an assignment: {names} (expected {exp_order})", sub, rec)
        if st["k"] in ("delitem", "delattr", "pop", "popitem") and rec["ok"]:
            gone = st.get("name", order[-1] if order else None)
            if names != [x for x in order if x != gone]:
                ctx.violation("oracle", "order:deletion", "deleting a column changed the other columns or their order", sub, rec)
        if st["k"] == "colnames" and rec["ok"]:
            new = rec["names"]
            if len(new) == len(order) and len(set(new)) == len(new):
                if names != new:
                    ctx.violation("oracle", "colnames:not-positional", f"colnames assignment gave {names}, expected {new}", sub, rec)
        order = names
        if m is not None and isinstance(m, dict) and "err" not in m and idx < len(m["steps"]):
            ms = m["steps"][idx]
            if st["k"] == "transform" and not rec["ok"]:
                m = None   # the transform itself failed: no rebuild happened; stop comparing
                continue
            got_cols = [[c[0], c[1]] for c in o["cols"]]
            if ms["ok"] != rec["ok"]:
                ctx.violation("correspondence", f"{st['k']}:accept-differs", "model and implementation disagree on accepting the operation", sub, rec, ms)
                m = None
            elif ms["cols"] != got_cols:
                ctx.violation("correspondence", f"{st['k']}:cols-differ", "model and implementation disagree on columns / lengths / order", sub, rec, ms)
                m = None
            elif ms["lookup"] != o["lookup"]:
                ctx.violation("correspondence", f"{st['k']}:lookup-differs", "model and implementation disagree on attribute lookup", sub, rec, ms)
                m = None
            elif sorted(ms["attrs"]) != o["attrs"]:
                ctx.violation("correspondence", f"{st['k']}:attrs-differ", "model and implementation disagree on the placeholder attributes", sub, rec, ms)
                m = None
    if isinstance(mouts[0] if mouts else None, dict) and "err" in mouts[0]:
        ctx.violation("correspondence", "history:model-error", f"model rejected the request: {mouts[0]['err']}", case, obs, mouts[0])
    ctx.case_done(case, rejected >= 1 and accepted >= 2)


run = common.default_run(sys.modules[__name__])
search = common.default_search(sys.modules[__name__])

# -*- coding: utf-8 -*-
"""C18 — GeoJSON read/write is faithful to the feature collection."""

import json
import os
import re
import shutil
import sys
import tempfile

from harness import common

LEVEL = {"partial": ["json.dumps / json.load of member values and whole features are assumed correct (opaque blobs in the model); the model covers the hand-assembled skeleton (braces, brackets, member names, commas) and the column/metadata logic of read"]}
ASSUMPTIONS = ["json.dumps output is a well-formed JSON value and json.load inverts it"]
RULE = ("feature collections with 0..5 features, heterogeneous property sets over bool/int/float/str/null, null and non-null geometries of "
        "several types, 0..3 extra top-level members with nested values and awkward names (quotes, backslashes, control characters, non-ASCII, "
        "empty), indent in {default, None, 0, 2, 4}, ensure_ascii on/off; read of the raw file, write, json.load of the written file, re-read; "
        "non-trivial = >=2 features with different property sets")

NAMES = ["name", "crs", 'we"ird', "back\\slash", "tab\there", "ünï", "", "bbox"]
GEOMS = [None, {"type": "Point", "coordinates": [1.5, 2]}, {"type": "LineString", "coordinates": [[0, 0], [1, 1]]},
         {"type": "Polygon", "coordinates": [[[0, 0], [1, 0], [1, 1], [0, 0]]]},
         # geometries without a "coordinates" member, nested, and with empty coordinates: objects like any other
         {"type": "GeometryCollection", "geometries": [{"type": "Point", "coordinates": [0, 1]}, {"type": "LineString", "coordinates": [[0, 0], [2, 2]]}]},
         {"type": "GeometryCollection", "geometries": [{"type": "GeometryCollection", "geometries": []}]},
         {"type": "MultiPoint", "coordinates": []}]
PROPS = {"a": [1, 2, None, 7], "b": ["x", "ä", None, 'q"r', "p\u2028q", "r\ns"], "c": [1.5, None, -2.25], "d": [True, False, None], "e": ["only-here", None]}


def gen_case(rng, tier):
    nf = rng.choice([0, 1, 2, 3, 5])
    feats = []
    full = rng.random() < 0.25          # every feature has EVERY key (explicit nulls count), each in its own member order
    mixnum = rng.random() < 0.25        # a numeric property whose first value is a JSON integer and a later one a fraction
    for i in range(nf):
        keys = [k for k in PROPS if full or rng.random() < 0.6]
        rng.shuffle(keys)
        props = {k: rng.choice(PROPS[k]) for k in keys}
        if mixnum:
            props["m"] = [1, 2, 2.5, 7, -0.75][i % 5]
        feats.append({"type": "Feature", "properties": props, "geometry": rng.choice(GEOMS)})
    md = {}
    for nm in rng.sample(NAMES, rng.choice([0, 1, 2, 3])):
        # member values: any JSON value, incl. text with characters some tools treat as line breaks (U+2028 / U+2029 / U+0085,
        # form feed, vertical tab) at any depth, and text that looks like JSON syntax
        md[nm] = rng.choice([1, "v", None, [1, {"x": "y"}], {"type": "name", "properties": {"name": "EPSG:4326"}}, 'q"r', True,
                             "night network.\u2028Updated weekly.", {"note": ["a\u2029b", {"deep": "x\u0085y\x0cz\x0bw"}]}, "line\nbreak\r\n  indented",
                             '{"not": "an object"}, [', 0.5, -0.0, [], {}])
    raw = {"type": "FeatureCollection"}
    raw.update(md)
    raw["features"] = feats
    if rng.random() < 0.3:        # features not the last member
        raw["after"] = "z"
    return {"op": "geojson", "raw": raw, "indent": rng.choice(["default", None, 0, 2, 4]), "ensure_ascii": rng.random() < 0.3,
            "suffix": rng.choice(["", "", "", ".gz", ".bz2", ".xz"]),
            "columns": rng.sample(list(PROPS), rng.randint(0, 3)) if rng.random() < 0.3 else []}


def gen_cases(ctx):
    rng = ctx.rng
    cases = [
        {"op": "geojson", "raw": {"type": "FeatureCollection", 'na"me\\': {"x": 1}, "features": [{"type": "Feature", "properties": {"a": 1}, "geometry": None}]}, "indent": "default", "ensure_ascii": False, "columns": []},
        {"op": "geojson", "raw": {"type": "FeatureCollection", "features": []}, "indent": 2, "ensure_ascii": False, "columns": []},
        {"op": "geojson", "raw": {"type": "FeatureCollection", "features": [{"type": "Feature", "properties": {"name": "n"}, "geometry": None}, {"type": "Feature", "properties": {"pop": 3}, "geometry": None}]}, "indent": "default", "ensure_ascii": False, "columns": []},
    ]
    # known finding (reserved-name): a property KEY named "geometry" — the frame keeps the feature's geometry under that name
    cases.append({"op": "geojson", "raw": {"type": "FeatureCollection", "features": [
        {"type": "Feature", "properties": {"name": "a", "geometry": "x"}, "geometry": {"type": "Point", "coordinates": [0, 0]}},
        {"type": "Feature", "properties": {"name": "b", "geometry": "y"}, "geometry": None}]}, "indent": "default", "ensure_ascii": False, "columns": []})
    n = 300 if ctx.tier == "quick" else 6000
    for _ in range(n):
        cases.append(gen_case(rng, ctx.tier))
    return cases


def canon_cols(g):
    out = {}
    for k, v in g.items():
        if k == "geometry":
            out[k] = [json.dumps(x, sort_keys=True) for x in v]
        else:
            out[k] = [None if m else (x.item() if hasattr(x, "item") else x) for x, m in zip(v.tolist(), v.is_na())]
    return out


def impl(case):
    import dataiter as di
    d = tempfile.mkdtemp(prefix="verif-c18-")
    res = {}
    try:
        src = os.path.join(d, "in.geojson")
        with open(src, "w", encoding="utf-8") as f:
            json.dump(case["raw"], f, ensure_ascii=False)
        try:
            g = di.GeoJSON.read(src, columns=case["columns"])
            res["read"] = {"colnames": g.colnames, "cols": canon_cols(g), "metadata": json.loads(json.dumps(dict(g.metadata))), "nrow": g.nrow}
        except Exception as e:
            res["read_err"] = f"{type(e).__name__}: {e}"
            return res
        out = os.path.join(d, "out.geojson" + case.get("suffix", ""))
        kw = {}
        if case["indent"] != "default":
            kw["indent"] = case["indent"]
        if case["ensure_ascii"]:
            kw["ensure_ascii"] = True
        try:
            g.write(out, **kw)
            import bz2, gzip, lzma
            opener = {"": open, ".gz": gzip.open, ".bz2": bz2.open, ".xz": lzma.open}[case.get("suffix", "")]
            with opener(out, "rt", encoding="utf-8") as fh:      # (a file NAMED .gz must BE gzip: another tool reads it by its name)
                text = fh.read()
            res["text"] = text
            try:
                res["loaded"] = json.loads(text)
            except Exception as e:
                res["json_err"] = f"{type(e).__name__}: {e}"
            try:
                g2 = di.GeoJSON.read(out)
                res["reread"] = {"colnames": g2.colnames, "cols": canon_cols(g2), "metadata": json.loads(json.dumps(dict(g2.metadata)))}
            except Exception as e:
                res["reread_err"] = f"{type(e).__name__}: {e}"
        except Exception as e:
            res["write_err"] = f"{type(e).__name__}: {e}"
    finally:
        shutil.rmtree(d, ignore_errors=True)
    return res


def model_requests(case, obs):
    if "read" not in obs or "text" not in obs:
        return []
    md = obs["read"]["metadata"]
    n = obs["read"]["nrow"]
    # (1) the writer's token stream; (2) the reader: `Geo.readColumns` = `Read.frameFromRecords` over the features' properties
    recs = [[[k, json.dumps(v, sort_keys=True)] for k, v in f["properties"].items()] for f in case["raw"]["features"]]
    return [("geo_write", {"metadata": [[json.dumps(k, ensure_ascii=case["ensure_ascii"]), "v"] for k in md], "features": ["f"] * n}),
            ("read_restrict", {"kind": "frame", "records": recs, "columns": case["columns"] or []})]


def skeleton(text):
    """token skeleton of the written file: member-name strings at depth 1, values as V, structure."""
    dec = json.JSONDecoder()
    toks, i, n = [], 0, len(text)
    depth = 0
    expect_key = False
    while i < n:
        ch = text[i]
        if ch.isspace():
            i += 1
            continue
        if depth == 0 and ch == "{":
            toks.append("{"); depth = 1; expect_key = True; i += 1
        elif depth == 1 and ch == "}":
            toks.append("}"); depth = 0; i += 1
        elif depth == 1 and ch == ",":
            toks.append(","); expect_key = True; i += 1
        elif depth == 1 and ch == ":":
            toks.append(":"); expect_key = False; i += 1
        elif depth == 1 and expect_key and ch == '"':
            val, j = dec.raw_decode(text, i)
            toks.append("S:" + text[i:j]); i = j; expect_key = False
        elif depth == 1 and toks[-2:-1] and toks[-1] == ":" and toks[-2].startswith('S:"features"') and ch == "[":
            toks.append("["); depth = 2; i += 1
        elif depth == 2 and ch == "]":
            toks.append("]"); depth = 1; i += 1
        elif depth == 2 and ch == ",":
            toks.append(","); i += 1
        else:
            val, j = dec.raw_decode(text, i)
            toks.append("V"); i = j
    return toks


def judge(ctx, case, obs, mouts):
    raw = case["raw"]
    feats = raw["features"]
    ctx.count("features:%d" % min(len(feats), 3))
    nontrivial = len(feats) >= 2 and len({tuple(sorted(f["properties"])) for f in feats}) >= 2
    if "read_err" in obs:
        ctx.violation("oracle", "read:raises", f"GeoJSON.read raised: {obs['read_err']}", case, obs)
        ctx.case_done(case, nontrivial)
        return
    rd = obs["read"]
    keys = list(dict.fromkeys(k for f in feats for k in f["properties"]))
    if case["columns"]:
        keys = [k for k in keys if k in case["columns"]]
    if rd["nrow"] != len(feats) and not (len(feats) == 0):
        ctx.violation("oracle", "read:rows", "not one row per feature", case, obs)
    if [c for c in rd["colnames"] if c != "geometry"] != keys or "geometry" not in rd["colnames"]:
        ctx.violation("oracle", "read:columns", f"columns {rd['colnames']} != property keys {keys} + geometry", case, obs)
    else:
        for k in keys:
            exp = [f["properties"].get(k) for f in feats]
            got = rd["cols"][k]
            # the package's NA model: absent == null == "" for strings
            norm = lambda v: None if v in (None, "") else (float(v) if isinstance(v, (int, float)) and not isinstance(v, bool) else v)
            if [norm(x) for x in got] != [norm(x) for x in exp]:
                ctx.violation("oracle", "read:values", f"column {k}: {got} != {exp}", case, obs)
        if rd["cols"]["geometry"] != [json.dumps(f["geometry"], sort_keys=True) for f in feats]:
            ctx.violation("oracle", "read:geometry", "geometry objects changed", case, obs)
    exp_md = {k: v for k, v in raw.items() if k != "features"}
    if rd["metadata"] != exp_md:
        ctx.violation("oracle", "read:metadata", f"metadata {rd['metadata']} != other top-level members {exp_md}", case, obs)
    if "write_err" in obs:
        ctx.violation("oracle", "write:raises", f"GeoJSON.write raised: {obs['write_err']}", case, obs)
    elif "json_err" in obs:
        ctx.violation("oracle", "write:invalid-json", f"the written file is not valid JSON: {obs['json_err']}", case, obs)
    elif "loaded" in obs:
        ld = obs["loaded"]
        if {k: v for k, v in ld.items() if k != "features"} != exp_md:
            ctx.violation("oracle", "write:metadata", "metadata of the written file differs", case, obs)
        wf = ld.get("features")
        ok = isinstance(wf, list) and len(wf) == len(feats)
        if ok:
            for a, b in zip(wf, feats):
                pa = {k: v for k, v in a.get("properties", {}).items() if v is not None and v != ""}
                pb = {k: v for k, v in b["properties"].items() if v is not None and v != "" and (not case["columns"] or k in case["columns"])}
                pa = {k: (float(v) if isinstance(v, (int, float)) and not isinstance(v, bool) else v) for k, v in pa.items()}
                pb = {k: (float(v) if isinstance(v, (int, float)) and not isinstance(v, bool) else v) for k, v in pb.items()}
                if pa != pb or a.get("geometry") != b["geometry"] or a.get("type") != "Feature":
                    ok = False
        if not ok:
            ctx.violation("oracle", "write:features", "the written file does not contain the same features in the same order", case, obs)
        if "reread_err" in obs:
            ctx.violation("oracle", "reread:raises", f"re-reading the written file raised: {obs['reread_err']}", case, obs)
        elif "reread" in obs:
            rr = obs["reread"]
            if rr["colnames"] != rd["colnames"] or rr["cols"] != rd["cols"] or rr["metadata"] != rd["metadata"]:
                # an all-missing column may come back under another dtype; compare loosely on values
                if rr["colnames"] != rd["colnames"] or rr["metadata"] != rd["metadata"] or \
                        any([None if v == "" else v for v in rr["cols"][k]] != [None if v == "" else v for v in rd["cols"][k]] for k in rd["colnames"]):
                    ctx.violation("oracle", "reread:differs", "write + read does not return the same frame / metadata", case, obs)
    if mouts and "text" in obs and "json_err" not in obs:
        m = mouts[0]
        if isinstance(m, dict) and "err" in m:
            ctx.violation("correspondence", "write:model-error", f"model rejected the request: {m['err']}", case, obs, m)
        else:
            try:
                sk = skeleton(obs["text"])
            except Exception as e:
                sk = ["unparseable: %r" % e]
            exp = [t if not t.startswith("V:") else "V" for t in m]
            if sk != exp:
                ctx.violation("correspondence", "write:skeleton-differs", "token skeleton of the written file differs from the model's", case, {"skeleton": sk}, exp)
    if mouts and len(mouts) > 1 and "read" in obs:
        m = mouts[1]
        if isinstance(m, dict) and "err" in m:
            ctx.violation("correspondence", "read:model-error", f"model rejected the request: {m['err']}", case, obs, m)
        else:
            rd = obs["read"]
            got_names = [k for k in rd["colnames"] if k != "geometry"]
            if [k for k, _ in m] != got_names:
                ctx.violation("correspondence", "read:columns-differ", "model and implementation read different columns / order", case, obs, m)
            else:
                for k, vals in m:
                    mine = [None if v is None or json.loads(v) is None else json.loads(v) for v in vals]
                    theirs = rd["cols"][k]
                    norm = lambda x: None if x is None or x == "" or (isinstance(x, float) and x != x) else (float(x) if isinstance(x, (int, float)) and not isinstance(x, bool) else
                                     json.dumps(x, sort_keys=True) if isinstance(x, (dict, list)) else x)
                    if [norm(x) for x in mine] != [norm(x) for x in theirs]:
                        ctx.violation("correspondence", "read:values-differ", f"model and implementation disagree on column {k!r}", case, {"impl": theirs}, mine)
                        break
    ctx.case_done(case, nontrivial)


run = common.default_run(sys.modules[__name__])
search = common.default_search(sys.modules[__name__])

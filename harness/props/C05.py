# -*- coding: utf-8 -*-
"""C05 — joins follow first-match relational semantics and never lose rows."""

import itertools
import sys

import numpy as np

from harness import common, framegen, vecgen

LEVEL = {"partial": ["Python dict/tuple equality on NumPy scalars (key lookup) and np.where / fancy assignment are stand-ins validated by the correspondence run"]}
ASSUMPTIONS = ["dict built front to back keeps the last index per key; tuple equality = element-wise ==, None == None, NaN != NaN"]
# objects with a history are also left grouped by an earlier group_by (harness/warm.py): none of the
# operations of this property is documented as group-wise
WARM_GROUPED = True
RULE = ("pairs of frames, 0..10 (thorough ..40) rows each, 1..2 key columns of one dtype kind per key position on both sides "
        "(10 kinds, tiny value pools: duplicates and missing keys on both sides are the norm), same-name and (left,right) renamed keys, "
        "one payload column per side; all five joins; non-trivial = both sides >=2 rows with a matched and an unmatched left row; "
        "thorough adds all key columns over {NA,a,b} with <=3 x <=3 rows")

JOINS = ["left", "inner", "semi", "anti", "full"]


def gen_pair(rng, tier):
    k = rng.choice([1, 1, 2])
    kinds = [rng.choice(framegen.KEY_KINDS) for _ in range(k)]
    big = 40 if tier == "thorough" else 10

    def side(prefix):
        n = rng.choice([0, 1, 2, 3, 4, 5, rng.randint(0, big)])
        cols = []
        for j, kind in enumerate(kinds):
            pool = [p for p in vecgen.POOLS[kind]]
            cols.append((kind, pool))
        return n, cols
    pools = []
    for kind in kinds:
        pool = vecgen.POOLS[kind]
        sub = rng.sample(pool, min(rng.choice([2, 3, 3, 4]), len(pool)))
        pools.append(sub)
    renamed = rng.random() < 0.4
    lnames = [f"k{j}" for j in range(k)]
    rnames = [f"r{j}" for j in range(k)] if renamed else lnames
    nl = rng.choice([0, 1, 2, 3, 4, 5, rng.randint(0, big)])
    nr = rng.choice([0, 1, 2, 3, 4, 5, rng.randint(0, big)])
    left = {"n": nl, "cols": [{"name": lnames[j], "kind": kinds[j], "vals": [rng.choice(pools[j]) for _ in range(nl)]} for j in range(k)]}
    right = {"n": nr, "cols": [{"name": rnames[j], "kind": kinds[j], "vals": [rng.choice(pools[j]) for _ in range(nr)]} for j in range(k)]}
    for j in range(k):
        if kinds[j] == "date" and rng.random() < 0.5:
            # the same instants in another unit on one side (a date column joined with a timestamp column), some of them
            # not at midnight: equal keys are equal instants (fixed c09ead9: they never matched)
            side = rng.choice([left, right])
            c = side["cols"][j]
            c["kind"] = "datetime"
            c["vals"] = [None if v is None else v * 86400000000 + rng.choice([0, 0, 0, 45000000000]) for v in c["vals"]]
    left["cols"].append({"name": "lp", "kind": "int", "vals": [rng.randint(0, 9) for _ in range(nl)]})
    pk = rng.choice(["int", "int32", "float", "str", "bool", "date"])
    right["cols"].append({"name": "rp", "kind": pk, "vals": [rng.choice([v for v in vecgen.POOLS[pk] if not vecgen.is_na_val(pk, v)]) for _ in range(nr)]})
    if renamed and rng.random() < 0.25:
        # the right frame owns a NON-key column named like the left key (an `id` of its own next to the `owner` it is joined
        # by): the left frame's column of that name wins, as for any other name present on both sides
        extra = {"name": lnames[0], "kind": "int", "vals": [rng.randint(100, 109) for _ in range(nr)]}
        pos = rng.choice([k, k + 1])
        right["cols"].insert(pos, extra)
    by = [[a, b] for a, b in zip(lnames, rnames)]
    if renamed and k == 2 and rng.random() < 0.25 and right["cols"][1]["name"] == rnames[1]:
        # the SAME left column compared with two right columns (`by=[("id", "owner"), ("id", "payer")]`): both equalities hold
        # for a match
        right["cols"][1] = {"name": rnames[1], "kind": left["cols"][0]["kind"] if right["cols"][0]["kind"] == left["cols"][0]["kind"] else right["cols"][0]["kind"],
                            "vals": [rng.choice(right["cols"][0]["vals"] + pools[0]) if nr else None for _ in range(nr)]}
        by = [[lnames[0], rnames[0]], [lnames[0], rnames[1]]]
    return left, right, by


def gen_cases(ctx):
    rng = ctx.rng
    cases = []
    f = lambda n, vals, name="k0", kind="float": {"name": name, "kind": kind, "vals": vals}
    # corpus (fixed defects)
    cases.append({"op": "semi", "left": {"n": 3, "cols": [f(3, ["a", "", ""], kind="str"), {"name": "lp", "kind": "int", "vals": [1, 2, 3]}]},
                  "right": {"n": 2, "cols": [f(2, ["", "a"], kind="str"), {"name": "rp", "kind": "int", "vals": [1, 2]}]}, "by": [["k0", "k0"]]})
    cases.append({"op": "left", "left": {"n": 2, "cols": [f(2, [1.0, 2.0]), {"name": "lp", "kind": "int", "vals": [1, 2]}]},
                  "right": {"n": 0, "cols": [f(0, []), {"name": "rp", "kind": "float", "vals": []}]}, "by": [["k0", "k0"]]})
    cases.append({"op": "full", "left": {"n": 2, "cols": [f(2, [1.0, 2.0]), {"name": "lp", "kind": "int", "vals": [1, 2]}]},
                  "right": {"n": 1, "cols": [f(1, [1.5]), {"name": "rp", "kind": "float", "vals": [1.0]}]}, "by": [["k0", "k0"]]})
    cases.append({"op": "left", "left": {"n": 0, "cols": [f(0, []), {"name": "lp", "kind": "int", "vals": []}]},
                  "right": {"n": 1, "cols": [f(1, [1.5]), {"name": "rp", "kind": "str", "vals": ["a"]}]}, "by": [["k0", "k0"]]})
    # small scope, every tier: keys that are equal as values but differ in representation (0.0 / -0.0; NaNs with
    # different bit patterns, see vecgen.make_array) on the right side, where "first match" must still hold
    alpha = ["-0.0", 0.0, "nan"]
    for lv in alpha:
        for nr in (2, 3):
            for rv in itertools.product(alpha, repeat=nr):
                left = {"n": 2, "cols": [{"name": "k0", "kind": "float", "vals": [lv, 1.5]}, {"name": "lp", "kind": "int", "vals": [0, 1]}]}
                right = {"n": nr, "cols": [{"name": "k0", "kind": "float", "vals": list(rv)}, {"name": "rp", "kind": "int", "vals": list(range(10, 10 + nr))}]}
                for op in ("left", "inner", "full"):
                    cases.append({"op": op, "left": left, "right": right, "by": [["k0", "k0"]]})
    n = 500 if ctx.tier == "quick" else 12000
    for _ in range(n):
        left, right, by = gen_pair(rng, ctx.tier)
        for op in (JOINS if rng.random() < 0.3 else [rng.choice(JOINS)]):
            cases.append({"op": op, "left": left, "right": right, "by": by})
    if ctx.tier == "thorough":
        for kind, alpha in (("float", ["nan", 1.0, 2.0]), ("str", ["", "a", "b"])):
            for nl in range(0, 4):
                for nr in range(0, 4):
                    for lv in itertools.product(alpha, repeat=nl):
                        for rv in itertools.product(alpha, repeat=nr):
                            left = {"n": nl, "cols": [{"name": "k0", "kind": kind, "vals": list(lv)}, {"name": "lp", "kind": "int", "vals": list(range(nl))}]}
                            right = {"n": nr, "cols": [{"name": "k0", "kind": kind, "vals": list(rv)}, {"name": "rp", "kind": "int", "vals": list(range(nr))}]}
                            for op in JOINS:
                                cases.append({"op": op, "left": left, "right": right, "by": [["k0", "k0"]]})
    return cases


def impl(case):
    op, by = case["op"], case["by"]
    a = framegen.build(case["left"], rid="_lid_")
    b = framegen.build(case["right"], rid="_rid2_")
    sa, sb = framegen.snapshot(a), framegen.snapshot(b)
    byarg = [x[0] if x[0] == x[1] else (x[0], x[1]) for x in by]
    res = {}
    try:
        out = getattr(a, op + "_join")(b, *byarg)
        res["colnames"] = out.colnames
        res["nrow"] = out.nrow
        res["cols"] = {k: vecgen.canon_array(v) for k, v in out.items()}
        res["na"] = {k: [bool(x) for x in v.is_na()] for k, v in out.items()}
    except Exception as e:
        res["err"] = f"{type(e).__name__}: {e}"
    res["mutated"] = framegen.snapshot(a) != sa or framegen.snapshot(b) != sb
    return res


def model_requests(case, obs):
    L, R, by = case["left"], case["right"], case["by"]
    def key_cells(c, other):
        cells = vecgen.cells(c["kind"], c["vals"])
        if c["kind"] == "date" and other["kind"] == "datetime":
            cells = [None if v is None else v * 86400000000 for v in cells]      # compared as instants
        return cells
    lk = [key_cells(framegen.col(L, x[0]), framegen.col(R, x[1])) for x in by]
    rk = [key_cells(framegen.col(R, x[1]), framegen.col(L, x[0])) for x in by]
    return [("join", {"kind": case["op"], "n": L["n"], "m": R["n"], "lkeys": lk, "rkeys": rk})]


def first_match(case, i):
    L, R, by = case["left"], case["right"], case["by"]
    ln = [x[0] for x in by]
    rn = [x[1] for x in by]
    if framegen.row_has_na(L, ln, i):
        return None
    k = framegen.key_tuple(L, ln, i)
    for j in range(R["n"]):
        if not framegen.row_has_na(R, rn, j) and framegen.key_tuple(R, rn, j) == k:
            return j
    return None


def ids_of(obs, name):
    if name not in obs["cols"]:
        return None
    out = []
    for v, na in zip(obs["cols"][name], obs["na"][name]):
        out.append(None if (na or v is None or v == "nan") else int(v))
    return out


def judge(ctx, case, obs, mouts):
    op, by = case["op"], case["by"]
    L, R = case["left"], case["right"]
    nl, nr = L["n"], R["n"]
    ctx.count(op)
    ctx.count("renamed" if by[0][0] != by[0][1] else "same-name")
    for x in by:
        ctx.count("key:" + framegen.col(L, x[0])["kind"])
    fm = [first_match(case, i) for i in range(nl)]
    nontrivial = nl >= 2 and nr >= 2 and any(m is not None for m in fm) and any(m is None for m in fm)
    pairs = None
    if "err" in obs:
        shape = "empty-side" if (nl == 0 or nr == 0) else "no-match" if all(m is None for m in fm) else "some"
        ctx.violation("oracle", f"{op}:raises:{shape}", f"{op}_join raised: {obs['err']}", case, obs)
    else:
        if obs["mutated"]:
            ctx.violation("oracle", f"{op}:mutates", "join changed an operand", case, obs)
        lid = ids_of(obs, "_lid_")
        rid = ids_of(obs, "_rid2_")
        lcan = {c["name"]: vecgen.canon_vals(c["kind"], c["vals"]) for c in L["cols"]}
        rcan = {c["name"]: vecgen.canon_vals(c["kind"], c["vals"]) for c in R["cols"]}

        def same(kind, a, b):
            if vecgen.canon_is_na(kind, a) and (b is None or vecgen.canon_is_na(kind, b) or b == "nan"):
                return True
            if kind in ("int", "int32", "bool") and isinstance(b, float):   # widened to float / object by NA filling
                return float(a) == b
            return a == b

        def check_left_cols(rows, loose=()):
            # `loose`: key columns of a full join. A row appended from the right side carries the right
            # frame's key value, which is *equal* to the left row's key but need not be the same bit
            # pattern (0.0 and -0.0): the property demands equal keys there, not identical bytes.
            for c in L["cols"]:
                got = obs["cols"].get(c["name"])
                if got is None:
                    return f"left column {c['name']} missing"
                for j, i in enumerate(rows):
                    if i is None or same(c["kind"], lcan[c["name"]][i], got[j]):
                        continue
                    if c["name"] in loose:
                        a, b = lcan[c["name"]][i], got[j]
                        if not vecgen.canon_is_na(c["kind"], a) and not vecgen.canon_is_na(c["kind"], b) \
                                and vecgen.sort_key(c["kind"], a) == vecgen.sort_key(c["kind"], b):
                            continue
                        # a date key stacked on top of a timestamp key of the other frame: the same instant in the finer unit
                        if c["kind"] == "date" and isinstance(a, int) and isinstance(b, int) and a * 86400000000 == b:
                            continue
                    return f"left column {c['name']} changed at output row {j}"
            return None
        if op in ("semi", "anti"):
            exp = [i for i in range(nl) if (fm[i] is not None) == (op == "semi")]
            if lid != exp:
                ctx.violation("oracle", f"{op}:wrong-rows", f"{op}_join returned left rows {lid}, expected {exp}", case, obs, exp)
            elif obs["colnames"] != [c["name"] for c in L["cols"]] + ["_lid_"]:
                ctx.violation("oracle", f"{op}:columns", "semi/anti join changed the column set", case, obs)
            else:
                p = check_left_cols(lid)
                if p:
                    ctx.violation("oracle", f"{op}:not-whole-rows", p, case, obs)
            pairs = lid
        else:
            pairs = [[a, b] for a, b in zip(lid, rid)] if rid is not None and lid is not None else None
            if pairs is None:
                ctx.violation("oracle", f"{op}:columns", "row-id columns missing from the join result", case, obs)
            else:
                if op == "left":
                    exp = [[i, fm[i]] for i in range(nl)]
                elif op == "inner":
                    exp = [[i, fm[i]] for i in range(nl) if fm[i] is not None]
                else:
                    exp = None
                if exp is not None and pairs != exp:
                    ctx.violation("oracle", f"{op}:wrong-pairs", f"{op}_join paired rows {pairs}, first-match semantics requires {exp}", case, obs, exp)
                # the column set of a join: the left frame's columns, then the right frame's columns that are neither a right
                # key nor a name the left frame has — the same for left, inner and full join (inner = the matched subset of left)
                lcols = [c["name"] for c in L["cols"]] + ["_lid_"]
                rkeys = {x[1] for x in by}
                expcols = lcols + [c for c in [c["name"] for c in R["cols"]] + ["_rid2_"] if c not in rkeys and c not in lcols]
                if obs["colnames"] != expcols:
                    ctx.violation("oracle", f"{op}:column-set", f"{op}_join returned the columns {obs['colnames']}, expected {expcols}", case, obs, expcols)
                if op == "full":
                    ln = [x[0] for x in by]
                    rn = [x[1] for x in by]
                    lefts = [a for a, b in pairs if a is not None]
                    rights = [b for a, b in pairs if b is not None]
                    if set(lefts) != set(range(nl)):
                        ctx.violation("oracle", "full:left-rows", "full_join does not contain every left row at least once", case, obs)
                    if set(rights) != set(range(nr)):
                        ctx.violation("oracle", "full:right-rows", "full_join does not contain every right row at least once", case, obs)
                    for a, b in pairs:
                        if a is not None and b is not None:
                            if framegen.row_has_na(L, ln, a) or framegen.row_has_na(R, rn, b) or framegen.key_tuple(L, ln, a) != framegen.key_tuple(R, rn, b):
                                ctx.violation("oracle", "full:unequal-keys", "full_join paired rows with unequal or missing keys", case, obs)
                                break
                # whole rows: left columns at lid, right payload at rid (or missing)
                p = check_left_cols([a for a, b in pairs], loose=set(x[0] for x in by) if op == "full" else ())
                if p:
                    ctx.violation("oracle", f"{op}:left-changed", p, case, obs)
                got = obs["cols"].get("rp")
                if got is None:
                    ctx.violation("oracle", f"{op}:columns", "right payload column missing", case, obs)
                else:
                    kind = framegen.col(R, "rp")["kind"]
                    for j, (a, b) in enumerate(pairs):
                        if b is None:
                            if not obs["na"]["rp"][j]:
                                ctx.violation("oracle", f"{op}:na-fill", "unmatched row does not carry a missing value in the joined-in column", case, obs)
                                break
                        elif not same(kind, rcan["rp"][b], got[j]):
                            ctx.violation("oracle", f"{op}:right-values", "joined-in value is not the matched right row's value", case, obs)
                            break
    if mouts is not None and "err" not in obs and pairs is not None:
        m = mouts[0]
        if isinstance(m, dict) and "err" in m:
            ctx.violation("correspondence", f"{op}:model-error", f"model rejected the request: {m['err']}", case, obs, m)
        elif m != pairs:
            ctx.violation("correspondence", f"{op}:differs", "model and implementation pair rows differently", case, obs, m)
    ctx.case_done(case, nontrivial)


run = common.default_run(sys.modules[__name__])
search = common.default_search(sys.modules[__name__])

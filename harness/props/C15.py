# -*- coding: utf-8 -*-
"""C15 — ListOfDicts transformations match plain list-of-dict semantics."""

import copy
import io
import sys
from contextlib import redirect_stdout

from harness import common, lodgen

LEVEL = {"partial": ["Python's sorted()/dict/list semantics enter through the stand-ins of Model/LoD.lean (stable sort, insertion-ordered dicts), validated by the correspondence run",
                     "'the result is a ListOfDicts whose items support attribute access' is observed"]}
ASSUMPTIONS = ["sorted(key=, reverse=) is stable with flipped comparisons; dict preserves insertion order, assignment to an existing key keeps its position"]
RULE = ("chains of 1..6 method calls on lists of 0..8 ragged dicts (keys a,b in every item; c,d,e ragged; None values and duplicates "
        "frequent); methods: filter/filter_out (predicate, key=value), sort (1..3 keys, directions), unique, select, unselect, rename, "
        "modify, modify_if, fill_missing_keys, append, extend, insert (index in -len-2..len+2), +, *, reverse, head, tail (n in 0..len+2), "
        "slicing; every step is judged (oracle on plain lists/dicts + model); non-trivial = list of >=2 items and a result differing from the input")

METHODS = ["filter_fn", "filter_out_fn", "filter_kv", "filter_out_kv", "sort", "unique", "unique_all", "group_by", "select", "unselect", "rename",
           "modify", "modify_if", "fill", "fill_all", "append", "extend", "insert", "add", "mul", "reverse", "head", "tail", "slice"]


def gen_step(rng, n_hint):
    m = rng.choice(METHODS)
    st = {"m": m}
    if m in ("filter_fn", "filter_out_fn", "modify_if"):
        st["pred"] = [rng.choice(["a", "b"]), rng.choice(lodgen.INT_POOL + lodgen.STR_POOL)]
    if m in ("filter_kv", "filter_out_kv"):
        ks = rng.sample(lodgen.COMMON, rng.choice([1, 1, 2]))
        st["kvs"] = [[k, rng.choice(lodgen.pool(k))] for k in ks]
    if m == "sort":
        ks = rng.sample(lodgen.COMMON, rng.choice([1, 2]))
        st["keys"] = [[k, rng.choice([1, -1])] for k in ks]
    if m == "unique":
        st["keys"] = rng.sample(lodgen.COMMON, rng.choice([1, 2]))
    if m == "group_by":
        # marks the list (and, through _new, every list derived from it) for a later aggregate; no other method of this
        # property is documented to look at it
        st["keys"] = rng.sample(lodgen.COMMON, 1)
    if m in ("select", "unselect"):
        st["keys"] = rng.sample(lodgen.COMMON + lodgen.RAGGED, rng.randint(1, 3))
    if m == "rename":
        frm = rng.sample(["a", "b", "c", "d"], rng.choice([1, 2]))
        to = rng.sample(["r", "q", "e"], len(frm))
        st["to_from"] = [[t, f] for t, f in zip(to, frm)]
    if m in ("modify", "modify_if"):
        st["key"] = rng.choice(["a", "c", "r"])
        st["add"] = rng.randint(1, 3)
        if m == "modify" and rng.random() < 0.3:
            # two pairs in ONE call, the second reading the key the first has just written: pairs are applied in order, item
            # by item, as the plain loop does
            st["key"] = "a"
            st["key2"] = rng.choice(["c", "r", "s"])
    if m in ("filter_fn", "filter_out_fn") and rng.random() < 0.2:
        # a predicate AND key=value pairs in one call: whatever the two calls make of the combination, filter and filter_out
        # given the same arguments split the list in two
        ks = rng.sample(lodgen.COMMON, 1)
        st["both_kvs"] = [[k, rng.choice(lodgen.pool(k))] for k in ks]
    if m == "fill":
        st["kvs"] = [[k, rng.choice([None, 7])] for k in rng.sample(lodgen.RAGGED + ["r"], rng.choice([1, 2]))]
    if m == "append":
        st["item"] = lodgen.gen_dict(rng)
    if m in ("extend", "add"):
        st["items"] = lodgen.gen_dicts(rng, n=rng.choice([0, 1, 2]))
    if m == "insert":
        st["item"] = lodgen.gen_dict(rng)
        st["index"] = rng.randint(-n_hint - 2, n_hint + 2)
    if m == "mul":
        st["n"] = rng.choice([0, 1, 2, 3])
    if m in ("head", "tail"):
        st["n"] = rng.randint(0, n_hint + 2)
    if m == "slice":
        a = rng.randint(0, n_hint + 1)
        st["a"], st["b"] = a, rng.randint(0, n_hint + 2)
        if rng.random() < 0.4:
            # every form a Python list takes: a step (also backwards, also other than -1), negative and omitted bounds
            st["step"] = rng.choice([-1, -2, -3, 2, 3, -4])
            st["a"] = rng.choice([None, a, -a - 1, n_hint + 1 - a])
            st["b"] = rng.choice([None, st["b"], -rng.randint(0, n_hint + 2) - 1])
    return st


def gen_cases(ctx):
    rng = ctx.rng
    cases = [
        {"op": "chain", "dicts": [{"a": 1, "b": "x"}, {"a": 2, "b": "y"}, {"a": 3, "b": "z"}], "steps": [{"m": "tail", "n": 0}]},
        {"op": "chain", "dicts": [{"a": 1, "b": "x"}, {"a": 2, "b": "y"}], "steps": [{"m": "insert", "item": {"a": 9, "b": "q"}, "index": 2}]},
        {"op": "chain", "dicts": [{"a": 1, "b": "x"}, {"a": 2, "b": "y"}], "steps": [{"m": "insert", "item": {"a": 9, "b": "q"}, "index": -1}]},
        {"op": "chain", "dicts": [{"a": None, "b": "x"}, {"a": 2, "b": None}, {"a": 1, "b": "y"}, {"a": 2, "b": "x"}], "steps": [{"m": "sort", "keys": [["a", 1], ["b", -1]]}]},
    ]
    # the same dict object at two positions (`*`), then an in-place edit whose condition / value reads the key it writes:
    # a plain loop sees the object, at its second position, as the first visit left it
    for _ in range(30 if ctx.tier == "quick" else 600):
        dicts = lodgen.gen_dicts(rng, n=rng.choice([1, 2, 3]))
        v = rng.choice([d["a"] for d in dicts] + [None])
        edit = rng.choice([{"m": "modify_if", "pred": ["a", v], "key": "a", "add": rng.randint(1, 3)},
                           {"m": "modify_if", "pred": ["a", v], "key": "c", "add": 1},
                           {"m": "modify", "key": "a", "add": rng.randint(1, 3)}])
        cases.append({"op": "chain", "dicts": dicts, "steps": [{"m": "mul", "n": rng.choice([2, 3])}, edit]})
    n = 500 if ctx.tier == "quick" else 12000
    for _ in range(n):
        dicts = lodgen.gen_dicts(rng)
        k = rng.choice([1, 1, 2, 3, 4, 6])
        cases.append({"op": "chain", "dicts": dicts, "steps": [gen_step(rng, len(dicts)) for _ in range(k)]})
    # the same call again later in the chain (same arguments), with steps in between that change order,
    # membership or the values of the keys: whatever the first call remembered must not be reused
    for _ in range(n // 5):
        dicts = lodgen.gen_dicts(rng)
        while True:
            first = gen_step(rng, len(dicts))
            if first["m"] in ("sort", "unique", "filter_kv", "filter_out_kv", "select", "head", "tail", "fill"):
                break
        if rng.random() < 0.7:
            first = {"m": "sort", "keys": [[k, rng.choice([1, -1])] for k in rng.sample(lodgen.COMMON, rng.choice([1, 2]))]}
        between = []
        for _ in range(rng.choice([1, 1, 2])):
            while True:
                st = gen_step(rng, len(dicts))
                if st["m"] in ("append", "extend", "insert", "add", "mul", "reverse", "modify", "modify_if", "sort", "rename"):
                    break
            if st["m"] in ("modify", "modify_if"):
                st["key"] = "a"
            between.append(st)
        cases.append({"op": "chain", "dicts": dicts, "steps": [first] + between + [copy.deepcopy(first)]})
    # a list that was grouped earlier (group_by marks the receiver, _new hands the mark on) used through methods that
    # are not group-wise
    for _ in range(n // 10):
        dicts = lodgen.gen_dicts(rng)
        mid = [gen_step(rng, len(dicts)) for _ in range(rng.choice([0, 1, 1, 2]))]
        mid = [st for st in mid if st["m"] not in ("group_by",)]
        last = rng.choice([{"m": "unique_all"}, {"m": "unique_all"}, {"m": "sort", "keys": [["b", 1]]}, {"m": "filter_kv", "kvs": [["a", 1]]}, {"m": "head", "n": 2}])
        cases.append({"op": "chain", "dicts": dicts, "steps": [{"m": "group_by", "keys": [rng.choice(lodgen.COMMON)]}] + mid + [last]})
    if ctx.tier == "thorough":
        for ln in range(0, 5):
            dicts = [{"a": i % 2, "b": "x"} for i in range(ln)]
            for n_ in range(0, ln + 3):
                cases.append({"op": "chain", "dicts": dicts, "steps": [{"m": "head", "n": n_}]})
                cases.append({"op": "chain", "dicts": dicts, "steps": [{"m": "tail", "n": n_}]})
            for i in range(-ln - 2, ln + 3):
                cases.append({"op": "chain", "dicts": dicts, "steps": [{"m": "insert", "item": {"a": 9, "b": "q"}, "index": i}]})
    return cases


BOTH_PARTITION = [None]      # filter / filter_out given a predicate and pairs at once: did the two split the list?


def pred_fn(pred):
    k, v = pred
    return lambda item: item.get(k) == v


def apply_impl(lod, st):
    import dataiter as di
    m = st["m"]
    if m in ("filter_fn", "filter_out_fn") and st.get("both_kvs"):
        kv = dict(map(tuple, st["both_kvs"]))
        a, b = lod.filter(pred_fn(st["pred"]), **kv), lod.filter_out(pred_fn(st["pred"]), **kv)
        ia, ib, iall = [id(x) for x in a], [id(x) for x in b], [id(x) for x in lod]
        BOTH_PARTITION[0] = (sorted(ia + ib) == sorted(iall) and ia == [i for i in iall if i in set(ia)] and ib == [i for i in iall if i in set(ib)])
        return a if m == "filter_fn" else b
    if m == "filter_fn":
        return lod.filter(pred_fn(st["pred"]))
    if m == "filter_out_fn":
        return lod.filter_out(pred_fn(st["pred"]))
    if m == "filter_kv":
        return lod.filter(**dict(map(tuple, st["kvs"])))
    if m == "filter_out_kv":
        return lod.filter_out(**dict(map(tuple, st["kvs"])))
    if m == "sort":
        return lod.sort(**dict(map(tuple, st["keys"])))
    if m == "unique":
        return lod.unique(*st["keys"])
    if m == "unique_all":
        return lod.unique()
    if m == "select":
        return lod.select(*st["keys"])
    if m == "unselect":
        return lod.unselect(*st["keys"])
    if m == "rename":
        return lod.rename(**dict(map(tuple, st["to_from"])))
    if m == "modify" and st.get("key2"):
        return lod.modify(**{"a": lambda x: (x.get("a") or 0) + st["add"], st["key2"]: lambda x: (x.get("a") or 0) * 10})
    if m == "modify":
        return lod.modify(**{st["key"]: lambda x: (x.get("a") or 0) + st["add"]})
    if m == "modify_if":
        return lod.modify_if(pred_fn(st["pred"]), **{st["key"]: lambda x: (x.get("a") or 0) + st["add"]})
    if m == "fill":
        return lod.fill_missing_keys(**dict(map(tuple, st["kvs"])))
    if m == "fill_all":
        return lod.fill_missing_keys()
    # the same call in the spellings a caller may use (a function of the step, so a replay does the same): arguments
    # by position or by keyword; any iterable of dicts — list, tuple, generator, iterator, map — where a list works
    import zlib
    spell = zlib.crc32(repr(sorted(st.items(), key=str)).encode()) % 6
    if m == "append":
        return lod.append(dict(st["item"])) if spell % 2 == 0 else lod.append(item=dict(st["item"]))
    if m == "extend":
        items = [dict(d) for d in st["items"]]
        arg = [items, tuple(items), (d for d in items), iter(items), map(dict, items), di.ListOfDicts(items)][spell]
        return lod.extend(arg)
    if m == "add":
        return lod + di.ListOfDicts([dict(d) for d in st["items"]])
    if m == "insert":
        return lod.insert(st["index"], dict(st["item"])) if spell % 2 == 0 else lod.insert(index=st["index"], item=dict(st["item"]))
    if m == "mul":
        return lod * st["n"]
    if m == "reverse":
        return lod.reverse()
    if m == "head":
        return lod.head(st["n"])
    if m == "tail":
        return lod.tail(st["n"])
    if m == "slice":
        return lod[st["a"]:st["b"]:st["step"]] if "step" in st else lod[st["a"]:st["b"]]
    raise ValueError(m)


def needed_keys(st):
    m = st["m"]
    if m in ("filter_kv", "filter_out_kv"):
        return [k for k, v in st["kvs"]]
    if m == "sort":
        return [k for k, d in st["keys"]]
    if m == "unique":
        return list(st["keys"])
    return []


def impl(case):
    import dataiter as di
    from attd import AttributeDict
    tg = lodgen.Tagger()
    lod = di.ListOfDicts([dict(d) for d in case["dicts"]])
    steps = []
    buf = io.StringIO()
    with redirect_stdout(buf):
        for st in case["steps"]:
            pre = tg.state(lod)
            rec = {"pre": pre}
            dup = len({t for t, kv in pre}) < len(pre)
            if dup and st["m"] in ("modify", "modify_if", "unselect", "fill", "fill_all"):
                # the same dict object occurs twice (after `*`): an in-place edit is then applied once per occurrence, each
                # time to the object as the previous occurrence left it — what a plain loop over the list does.  The
                # per-entry Lean model does not represent shared objects: the step is judged by the reference loop only
                rec["shared"] = True
            if st["m"] == "group_by":
                lod = lod.group_by(*st["keys"])       # returns the receiver; nothing to observe
                rec["skipped"] = True
                steps.append(rec)
                continue
            if st["m"] == "unique_all":
                # unique() without keys = unique by the keys common to all items
                common = sorted(set.intersection(*[set(item) for item in lod])) if len(lod) else []
                if len(lod) and not common:
                    rec["skipped"] = True
                    steps.append(rec)
                    continue
                rec["st"] = {"m": "unique", "keys": common}
            if any(k not in item for item in lod for k in needed_keys(st)):
                # plain dict semantics: KeyError (outside the quantifier); the step is skipped
                rec["skipped"] = True
                steps.append(rec)
                continue
            try:
                BOTH_PARTITION[0] = None
                out = apply_impl(lod, st)
                if BOTH_PARTITION[0] is not None:
                    rec["both_partition"] = BOTH_PARTITION[0]
                rec["post"] = tg.state(out)
                rec["is_lod"] = type(out) is di.ListOfDicts and all(isinstance(x, AttributeDict) for x in out)
                try:
                    rec["attr_ok"] = all(getattr(x, "a", None) == x.get("a") for x in out)
                except Exception:
                    rec["attr_ok"] = False
                lod = out
            except Exception as e:
                rec["err"] = f"{type(e).__name__}: {e}"
                steps.append(rec)
                break
            steps.append(rec)
    return {"steps": steps}


def kv_list(d):
    return [[k, v] for k, v in d.items()]


def reference(pre, st):
    """Plain list / dict semantics.  Items: [tag, kvlist]; new objects get tag None."""
    m = st["m"]
    items = [[t, dict(map(tuple, kv))] for t, kv in pre]
    out = None
    P = lambda it: pred_fn(st["pred"])(it[1])
    if m == "filter_fn":
        out = [it for it in items if P(it)]
    elif m == "filter_out_fn":
        out = [it for it in items if not P(it)]
    elif m in ("filter_kv", "filter_out_kv"):
        ok = lambda it: all(it[1][k] == v for k, v in st["kvs"])
        out = [it for it in items if ok(it) == (m == "filter_kv")]
    elif m == "sort":
        out = list(items)
        for k, d in reversed(st["keys"]):
            nn = [it for it in out if it[1][k] is not None]
            na = [it for it in out if it[1][k] is None]
            nn.sort(key=lambda it: it[1][k], reverse=d < 0)   # stable also when reversed
            out = nn + na
    elif m == "unique":
        seen, out = set(), []
        for it in items:
            k = tuple(it[1][x] for x in st["keys"])
            if k not in seen:
                seen.add(k)
                out.append(it)
    elif m == "select":
        out = [[None, {k: it[1][k] for k in st["keys"] if k in it[1]}] for it in items]
    elif m == "unselect":
        out = [[it[0], {k: v for k, v in it[1].items() if k not in st["keys"]}] for it in items]      # (idempotent per object)
    elif m == "rename":
        ren = {f: t for t, f in st["to_from"]}
        out = [[None, dict((ren.get(k, k), v) for k, v in it[1].items())] for it in items]
    elif m in ("modify", "modify_if", "fill", "fill_all", "unselect_inplace"):
        # in-place edits: ONE dict per object (tag); an object that occurs twice is visited twice, in list order, and is
        # seen the second time as the first visit left it
        store = {}
        for t, d in items:
            store.setdefault(t, d)
        keys = list(dict.fromkeys(k for it in items for k in it[1]))
        for t, _ in items:
            d = store[t]
            if m == "modify" and st.get("key2"):
                d["a"] = (d.get("a") or 0) + st["add"]
                d[st["key2"]] = (d.get("a") or 0) * 10
            elif m == "modify" or (m == "modify_if" and pred_fn(st["pred"])(d)):
                d[st["key"]] = (d.get("a") or 0) + st["add"]
            elif m == "fill":
                for k, v in st["kvs"]:
                    d.setdefault(k, v)
            elif m == "fill_all":
                for k in keys:
                    d.setdefault(k, None)
        out = [[t, store[t]] for t, _ in items]
    elif m == "append":
        out = items + [[None, dict(st["item"])]]
    elif m in ("extend", "add"):
        out = items + [[None, dict(d)] for d in st["items"]]
    elif m == "insert":
        out = list(items)
        out.insert(st["index"], [None, dict(st["item"])])
    elif m == "mul":
        out = items * st["n"]
    elif m == "reverse":
        out = items[::-1]
    elif m == "head":
        out = items[:min(st["n"], len(items))]
    elif m == "tail":
        k = min(st["n"], len(items))
        out = items[len(items) - k:]
    elif m == "slice":
        out = items[st["a"]:st["b"]:st["step"]] if "step" in st else items[st["a"]:st["b"]]
    return out


def model_requests(case, obs):
    reqs = []
    for st, rec in zip(case["steps"], obs["steps"]):
        if rec.get("skipped") or rec.get("shared") or "step" in rec.get("st", st) or rec.get("st", st).get("key2") or rec.get("st", st).get("both_kvs"):
            # (a stepped slice is judged by the Python-list reference alone: the model's slice has natural bounds, no step)
            reqs.append(("lod_reverse", {"xs": []}))
            continue
        if "post" not in rec:
            break
        xs = lodgen.to_model_items(rec["pre"])
        st = rec.get("st", st)
        m = st["m"]
        known = {t for t, kv in rec["pre"]}
        fresh = [t for t, kv in rec["post"] if t not in known]
        pre_d = [dict(map(tuple, kv)) for t, kv in rec["pre"]]
        a = {"xs": xs}
        if m in ("filter_fn", "filter_out_fn"):
            a["mask"] = [pred_fn(st["pred"])(d) for d in pre_d]
            op = "lod_filter_mask" if m == "filter_fn" else "lod_filter_out_mask"
        elif m in ("filter_kv", "filter_out_kv"):
            a["kvs"] = st["kvs"]
            op = "lod_" + m
        elif m == "sort":
            a["keys"] = [[k, d < 0] for k, d in st["keys"]]
            op = "lod_sort"
        elif m in ("unique", "unselect"):
            a["keys"] = st["keys"]
            op = "lod_" + m
        elif m == "select":
            a["keys"] = st["keys"]
            a["fresh"] = fresh
            op = "lod_select"
        elif m == "rename":
            a["to_from"] = st["to_from"]
            a["fresh"] = fresh
            op = "lod_rename"
        elif m in ("modify", "modify_if"):
            a["key"] = st["key"]
            a["vals"] = [(d.get("a") or 0) + st["add"] for d in pre_d]
            if m == "modify_if":
                a["mask"] = [pred_fn(st["pred"])(d) for d in pre_d]
            op = "lod_" + m
        elif m == "fill":
            a["kvs"] = st["kvs"]
            op = "lod_fill"
        elif m == "fill_all":
            op = "lod_fill_all"
        elif m in ("append", "insert"):
            a["item"] = {"t": fresh[0] if fresh else 10 ** 6, "kv": lodgen_kv(st["item"])}
            if m == "insert":
                a["index"] = st["index"]
            op = "lod_" + m
        elif m in ("extend", "add"):
            fr = fresh + [10 ** 6 + i for i in range(len(st["items"]))]
            a["ys"] = [{"t": fr[i], "kv": lodgen_kv(d)} for i, d in enumerate(st["items"])]
            op = "lod_" + m
        elif m == "mul":
            a["n"] = st["n"]
            op = "lod_mul"
        elif m == "reverse":
            op = "lod_reverse"
        elif m in ("head", "tail"):
            a["n"] = st["n"]
            op = "lod_" + m
        elif m == "slice":
            a["a"], a["b"] = st["a"], st["b"]
            op = "lod_slice"
        reqs.append((op, a))
    return reqs


def lodgen_kv(d):
    return [[k, v] for k, v in d.items()]


def same_items(got, exp, ordered_keys):
    """got: [[tag, kvlist]], exp: [[tag|None, dict|kvlist]]; tag None = any fresh object."""
    if len(got) != len(exp):
        return False
    for (gt, gkv), (et, ed) in zip(got, exp):
        if et is not None and gt != et:
            return False
        if ordered_keys:
            if [list(p) for p in gkv] != [list(p) for p in (ed if isinstance(ed, list) else kv_list(ed))]:
                return False
        else:
            if dict(map(tuple, gkv)) != (dict(map(tuple, ed)) if isinstance(ed, list) else ed):
                return False
    return True


def judge(ctx, case, obs, mouts):
    nontrivial = False
    for idx, (st, rec) in enumerate(zip(case["steps"], obs["steps"])):
        st = rec.get("st", st)
        m = st["m"]
        if rec.get("skipped"):
            ctx.count("skipped-missing-key")
            continue
        ctx.count(m)
        sub = {"op": "chain", "dicts": case["dicts"], "steps": case["steps"][:idx + 1]}
        if "err" in rec:
            ctx.violation("oracle", f"{m}:raises", f"ListOfDicts.{m} raised: {rec['err']}", sub, rec)
            break
        if st.get("both_kvs"):
            ctx.count("filter:predicate-and-pairs")
            if rec.get("both_partition") is False:
                ctx.violation("oracle", "filter:both:not-a-partition", "filter and filter_out given the same predicate and key=value pairs do not split the list in two (order kept)", sub, rec)
            continue
        known = {t for t, kv in rec["pre"]}
        exp = reference(rec["pre"], st)
        got = rec["post"]
        # fresh objects must really be fresh (not one of the input objects) where the reference says so
        fresh_ok = all((et is not None) or (gt not in known) for (gt, _), (et, _) in zip(got, exp)) if len(got) == len(exp) else True
        if not same_items(got, exp, ordered_keys=False) or not fresh_ok:
            ctx.violation("oracle", f"{m}:wrong", f"ListOfDicts.{m} differs from the same operation on plain lists/dicts", sub, rec, [[t, kv_list(d)] for t, d in exp])
        if not rec["is_lod"] or not rec["attr_ok"]:
            ctx.violation("oracle", f"{m}:type", "result is not a ListOfDicts of attribute-accessible items", sub, rec)
        if len(rec["pre"]) >= 2 and got != rec["pre"]:
            nontrivial = True
        if rec.get("shared"):
            ctx.count("shared-object-edit")
        if mouts is not None and idx < len(mouts) and not rec.get("shared") and "step" not in rec.get("st", st) and not st.get("key2") and not st.get("both_kvs"):
            mo = mouts[idx]
            if isinstance(mo, dict) and "err" in mo:
                ctx.violation("correspondence", f"{m}:model-error", f"model rejected the request: {mo['err']}", sub, rec, mo)
            else:
                me = lodgen.from_model_items(mo)
                if not same_items(got, me, ordered_keys=True):
                    ctx.violation("correspondence", f"{m}:differs", "model and implementation disagree (tags, key order or values)", sub, rec, me)
    ctx.case_done(case, nontrivial)


run = common.default_run(sys.modules[__name__])
search = common.default_search(sys.modules[__name__])

# -*- coding: utf-8 -*-
"""C04 — grouping partitions the rows; one summary row per distinct key."""

import functools
import itertools
import sys

import numpy as np

from harness import common, framegen, vecgen

LEVEL = {"partial": ["np.split / np.repeat / np.argsort / np.concatenate are primitive stand-ins validated by the correspondence run",
                     "the shorthand-equals-lambda clause is observed on the generated frames for the helpers count/first/last/sum/min (helper semantics proper: C07)"]}
ASSUMPTIONS = ["np.split(arr, starts[1:]) cuts at the given positions; np.lexsort stable"]
# objects with a history are also left grouped by an earlier group_by (harness/warm.py): none of the
# operations of this property is documented as group-wise
WARM_GROUPED = True
RULE = ("frames of 0..40 rows in random row order, 1..3 group columns over 10 dtype kinds with missing values, ±0.0, ±inf, 2**53; "
        "operations: aggregate (lambda collecting row ids, count, shorthand helper vs lambda), split, grouped modify (per-row and "
        "per-group-scalar functions), count; non-trivial = >=3 rows, >=2 groups, some group of size >=2; thorough adds all key "
        "columns over {NA,a,b} x 2 columns with <=5 rows")

OPS = ["aggregate", "split", "modify", "count", "shorthand"]


def gen_case(rng, tier, op=None):
    spec = framegen.gen_frame(rng, tier, kinds=framegen.KEY_KINDS + ["objint"] + framegen.UINT_KINDS)
    names = [c["name"] for c in spec["cols"]]
    k = rng.choice([1, 1, 2, 2, 3])
    by = rng.sample(names, min(k, len(names)))
    # a numeric value column for the shorthand clause
    spec["cols"].append({"name": "v", "kind": "float", "vals": [rng.choice([1.0, 2.0, 2.5, -1.0, 4.0, "nan"]) for _ in range(spec["n"])]})
    case = {"op": op or rng.choice(OPS), "frame": spec, "by": by}
    if case["op"] == "shorthand":
        case["helper"] = rng.choice(["count", "first", "last", "sum", "min", "max", "mean", "nth1", "nth-1", "nth-2", "nth-3", "last", "count_unique", "mode", "median", "any", "all",
                                     "std", "var", "std1", "var1", "std2", "var2", "mean_keep", "sum_keep", "min_keep", "std_keep", "median_keep", "first_drop", "last_drop",
                                     "count_unique_drop", "quantile.5", "quantile.25", "quantile0", "quantile1"])
    return case


def gen_cases(ctx):
    rng = ctx.rng
    cases = [
        {"op": "aggregate", "by": ["a"], "frame": {"n": 3, "cols": [{"name": "a", "kind": "float", "vals": ["-inf", "nan", 1.0]}, {"name": "v", "kind": "float", "vals": [1.0, 2.0, 3.0]}]}},
        {"op": "count", "by": ["a"], "frame": {"n": 5, "cols": [{"name": "a", "kind": "datetime", "vals": [None, 1, None, 1, 0]}, {"name": "v", "kind": "float", "vals": [1.0, 2.0, 3.0, 1.0, 1.0]}]}},
        # known finding (trailing-nul): "a\0" and "a" are one sort key but two unique keys: groups mix rows of both
        {"op": "split", "by": ["a"], "frame": {"n": 4, "cols": [{"name": "a", "kind": "str", "vals": ["a\x00", "a", "a\x00", "b"]}, {"name": "v", "kind": "float", "vals": [1.0, 2.0, 3.0, 1.0]}]}},
        {"op": "aggregate", "by": ["a"], "frame": {"n": 4, "cols": [{"name": "a", "kind": "str", "vals": ["a\x00", "a", "a\x00", "b"]}, {"name": "v", "kind": "float", "vals": [1.0, 2.0, 3.0, 1.0]}]}},
        {"op": "count", "by": ["a"], "frame": {"n": 4, "cols": [{"name": "a", "kind": "str", "vals": ["a\x00", "a", "a\x00", "b"]}, {"name": "v", "kind": "float", "vals": [1.0, 2.0, 3.0, 1.0]}]}},
    ]
    # known finding (reserved-name): a data column named like the grouping code's own bookkeeping columns
    for nm in ("_index_", "_group_", "_sorted_index_"):
        for op in ("split", "aggregate", "count", "modify"):
            cases.append({"op": op, "by": [nm], "frame": {"n": 4, "cols": [{"name": nm, "kind": "int", "vals": [5, 5, 7, 7]}, {"name": "v", "kind": "float", "vals": [1.0, 2.0, 3.0, 4.0]}]}})
            cases.append({"op": op, "by": ["g"], "frame": {"n": 4, "cols": [{"name": "g", "kind": "int", "vals": [1, 2, 1, 2]}, {"name": nm, "kind": "int", "vals": [5, 6, 7, 8]},
                                                                           {"name": "v", "kind": "float", "vals": [1.0, 2.0, 3.0, 4.0]}]}})
    # large groups (well beyond any small-size special case of a kernel) with ties for the most common value whose first
    # occurrence is not the smallest value: the shorthand helper is a statistic of the group's rows IN THEIR ORIGINAL ORDER
    for rep in range(3 if ctx.tier == "quick" else 40):
        nrow = [140, 200, 260][rep % 3]
        vals = [None] * nrow
        for gi in (0, 1):
            pos = [i for i in range(nrow) if i % 2 == gi]
            k = len(pos) // 2 - 2
            seq = [2.5] * k + [1.0] * k + [4.0] * (len(pos) - 2 * k)      # 2.5 and 1.0 tie for the most common value
            rng.shuffle(seq)
            j = seq.index(2.5)
            seq[0], seq[j] = seq[j], seq[0]                                  # ... and 2.5 (not the smallest) is met first
            for p_, v_ in zip(pos, seq):
                vals[p_] = v_
        spec = {"n": nrow, "cols": [{"name": "a", "kind": "int", "vals": [i % 2 for i in range(nrow)]}, {"name": "v", "kind": "float", "vals": vals}]}
        for h in ("mode", "first", "nth-2", "last"):          # (every order-dependent helper on every such frame: no draw decides)
            cases.append({"op": "shorthand", "frame": spec, "by": ["a"], "helper": h})
    # groups that hold SEVERAL missing values (and several equal values) in the aggregated column, for every helper that counts
    # or picks among them: the shorthand and the lambda agree on what a missing value is
    for vals in ([1.0, "nan", "nan", 2.0, "nan", 2.0, 1.0, "nan"], ["nan", "nan", "nan", 3.0, 3.0, "nan", "nan", 1.0]):
        spec = {"n": 8, "cols": [{"name": "a", "kind": "int", "vals": [0, 0, 0, 0, 1, 1, 1, 1]}, {"name": "v", "kind": "float", "vals": vals}]}
        for h in ("count_unique", "count_unique_drop", "first", "last", "first_drop", "last_drop", "nth-2", "sum", "mean", "min", "max", "median", "sum_keep", "mean_keep"):
            cases.append({"op": "shorthand", "frame": spec, "by": ["a"], "helper": h})
    n = 600 if ctx.tier == "quick" else 15000
    for _ in range(n):
        cases.append(gen_case(rng, ctx.tier))
    if ctx.tier == "thorough":
        for kind, alpha in (("float", ["nan", "-0.0", 0.0, 1.0]), ("str", ["", "a", "b"])):
            for ln in range(0, 5):
                for vals in itertools.product(alpha, repeat=ln):
                    spec = {"n": ln, "cols": [{"name": "a", "kind": kind, "vals": list(vals)},
                                              {"name": "b", "kind": "int", "vals": [(i * 7) % 2 for i in range(ln)]},
                                              {"name": "v", "kind": "float", "vals": [float(i) for i in range(ln)]}]}
                    for op in ("aggregate", "split", "modify"):
                        cases.append({"op": op, "frame": spec, "by": ["a"]})
                        cases.append({"op": op, "frame": spec, "by": ["b", "a"]})
    return cases


def helper_pair(name):
    import dataiter as di
    return {
        "count": (di.count(), lambda x: x.nrow),
        "first": (di.first("v"), lambda x: di.first(x.v)),
        "last": (di.last("v"), lambda x: di.last(x.v)),
        "nth1": (di.nth("v", 1), lambda x: di.nth(x.v, 1)),
        "nth-1": (di.nth("v", -1), lambda x: di.nth(x.v, -1)),
        "nth-2": (di.nth("v", -2), lambda x: di.nth(x.v, -2)),
        "nth-3": (di.nth("v", -3), lambda x: di.nth(x.v, -3)),
        "sum": (di.sum("v"), lambda x: di.sum(x.v)),
        "min": (di.min("v"), lambda x: di.min(x.v)),
        "max": (di.max("v"), lambda x: di.max(x.v)),
        "mean": (di.mean("v"), lambda x: di.mean(x.v)),
        "median": (di.median("v"), lambda x: di.median(x.v)),
        "mode": (di.mode("v"), lambda x: di.mode(x.v)),
        "count_unique": (di.count_unique("v"), lambda x: di.count_unique(x.v)),
        "any": (di.any("v"), lambda x: di.any(x.v)),
        "all": (di.all("v"), lambda x: di.all(x.v)),
        # helper ARGUMENTS are part of the clause: the shorthand with an argument equals the lambda with the same argument
        "std": (di.std("v"), lambda x: di.std(x.v)),
        "var": (di.var("v"), lambda x: di.var(x.v)),
        "std1": (di.std("v", ddof=1), lambda x: di.std(x.v, ddof=1)),
        "var1": (di.var("v", ddof=1), lambda x: di.var(x.v, ddof=1)),
        "std2": (di.std("v", ddof=2), lambda x: di.std(x.v, ddof=2)),
        "var2": (di.var("v", ddof=2), lambda x: di.var(x.v, ddof=2)),
        "mean_keep": (di.mean("v", drop_na=False), lambda x: di.mean(x.v, drop_na=False)),
        "sum_keep": (di.sum("v", drop_na=False), lambda x: di.sum(x.v, drop_na=False)),
        "min_keep": (di.min("v", drop_na=False), lambda x: di.min(x.v, drop_na=False)),
        "std_keep": (di.std("v", drop_na=False), lambda x: di.std(x.v, drop_na=False)),
        "median_keep": (di.median("v", drop_na=False), lambda x: di.median(x.v, drop_na=False)),
        "first_drop": (di.first("v", drop_na=True), lambda x: di.first(x.v, drop_na=True)),
        "last_drop": (di.last("v", drop_na=True), lambda x: di.last(x.v, drop_na=True)),
        "count_unique_drop": (di.count_unique("v", drop_na=True), lambda x: di.count_unique(x.v, drop_na=True)),
        "quantile.5": (di.quantile("v", 0.5), lambda x: di.quantile(x.v, 0.5)),
        "quantile.25": (di.quantile("v", 0.25), lambda x: di.quantile(x.v, 0.25)),
        "quantile0": (di.quantile("v", 0), lambda x: di.quantile(x.v, 0)),
        "quantile1": (di.quantile("v", 1), lambda x: di.quantile(x.v, 1)),
    }[name]


NTH_FAMILY = ("first", "last", "nth1", "nth-1", "nth-2", "nth-3", "mode", "first_drop", "last_drop")      # helpers whose value depends on the ORDER of the group's rows


def grouped(df, by):
    """`df.group_by(*by)`; on objects with a history (harness/warm.py) the grouped receiver is also used
    through methods documented as non-modifying before the grouped operation runs: they must not
    disturb the grouping that `group_by` has set."""
    from harness import warm
    g = df.group_by(*by)
    if warm.ENABLED:
        warm._quiet(df.count, "_rid_")
        warm._quiet(df.count)
        warm._quiet(df.unique, "_rid_")
        warm._quiet(lambda: df.sort(_rid_=-1))
        warm._quiet(df.head, 1)
        warm._quiet(df.to_string)
    return g


def impl(case):
    import dataiter as di
    from unittest.mock import patch
    spec, op, by = case["frame"], case["op"], case["by"]
    df = framegen.build(spec)
    before = framegen.snapshot(df)
    res = {}
    try:
        with patch("dataiter.USE_NUMBA", False):
            if op == "aggregate":
                stat = grouped(df, by).aggregate(ids=lambda x: ",".join(str(int(i)) for i in x._rid_), n=di.count(), first=di.first("_rid_"))
                res["groups"] = [[int(t) for t in s.split(",")] if s else [] for s in stat.ids.tolist()] if stat.nrow else []
                res["n"] = [int(x) for x in stat.n]
                res["first"] = [int(x) for x in stat.first]
                res["colnames"] = stat.colnames
                res["keys_first"] = {nm: vecgen.canon_array(stat[nm]) for nm in by}
            elif op == "split":
                res["groups"] = [[int(i) for i in g] for g in df.split(*by)]
            elif op == "modify":
                # `half`: the function's result type differs between groups (an int for one-row groups, floats
                # otherwise): every row must still receive the value computed for it
                out = grouped(df, by).modify(own=lambda x: x._rid_ * 1, size=lambda x: x.nrow, lead=lambda x: int(x._rid_[0]) if x.nrow else -1,
                                             half=lambda x: (x._rid_ + 0.5) if x.nrow > 1 else (int(x._rid_[0]) if x.nrow else 0))
                rids, problem = framegen.rows_integrity(spec, out.unselect("own", "size", "lead", "half"))
                res.update({"rids": rids, "problem": problem, "own": [int(x) for x in out.own],
                            "size": [int(x) for x in out["size"]], "lead": [int(x) for x in out.lead],
                            "half": [float(x) for x in out.half]})
            elif op == "count":
                stat = df.count(*by)
                res["n"] = [int(x) for x in stat.n]
                res["keys_first"] = {nm: vecgen.canon_array(stat[nm]) for nm in by}
            elif op == "shorthand":
                short, lam = helper_pair(case["helper"])
                if case["helper"] in NTH_FAMILY:
                    # these share one accelerated kernel (nth_apply_numba): compare with acceleration ON, as a user has it
                    with patch("dataiter.USE_NUMBA", True):
                        a = grouped(df, by).aggregate(y=short)
                else:
                    a = grouped(df, by).aggregate(y=short)
                b = df.group_by(*by).aggregate(y=lam)
                res["short"] = vecgen.canon_array(a.y)
                res["lambda"] = vecgen.canon_array(b.y)
    except Exception as e:
        res["err"] = f"{type(e).__name__}: {e}"
    df._group_colnames = ()
    res["mutated"] = framegen.snapshot(df) != before
    return res


def model_requests(case, obs):
    spec, by = case["frame"], case["by"]
    keys = [{"kind": framegen.kind_flags(framegen.col(spec, nm)),
             "cells": vecgen.cells(framegen.col(spec, nm)["kind"], framegen.col(spec, nm)["vals"])} for nm in by]
    if case["op"] == "modify":
        return [("groups", {"n": spec["n"], "keys": keys}), ("modify_plan", {"n": spec["n"], "keys": keys})]
    return [("groups", {"n": spec["n"], "keys": keys})]


def reference_groups(case):
    """dict-of-lists grouping of row ids, groups ascending by key, missing last."""
    spec, by = case["frame"], case["by"]
    n = spec["n"]
    groups = {}
    for i in range(n):
        groups.setdefault(framegen.key_tuple(spec, by, i), []).append(i)

    def cmp(a, b):
        for x, y in zip(a, b):
            if x == y:
                continue
            if x == ("NA",):
                return 1
            if y == ("NA",):
                return -1
            return -1 if x[1] < y[1] else 1
        return 0
    keys = sorted(groups, key=functools.cmp_to_key(cmp))
    return [groups[k] for k in keys]


def judge(ctx, case, obs, mouts):
    spec, op, by = case["frame"], case["op"], case["by"]
    n = spec["n"]
    ctx.count(op)
    ref = reference_groups(case)
    nontrivial = n >= 3 and len(ref) >= 2 and any(len(g) >= 2 for g in ref)
    for nm in by:
        ctx.count("key:" + framegen.col(spec, nm)["kind"])
    if "err" in obs:
        ctx.violation("oracle", f"{op}:raises:rows{min(n, 1)}", f"{op} raised: {obs['err']}", case, obs)
    else:
        if obs["mutated"]:
            ctx.violation("oracle", f"{op}:mutates", "operation changed its receiver", case, obs)
        if op in ("aggregate", "split"):
            got = obs["groups"]
            if op == "split" and n == 0:
                got = [g for g in got if g]  # np.split of nothing is one empty chunk: no rows, accepted
            if got != ref:
                ctx.violation("oracle", f"{op}:wrong-partition", f"{op} groups {got} differ from the partition by key {ref}", case, obs, ref)
        if op in ("aggregate", "count"):
            if obs["n"] != [len(g) for g in ref]:
                ctx.violation("oracle", f"{op}:wrong-sizes", "group sizes differ from the partition by key", case, obs, [len(g) for g in ref])
            for nm in by:
                c = framegen.col(spec, nm)
                cv = vecgen.canon_vals(c["kind"], c["vals"])
                exp = [cv[g[0]] for g in ref]
                norm = lambda xs: ["NA" if vecgen.canon_is_na(c["kind"], x) else vecgen.sort_key(c["kind"], x) for x in xs]
                if norm(obs["keys_first"][nm]) != norm(exp):
                    ctx.violation("oracle", f"{op}:wrong-keys", "summary key columns are not the distinct key combinations in ascending order", case, obs, exp)
        if op == "aggregate" and obs.get("first") != [g[0] for g in ref]:
            ctx.violation("oracle", "aggregate:helper-not-original-order", "first() did not see the group's rows in original order", case, obs)
        if op == "modify":
            if obs["problem"]:
                ctx.violation("oracle", "modify:not-whole-rows", f"grouped modify disturbed rows: {obs['problem']}", case, obs)
            elif obs["rids"] != list(range(n)):
                ctx.violation("oracle", "modify:row-order", "grouped modify changed the row order", case, obs)
            else:
                size = {}
                lead = {}
                for g in ref:
                    for i in g:
                        size[i] = len(g)
                        lead[i] = g[0]
                if obs["own"] != list(range(n)) or obs["size"] != [size[i] for i in range(n)] or obs["lead"] != [lead[i] for i in range(n)]:
                    ctx.violation("oracle", "modify:misaligned", "group-wise results are not aligned with the original rows", case, obs)
                elif obs.get("half") != [(i + 0.5) if size[i] > 1 else float(i) for i in range(n)]:
                    ctx.violation("oracle", "modify:values-changed", "a row did not receive the value the function returned for it (results of different types across groups)", case, obs)
        if op == "shorthand":
            na = lambda x: None if x == "nan" else x
            a, b = [na(x) for x in obs["short"]], [na(x) for x in obs["lambda"]]
            same = len(a) == len(b) and all((x == y) or (isinstance(x, float) and isinstance(y, float) and abs(x - y) <= 1e-9 * max(1.0, abs(x))) for x, y in zip(a, b))
            if not same:
                ctx.violation("oracle", f"shorthand:{case['helper']}:differs", "shorthand helper and lambda give different summaries", case, obs)
    if mouts is not None and "err" not in obs:
        m = mouts[0]
        if isinstance(m, dict) and "err" in m:
            ctx.violation("correspondence", f"{op}:model-error", f"model rejected the request: {m['err']}", case, obs, m)
        else:
            mg = [g for g in m if g] if n == 0 else m
            if op in ("aggregate", "split"):
                got = obs["groups"] if n else [g for g in obs["groups"] if g]
                if got != mg:
                    ctx.violation("correspondence", f"{op}:differs", "model and implementation group differently", case, obs, m)
            elif op == "count":
                if obs["n"] != [len(g) for g in mg]:
                    ctx.violation("correspondence", "count:differs", "model and implementation group sizes differ", case, obs, m)
            elif op == "modify" and obs.get("problem") is None:
                plan = mouts[1]
                own = [m[g][p] for g, p in plan]
                size = [len(m[g]) for g, p in plan]
                if own != obs["own"] or size != obs["size"]:
                    ctx.violation("correspondence", "modify:differs", "model and implementation align group results differently", case, obs, plan)
    ctx.case_done(case, nontrivial)


run = common.default_run(sys.modules[__name__])
search = common.default_search(sys.modules[__name__])

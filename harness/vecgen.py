# -*- coding: utf-8 -*-
"""
Generators and codec for vectors / columns (DESIGN.md §3.5).

A *column spec* is JSON-able: {"kind": <kind>, "vals": [...]} where vals are JSON values:
  float  : numbers or the strings "nan", "inf", "-inf", "-0.0"
  int    : integers,  bool : booleans,  str / strlong : strings ("" is the missing value)
  date (M8[D]) / datetime (M8[us]) / timedelta (m8[s]) : integer ticks or None (NaT)
  objint / objstr : object vectors of ints / strs with None
  ustr   : legacy fixed-width <U array of strings
"""

import math
import numpy as np

from harness.common import float_ord, str_codes

KINDS = ["float", "int", "bool", "str", "strlong", "date", "datetime", "timedelta", "objint", "objstr"]

POOLS = {
    "float": ["nan", "-inf", "inf", "-0.0", 0.0, 1.0, 1.5, -1.5, 9007199254740992.0,
              9007199254740994.0, -9007199254740992.0, 1e300, 5e-324, 0.1, 2.0],
    "int": [0, 1, -1, 2, 3, 7, 9007199254740993, -9223372036854775808, 9223372036854775807],
    "int32": [0, 1, -1, 7, 16777217, -16777217, 2147483647, -2147483648, 33554433],
    "uint8": [0, 1, 2, 7, 200, 255],
    "uint64": [0, 1, 3, 9007199254740993, 18446744073709551615],
    "bool": [True, False],
    "str": ["", "a", "b", "ab", "B", "ä", "\U0001F600", "￿", "a" * 49, "z", "a,b", 'q"r', "x\ny", " ", "  ", "\u00a0"],
    "strlong": ["", "a" * 50, "a" * 50 + "x", "a" * 51, "b", "ab", "\U0001F600" * 50, "a" * 49],
    "date": [None, -719162, -1, 0, 1, 18000, 19000, 2932896],
    "datetime": [None, -62135596800000000, -1, 0, 1, 1600000000000000, 1600000000000001, 253402300799999999],
    "timedelta": [None, -5, 0, 1, 2, 86400, 10 ** 9],
    "objint": [None, 1, 2, 10, 3, -4],
    "objstr": [None, "a", "b", "10", "9", "B", ""],      # ("" is an ordinary value in an object column: only None is missing there)
    "ustr": ["", "a", "b", "ab", "B", "zz"],
    # object columns with unusual elements (used by the aliasing / mutation check only): a float NaN kept as an element
    # (object arrays from pandas, np.where, Vector.fast), and list elements (what regex.findall / split produce)
    "objnan": [None, "nan", 1, 2.5, "a", "nan"],
    "objlist": [None, ["a", "b"], ["c"], [], ["a", "b"], ["c", "d", "e"]],
}

NA_FIRST = {"str": True, "strlong": True, "ustr": True}


def has_na_repr(kind):
    return kind not in ("int", "int32", "uint8", "uint64", "bool")


def pyval(kind, v):
    """JSON value -> Python value to hand to NumPy."""
    if kind == "float":
        if isinstance(v, str):
            return {"nan": math.nan, "inf": math.inf, "-inf": -math.inf, "-0.0": -0.0}[v]
        return float(v)
    return v


def make_array(kind, vals):
    """Build the NumPy array exactly (no dataiter logic involved)."""
    import dataiter
    if kind == "float":
        a = np.array([pyval(kind, v) for v in vals], dtype=float)
        # missing values of one column need not share a bit pattern: every second NaN gets the sign bit
        # (what `-np.nan` or `inf - inf` produce); all of them are the one missing value
        k = 0
        for i, v in enumerate(vals):
            if v == "nan":
                if k % 2 == 1:
                    a[i] = -np.nan
                k += 1
        return a
    if kind == "int":
        return np.array(vals, dtype=np.int64)
    if kind == "int32":
        return np.array(vals, dtype=np.int32)
    if kind in ("uint8", "uint64"):
        return np.array(vals, dtype=kind)
    if kind == "bool":
        return np.array(vals, dtype=bool)
    if kind in ("str", "strlong"):
        return np.array(vals, dtype=dataiter.dtypes.string)
    if kind == "ustr":
        n = max([len(v) for v in vals] + [1])
        return np.array(vals, dtype=f"<U{n}")
    if kind == "date":
        return np.array([np.datetime64("NaT") if v is None else np.datetime64(v, "D") for v in vals], dtype="M8[D]")
    if kind == "datetime":
        return np.array([np.datetime64("NaT") if v is None else np.datetime64(v, "us") for v in vals], dtype="M8[us]")
    if kind == "timedelta":
        return np.array([np.timedelta64("NaT") if v is None else np.timedelta64(v, "s") for v in vals], dtype="m8[s]")
    if kind in ("objint", "objstr", "objbool", "objnan", "objlist"):
        a = np.empty(len(vals), dtype=object)
        for i, v in enumerate(vals):
            a[i] = float("nan") if (kind == "objnan" and v == "nan") else list(v) if isinstance(v, list) else v
        return a
    raise ValueError(kind)


def make_vector(kind, vals):
    import dataiter
    v = make_array(kind, vals).view(dataiter.Vector)
    from harness import warm
    if warm.ENABLED:
        warm.vector_through_history(v)
    return v


def is_na_val(kind, v):
    if kind == "float":
        return v == "nan"
    if kind in ("str", "strlong", "ustr"):
        return v == ""
    if kind in ("date", "datetime", "timedelta", "objint", "objstr", "objbool", "objnan", "objlist"):
        return v is None
    return False


def cell(kind, v):
    """JSON value -> model cell (compact protocol form)."""
    if is_na_val(kind, v):
        return None
    if kind == "float":
        return float_ord(pyval(kind, v))
    if kind in ("str", "strlong", "ustr", "objstr"):
        return str_codes(v)
    return v  # int / bool / ticks / objint


def cells(kind, vals):
    return [cell(kind, v) for v in vals]


def canon_elem(x):
    """Canonical, comparable, JSON-able image of one element of an output array."""
    if x is None:
        return None
    if isinstance(x, (float, np.floating)):
        x = float(x)
        if x != x:
            return "nan"
        if x == 0:
            return "-0.0" if math.copysign(1, x) < 0 else 0.0
        if math.isinf(x):
            return "inf" if x > 0 else "-inf"
        return x
    if isinstance(x, (np.datetime64, np.timedelta64)):
        if np.isnat(x):
            return None
        return int(x.astype("int64"))
    if isinstance(x, (bool, np.bool_)):
        return bool(x)
    if isinstance(x, (int, np.integer)):
        return int(x)
    if isinstance(x, (str, np.str_)):
        return str(x)
    if isinstance(x, bytes):
        return x.decode("latin-1")
    if isinstance(x, (complex, np.complexfloating)):
        return repr(complex(x))
    return repr(x)


def canon_array(a):
    return [canon_elem(x) for x in np.asarray(a)]


def canon_vals(kind, vals):
    """Canonical image of the *input* values, comparable with canon_array of outputs."""
    out = []
    for v in vals:
        if kind == "float":
            out.append(canon_elem(pyval(kind, v)))
        else:
            out.append(v)
    return out


def sort_key(kind, cv):
    """Python-comparable key of a canonical non-NA value, in the order the property names."""
    if kind == "float":
        if cv == "inf":
            return math.inf
        if cv == "-inf":
            return -math.inf
        if cv == "-0.0":
            return 0.0
        return cv
    if kind == "bool":
        return int(cv)
    return cv


def canon_is_na(kind, cv):
    if kind == "float":
        return cv == "nan"
    if kind in ("str", "strlong", "ustr"):
        return cv == "" or cv is None
    return cv is None


def gen_vals(rng, kind, n, na_frac=None):
    pool = POOLS[kind]
    k = rng.choice([1, 2, 2, 3, 3, 4, 6])
    sub = rng.sample(pool, min(k, len(pool)))
    mode = rng.random()
    if mode < 0.08 and has_na_repr(kind):
        na = [p for p in pool if is_na_val(kind, p)]
        return [na[0]] * n
    if mode < 0.2:
        sub = [p for p in sub if not is_na_val(kind, p)] or [p for p in pool if not is_na_val(kind, p)][:1]
    elif mode < 0.32 and kind == "float":
        # twins: equal as values and as keys, different bit patterns
        sub = list(dict.fromkeys(["-0.0", 0.0, "nan"] + sub[:1]))
    return [rng.choice(sub) for _ in range(n)]


def gen_len(rng, tier):
    r = rng.random()
    if r < 0.08:
        return 0
    if r < 0.16:
        return 1
    if r < 0.75:
        return rng.randint(2, 8)
    if tier == "quick":
        return rng.randint(9, 40)
    return rng.randint(9, 120)

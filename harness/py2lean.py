# -*- coding: utf-8 -*-
"""
Source translator (DESIGN.md §0.9): symbolic execution of small control-flow functions of
/repo's *current* Python source into Lean definitions, written to lean/Generated/Code.lean.

Target language: lean/Model/PyCore.lean (Term / Out / pmin / pmax / arange / sliceIdx).
The theorems over the generated definitions live in lean/Proofs/Tie.lean and are re-checked by
`lake build` on every run, so they speak about what the code says *now*.

Translation rules (everything else is rejected as `unsupported`, which makes the generated
definition a stub whose theorems cannot elaborate):

  expressions   integer grammar over declared integer atoms (`ints`): literals, + - *, unary -,
                min/max of two, `a if c else b`;  `np.arange(a[, b])`;  slices `x[a:b]`;
                everything else: a symbolic Term (leaf = source text, call / method / subscript /
                operator = `Term.app`).
  tests         and / or / not, integer comparisons, `p is None` / `is not None` for parameters
                (a Boolean atom), `e in [ints]`, any((..)) / all((..)) over a literal tuple;
                everything else: `truth <Term>` for the uninterpreted `truth : Term → Bool`.
  statements    assignment to a name (let), if / elif / else (continuation duplicated into both
                branches), return, raise, expression statements (kept as an ordered effect list),
                pass.  No loops, no try/with, no tuple targets.
"""

import ast
import hashlib
import os
import re

VERIF = os.path.dirname(os.path.dirname(os.path.abspath(__file__)))
REPO = os.environ.get("VERIF_REPO", "/repo")
GEN = os.path.join(VERIF, "lean", "Generated")

# (file, qualified name, integer atoms (source text), Lean name)
FUNCS = [
    ("C02", "dataiter/data_frame.py", "DataFrame.head", ["self.nrow", "n", "dataiter.DEFAULT_PEEK_ROWS"], "DataFrame_head"),
    ("C02", "dataiter/data_frame.py", "DataFrame.tail", ["self.nrow", "n", "dataiter.DEFAULT_PEEK_ROWS"], "DataFrame_tail"),
    ("C02", "dataiter/data_frame.py", "DataFrame._parse_rows_from_boolean", ["len(rows)", "self.nrow"], "DataFrame_parse_rows_from_boolean"),
    ("C06", "dataiter/vector.py", "Vector.head", ["self.length", "n", "dataiter.DEFAULT_PEEK_ELEMENTS"], "Vector_head"),
    ("C06", "dataiter/vector.py", "Vector.tail", ["self.length", "n", "dataiter.DEFAULT_PEEK_ELEMENTS"], "Vector_tail"),
    ("C15", "dataiter/list_of_dicts.py", "ListOfDicts.head", ["len(self)", "n", "dataiter.DEFAULT_PEEK_ITEMS"], "ListOfDicts_head"),
    ("C15", "dataiter/list_of_dicts.py", "ListOfDicts.tail", ["len(self)", "n", "dataiter.DEFAULT_PEEK_ITEMS"], "ListOfDicts_tail"),
    ("C01", "dataiter/data_frame.py", "DataFrameColumn.__new__", ["nrow", "column.length"], "DataFrameColumn_new"),
    ("C01", "dataiter/data_frame.py", "DataFrame._reconcile_column", ["column.nrow", "self.nrow"], "DataFrame_reconcile_column"),
    ("C01", "dataiter/data_frame.py", "DataFrame._check_dimensions", ["len(set(nrows))"], "DataFrame_check_dimensions"),
    ("C01", "dataiter/data_frame.py", "DataFrame.__setitem__", [], "DataFrame_setitem"),
    ("C01", "dataiter/vector.py", "Vector._check_dimensions", ["self.ndim"], "Vector_check_dimensions"),
    ("C01", "dataiter/util.py", "length", ["len(value)"], "util_length"),
    ("C01", "dataiter/vector.py", "Vector.length", [], "Vector_length"),
    ("C01", "dataiter/data_frame.py", "DataFrame.nrow", [], "DataFrame_nrow"),
    ("C10", "dataiter/vector.py", "Vector.na_value", [], "Vector_na_value"),
    ("C10", "dataiter/vector.py", "Vector.na_dtype", [], "Vector_na_dtype"),
    ("C03", "dataiter/data_frame.py", "DataFrame.sort.sort_key", ["dir"], "DataFrame_sort_key"),
    ("C20", "dataiter/util.py", "ulen", ["wcwidth.wcswidth(string)"], "util_ulen"),
    ("C08", "dataiter/aggregate.py", "use_numba", [], "aggregate_use_numba"),
    ("C17", "dataiter/list_of_dicts.py", "ListOfDicts.__init__", [], "ListOfDicts_init"),
    ("C17", "dataiter/list_of_dicts.py", "ListOfDicts._new", [], "ListOfDicts_new"),
    ("C17", "dataiter/list_of_dicts.py", "ListOfDicts.__deepcopy__", [], "ListOfDicts_deepcopy"),
    ("C17", "dataiter/list_of_dicts.py", "ListOfDicts.__copy__", [], "ListOfDicts_copy"),
    ("C17", "dataiter/list_of_dicts.py", "ListOfDicts._mark_obsolete", [], "ListOfDicts_mark_obsolete"),
    ("C17", "dataiter/list_of_dicts.py", "ListOfDicts.__getattribute__", [], "ListOfDicts_getattribute"),
    ("C17", "dataiter/deco.py", "obsoletes.wrapper", [], "deco_obsoletes_wrapper"),
    ("C17", "dataiter/deco.py", "new_from_generator.wrapper", [], "deco_new_from_generator_wrapper"),
    ("C04", "dataiter/data_frame.py", "DataFrame.count", [], "DataFrame_count"),
    ("C04", "dataiter/data_frame.py", "DataFrame.group_by", [], "DataFrame_group_by"),
    ("C10", "dataiter/vector.py", "Vector.is_na", [], "Vector_is_na"),
    ("C10", "dataiter/vector.py", "Vector.drop_na", [], "Vector_drop_na"),
    ("C10", "dataiter/vector.py", "Vector.tolist", [], "Vector_tolist"),
    ("C10", "dataiter/vector.py", "Vector.equal", ["self.length", "other.length"], "Vector_equal"),
    ("C01", "dataiter/data_frame.py", "DataFrame.__delitem__", [], "DataFrame_delitem"),
    ("C01", "dataiter/data_frame.py", "DataFrame.pop", [], "DataFrame_pop"),
    ("C01", "dataiter/data_frame.py", "DataFrame.__delattr__", [], "DataFrame_delattr"),
    ("C01", "dataiter/data_frame.py", "DataFrame.__getattr__", [], "DataFrame_getattr"),
    ("C01", "dataiter/data_frame.py", "DataFrame.__getattribute__", [], "DataFrame_getattribute"),
    ("C12", "dataiter/util.py", "xopen", [], "util_xopen"),
    ("C02", "dataiter/data_frame.py", "DataFrame.filter", [], "DataFrame_filter"),
    ("C02", "dataiter/data_frame.py", "DataFrame.filter_out", [], "DataFrame_filter_out"),
    ("C02", "dataiter/data_frame.py", "DataFrame.slice", [], "DataFrame_slice"),
    ("C02", "dataiter/data_frame.py", "DataFrame.slice_off", [], "DataFrame_slice_off"),
    ("C02", "dataiter/data_frame.py", "DataFrame.drop_na", [], "DataFrame_drop_na"),
    ("C02", "dataiter/data_frame.py", "DataFrame.unique", [], "DataFrame_unique"),
    ("C09", "dataiter/data_frame.py", "DataFrame.select", [], "DataFrame_select"),
    ("C09", "dataiter/data_frame.py", "DataFrame.unselect", [], "DataFrame_unselect"),
    ("C09", "dataiter/data_frame.py", "DataFrame.rename", [], "DataFrame_rename"),
    ("C09", "dataiter/data_frame.py", "DataFrame.cbind", [], "DataFrame_cbind"),
    ("C09", "dataiter/data_frame.py", "DataFrame.update", [], "DataFrame_update"),
    ("C05", "dataiter/data_frame.py", "DataFrame.left_join", [], "DataFrame_left_join"),
    ("C05", "dataiter/data_frame.py", "DataFrame.inner_join", [], "DataFrame_inner_join"),
    ("C05", "dataiter/data_frame.py", "DataFrame.semi_join", [], "DataFrame_semi_join"),
    ("C05", "dataiter/data_frame.py", "DataFrame.anti_join", [], "DataFrame_anti_join"),
    ("C05", "dataiter/data_frame.py", "DataFrame._split_join_by", [], "DataFrame_split_join_by"),
    ("C05", "dataiter/data_frame.py", "DataFrame._get_join_indices", [], "DataFrame_get_join_indices"),
    ("C15", "dataiter/list_of_dicts.py", "ListOfDicts.filter", [], "ListOfDicts_filter"),
    ("C15", "dataiter/list_of_dicts.py", "ListOfDicts.filter_out", [], "ListOfDicts_filter_out"),
    ("C15", "dataiter/list_of_dicts.py", "ListOfDicts.unique", [], "ListOfDicts_unique"),
    ("C15", "dataiter/list_of_dicts.py", "ListOfDicts.sort", [], "ListOfDicts_sort"),
    ("C15", "dataiter/list_of_dicts.py", "ListOfDicts.modify", [], "ListOfDicts_modify"),
    ("C15", "dataiter/list_of_dicts.py", "ListOfDicts.modify_if", [], "ListOfDicts_modify_if"),
    ("C15", "dataiter/list_of_dicts.py", "ListOfDicts.fill_missing_keys", [], "ListOfDicts_fill_missing_keys"),
    ("C15", "dataiter/list_of_dicts.py", "ListOfDicts.select", [], "ListOfDicts_select"),
    ("C15", "dataiter/list_of_dicts.py", "ListOfDicts.unselect", [], "ListOfDicts_unselect"),
    ("C15", "dataiter/list_of_dicts.py", "ListOfDicts.rename", [], "ListOfDicts_rename"),
    ("C15", "dataiter/list_of_dicts.py", "ListOfDicts.append", [], "ListOfDicts_append"),
    ("C15", "dataiter/list_of_dicts.py", "ListOfDicts.extend", [], "ListOfDicts_extend"),
    ("C15", "dataiter/list_of_dicts.py", "ListOfDicts.insert", [], "ListOfDicts_insert"),
    ("C15", "dataiter/list_of_dicts.py", "ListOfDicts.reverse", [], "ListOfDicts_reverse"),
    ("C15", "dataiter/list_of_dicts.py", "ListOfDicts.__add__", [], "ListOfDicts_add"),
    ("C15", "dataiter/list_of_dicts.py", "ListOfDicts.__mul__", [], "ListOfDicts_mul"),
    ("C15", "dataiter/list_of_dicts.py", "ListOfDicts.__rmul__", [], "ListOfDicts_rmul"),
    ("C15", "dataiter/list_of_dicts.py", "ListOfDicts.__getitem__", [], "ListOfDicts_getitem"),
    ("C14", "dataiter/data_frame.py", "DataFrame.from_json", [], "DataFrame_from_json"),
    ("C14", "dataiter/data_frame.py", "DataFrame.read_json", [], "DataFrame_read_json"),
    ("C14", "dataiter/data_frame.py", "DataFrame.read_csv", [], "DataFrame_read_csv"),
    ("C14", "dataiter/data_frame.py", "DataFrame.read_parquet", [], "DataFrame_read_parquet"),
    ("C14", "dataiter/list_of_dicts.py", "ListOfDicts.from_json", [], "ListOfDicts_from_json"),
    ("C14", "dataiter/list_of_dicts.py", "ListOfDicts.read_json", [], "ListOfDicts_read_json"),
    ("C14", "dataiter/list_of_dicts.py", "ListOfDicts.read_csv", [], "ListOfDicts_read_csv"),
    ("C19", "dataiter/regex.py", "_prep", [], "regex_prep"),
    ("C19", "dataiter/regex.py", "findall", [], "regex_findall"),
    ("C19", "dataiter/regex.py", "fullmatch", [], "regex_fullmatch"),
    ("C19", "dataiter/regex.py", "match", [], "regex_match"),
    ("C19", "dataiter/regex.py", "search", [], "regex_search"),
    ("C19", "dataiter/regex.py", "split", [], "regex_split"),
    ("C19", "dataiter/regex.py", "sub", [], "regex_sub"),
    ("C19", "dataiter/regex.py", "subn", [], "regex_subn"),
    ("C19", "dataiter/dt.py", "_pull_int", [], "dt_pull_int"),
    ("C19", "dataiter/dt.py", "_pull_str", [], "dt_pull_str"),
    ("C19", "dataiter/dt.py", "_pull_datetime", [], "dt_pull_datetime"),
    ("C19", "dataiter/dt.py", "to_string", [], "dt_to_string"),
    ("C19", "dataiter/dt.py", "from_string", [], "dt_from_string"),
    ("C19", "dataiter/dt.py", "year", [], "dt_year"),
    ("C19", "dataiter/dt.py", "quarter", [], "dt_quarter"),
    ("C19", "dataiter/dt.py", "weekday", [], "dt_weekday"),
    ("C19", "dataiter/dt.py", "replace", [], "dt_replace"),
    ("C13", "dataiter/data_frame.py", "DataFrame.to_list_of_dicts", [], "DataFrame_to_list_of_dicts"),
    ("C13", "dataiter/data_frame.py", "DataFrame.to_json", [], "DataFrame_to_json"),
    ("C13", "dataiter/data_frame.py", "DataFrame.to_pandas", [], "DataFrame_to_pandas"),
    ("C13", "dataiter/data_frame.py", "DataFrame.from_pandas", [], "DataFrame_from_pandas"),
    ("C13", "dataiter/data_frame.py", "DataFrame.to_arrow", [], "DataFrame_to_arrow"),
    ("C13", "dataiter/data_frame.py", "DataFrame.from_arrow", [], "DataFrame_from_arrow"),
    ("C13", "dataiter/list_of_dicts.py", "ListOfDicts.to_data_frame", [], "ListOfDicts_to_data_frame"),
    ("C13", "dataiter/list_of_dicts.py", "ListOfDicts._to_columns", [], "ListOfDicts_to_columns"),
    ("C13", "dataiter/list_of_dicts.py", "ListOfDicts.to_json", [], "ListOfDicts_to_json"),
    ("C13", "dataiter/vector.py", "Vector.tolist", [], "Vector_tolist13"),
    ("C18", "dataiter/geojson.py", "GeoJSON.read", [], "GeoJSON_read"),
    ("C18", "dataiter/geojson.py", "GeoJSON.write", [], "GeoJSON_write"),
    ("C18", "dataiter/geojson.py", "GeoJSON._check_raw_data", [], "GeoJSON_check_raw_data"),
    ("C18", "dataiter/geojson.py", "GeoJSON._check_raw_feature", [], "GeoJSON_check_raw_feature"),
    ("C07", "dataiter/aggregate.py", "yield_groups", [], "agg_yield_groups"),
    ("C07", "dataiter/aggregate.py", "handle_na", [], "agg_handle_na"),
    ("C07", "dataiter/aggregate.py", "generic", [], "agg_generic"),
    ("C07", "dataiter/aggregate.py", "nth_apply", [], "agg_nth_apply"),
    ("C07", "dataiter/aggregate.py", "mode_apply", [], "agg_mode_apply"),
    ("C07", "dataiter/aggregate.py", "mode1", [], "agg_mode1"),
    ("C07", "dataiter/aggregate.py", "count_unique_apply", [], "agg_count_unique_apply"),
    ("C07", "dataiter/aggregate.py", "quantile_apply", [], "agg_quantile_apply"),
    ("C07", "dataiter/aggregate.py", "std", [], "agg_std"),
    ("C07", "dataiter/aggregate.py", "var", [], "agg_var"),
    ("C07", "dataiter/aggregate.py", "sum", [], "agg_sum"),
    ("C07", "dataiter/aggregate.py", "nth", [], "agg_nth"),
    ("C07", "dataiter/aggregate.py", "median", [], "agg_median"),
    ("C07", "dataiter/aggregate.py", "select", [], "agg_select"),
    ("C08", "dataiter/aggregate.py", "quantile_apply", [], "agg_quantile_apply_py"),
    ("C08", "dataiter/aggregate.py", "count_unique_apply", [], "agg_count_unique_apply_py"),
    ("C08", "dataiter/aggregate.py", "generic", [], "agg_generic_py"),
    ("C08", "dataiter/aggregate.py", "yield_groups", [], "agg_yield_groups_py"),
    ("C08", "dataiter/aggregate.py", "yield_groups_numba", [], "agg_yield_groups_numba"),
    ("C08", "dataiter/aggregate.py", "generic_numba", [], "agg_generic_numba"),
    ("C08", "dataiter/aggregate.py", "nth_apply_numba", [], "agg_nth_apply_numba"),
    ("C08", "dataiter/aggregate.py", "mode_apply_numba", [], "agg_mode_apply_numba"),
    ("C08", "dataiter/aggregate.py", "count_unique_apply_numba", [], "agg_count_unique_apply_numba"),
    ("C08", "dataiter/aggregate.py", "quantile_apply_numba", [], "agg_quantile_apply_numba"),
    ("C08", "dataiter/aggregate.py", "is_na_numba", [], "agg_is_na_numba"),
    ("C20", "dataiter/util.py", "upad", [], "util_upad"),
    ("C20", "dataiter/util.py", "utruncate", [], "util_utruncate"),
    ("C20", "dataiter/util.py", "format_floats", [], "util_format_floats"),
    ("C20", "dataiter/vector.py", "Vector.to_strings", [], "Vector_to_strings"),
    ("C20", "dataiter/vector.py", "Vector.to_string", [], "Vector_to_string"),
    ("C20", "dataiter/data_frame.py", "DataFrame.to_string", [], "DataFrame_to_string"),
    ("C20", "dataiter/list_of_dicts.py", "ListOfDicts.to_string", [], "ListOfDicts_to_string"),
    ("C12", "dataiter/data_frame.py", "DataFrame.write_csv", [], "DataFrame_write_csv"),
    ("C12", "dataiter/data_frame.py", "DataFrame.write_json", [], "DataFrame_write_json"),
    ("C12", "dataiter/data_frame.py", "DataFrame.write_npz", [], "DataFrame_write_npz"),
    ("C12", "dataiter/data_frame.py", "DataFrame.read_npz", [], "DataFrame_read_npz"),
    ("C12", "dataiter/data_frame.py", "DataFrame.write_parquet", [], "DataFrame_write_parquet"),
    ("C12", "dataiter/data_frame.py", "DataFrame.write_pickle", [], "DataFrame_write_pickle"),
    ("C12", "dataiter/data_frame.py", "DataFrame.read_pickle", [], "DataFrame_read_pickle"),
    ("C12", "dataiter/list_of_dicts.py", "ListOfDicts.write_csv", [], "ListOfDicts_write_csv"),
    ("C12", "dataiter/list_of_dicts.py", "ListOfDicts.write_json", [], "ListOfDicts_write_json"),
    ("C12", "dataiter/list_of_dicts.py", "ListOfDicts.write_pickle", [], "ListOfDicts_write_pickle"),
    ("C12", "dataiter/list_of_dicts.py", "ListOfDicts.read_pickle", [], "ListOfDicts_read_pickle"),
    ("C04", "dataiter/data_frame.py", "DataFrame.aggregate", [], "DataFrame_aggregate"),
    ("C04", "dataiter/data_frame.py", "DataFrame.split", [], "DataFrame_split"),
    ("C04", "dataiter/data_frame.py", "DataFrame.modify", [], "DataFrame_modify"),
    ("C03", "dataiter/data_frame.py", "DataFrame.sort", [], "DataFrame_sort"),
    ("C11", "dataiter/vector.py", "Vector.sort", [], "Vector_sort"),
    ("C11", "dataiter/vector.py", "Vector.rank", [], "Vector_rank"),
    ("C11", "dataiter/vector.py", "Vector.unique", [], "Vector_unique"),
    ("C11", "dataiter/vector.py", "Vector._optimize_for_argsort", [], "Vector_optimize_for_argsort"),
    ("C16", "dataiter/list_of_dicts.py", "ListOfDicts.group_by", [], "ListOfDicts_group_by"),
    ("C16", "dataiter/list_of_dicts.py", "ListOfDicts.anti_join", [], "ListOfDicts_anti_join"),
    ("C16", "dataiter/list_of_dicts.py", "ListOfDicts.inner_join", [], "ListOfDicts_inner_join"),
    ("C16", "dataiter/list_of_dicts.py", "ListOfDicts.full_join", [], "ListOfDicts_full_join"),
    ("C16", "dataiter/list_of_dicts.py", "ListOfDicts._split_join_by", [], "ListOfDicts_split_join_by"),
    ("C16", "dataiter/list_of_dicts.py", "ListOfDicts.aggregate", [], "ListOfDicts_aggregate"),
    ("C16", "dataiter/list_of_dicts.py", "ListOfDicts.left_join", [], "ListOfDicts_left_join"),
    ("C16", "dataiter/list_of_dicts.py", "ListOfDicts.semi_join", [], "ListOfDicts_semi_join"),
    # (round 6) the rest of the library's functions: every function of the anchored modules is regenerated
    ("C01", "dataiter/data_frame.py", "DataFrameColumn.__init__", [], "DataFrameColumn_init"),
    ("C01", "dataiter/data_frame.py", "DataFrameColumn.nrow", [], "DataFrameColumn_nrow"),
    ("C01", "dataiter/data_frame.py", "DataFrame.__init__", [], "DataFrame_init"),
    ("C01", "dataiter/data_frame.py", "DataFrame.__setattr__", [], "DataFrame_setattr"),
    ("C01", "dataiter/data_frame.py", "DataFrame.__hasattr", [], "DataFrame_hasattr"),
    ("C01", "dataiter/data_frame.py", "DataFrame.__is_builtin_attr", [], "DataFrame_is_builtin_attr"),
    ("C01", "dataiter/data_frame.py", "DataFrame.__list_builtin_attrs", [], "DataFrame_list_builtin_attrs"),
    ("C01", "dataiter/data_frame.py", "DataFrame.clear", [], "DataFrame_clear"),
    ("C01", "dataiter/data_frame.py", "DataFrame.colnames#0", [], "DataFrame_colnames_get"),
    ("C01", "dataiter/data_frame.py", "DataFrame.colnames#1", [], "DataFrame_colnames_set"),
    ("C01", "dataiter/data_frame.py", "DataFrame.columns", [], "DataFrame_columns"),
    ("C01", "dataiter/data_frame.py", "DataFrame.ncol", [], "DataFrame_ncol"),
    ("C01", "dataiter/data_frame.py", "DataFrame._new", [], "DataFrame_new"),
    ("C01", "dataiter/data_frame.py", "DataFrame.popitem", [], "DataFrame_popitem"),
    ("C01", "dataiter/data_frame.py", "DataFrame.__copy__", [], "DataFrame_copy"),
    ("C01", "dataiter/data_frame.py", "DataFrame.__deepcopy__", [], "DataFrame_deepcopy"),
    ("C01", "dataiter/data_frame.py", "DataFrame.copy", [], "DataFrame_copy2"),
    ("C01", "dataiter/data_frame.py", "DataFrame.deepcopy", [], "DataFrame_deepcopy2"),
    ("C01", "dataiter/util.py", "is_scalar", [], "util_is_scalar"),
    ("C01", "dataiter/util.py", "sequencify", [], "util_sequencify"),
    ("C01", "dataiter/util.py", "generate_colnames", [], "util_generate_colnames"),
    ("C01", "dataiter/util.py", "yield_colnames", [], "util_yield_colnames"),
    ("C01", "dataiter/data_frame.py", "DataFrame.__eq__", [], "DataFrame_eq"),
    ("C02", "dataiter/data_frame.py", "DataFrame._parse_cols_from_boolean", [], "DataFrame_parse_cols_from_boolean"),
    ("C02", "dataiter/data_frame.py", "DataFrame._parse_cols_from_integer", [], "DataFrame_parse_cols_from_integer"),
    ("C02", "dataiter/data_frame.py", "DataFrame._parse_rows_from_integer", [], "DataFrame_parse_rows_from_integer"),
    ("C02", "dataiter/data_frame.py", "DataFrame.sample", [], "DataFrame_sample"),
    ("C02", "dataiter/data_frame.py", "DataFrame._view_rows", [], "DataFrame_view_rows"),
    ("C05", "dataiter/data_frame.py", "DataFrame.full_join", [], "DataFrame_full_join"),
    ("C05", "dataiter/data_frame.py", "DataFrame.compare", [], "DataFrame_compare"),
    ("C09", "dataiter/data_frame.py", "DataFrame.rbind", [], "DataFrame_rbind"),
    ("C09", "dataiter/data_frame.py", "DataFrame.rbind.get_part", [], "DataFrame_rbind_get_part"),
    ("C09", "dataiter/data_frame.py", "DataFrame.map", [], "DataFrame_map"),
    ("C06", "dataiter/vector.py", "Vector.concat", [], "Vector_concat"),
    ("C06", "dataiter/vector.py", "Vector.range", [], "Vector_range"),
    ("C06", "dataiter/vector.py", "Vector.sample", [], "Vector_sample"),
    ("C06", "dataiter/vector.py", "Vector.map", [], "Vector_map"),
    ("C06", "dataiter/vector.py", "Vector.replace_na", [], "Vector_replace_na"),
    ("C06", "dataiter/vector.py", "Vector.get_memory_use", [], "Vector_get_memory_use"),
    ("C06", "dataiter/vector.py", "Vector.__array_wrap__", [], "Vector_array_wrap"),
    ("C10", "dataiter/vector.py", "Vector.__new__", [], "Vector_new"),
    ("C10", "dataiter/vector.py", "Vector.__init__", [], "Vector_init"),
    ("C10", "dataiter/vector.py", "Vector.fast", [], "Vector_fast"),
    ("C10", "dataiter/vector.py", "Vector._np_array", [], "Vector_np_array"),
    ("C10", "dataiter/vector.py", "Vector._std_to_np", [], "Vector_std_to_np"),
    ("C10", "dataiter/vector.py", "Vector._std_to_np_na_value", [], "Vector_std_to_np_na_value"),
    ("C10", "dataiter/vector.py", "Vector.is_boolean", [], "Vector_is_boolean"),
    ("C10", "dataiter/vector.py", "Vector.is_bytes", [], "Vector_is_bytes"),
    ("C10", "dataiter/vector.py", "Vector.is_datetime", [], "Vector_is_datetime"),
    ("C10", "dataiter/vector.py", "Vector.is_float", [], "Vector_is_float"),
    ("C10", "dataiter/vector.py", "Vector.is_integer", [], "Vector_is_integer"),
    ("C10", "dataiter/vector.py", "Vector.is_number", [], "Vector_is_number"),
    ("C10", "dataiter/vector.py", "Vector.is_object", [], "Vector_is_object"),
    ("C10", "dataiter/vector.py", "Vector.is_string", [], "Vector_is_string"),
    ("C10", "dataiter/vector.py", "Vector._is_string_fixed", [], "Vector_is_string_fixed"),
    ("C10", "dataiter/vector.py", "Vector.is_timedelta", [], "Vector_is_timedelta"),
    ("C10", "dataiter/vector.py", "Vector.as_boolean", [], "Vector_as_boolean"),
    ("C10", "dataiter/vector.py", "Vector.as_bytes", [], "Vector_as_bytes"),
    ("C10", "dataiter/vector.py", "Vector.as_date", [], "Vector_as_date"),
    ("C10", "dataiter/vector.py", "Vector.as_datetime", [], "Vector_as_datetime"),
    ("C10", "dataiter/vector.py", "Vector.as_float", [], "Vector_as_float"),
    ("C10", "dataiter/vector.py", "Vector.as_integer", [], "Vector_as_integer"),
    ("C10", "dataiter/vector.py", "Vector.as_object", [], "Vector_as_object"),
    ("C10", "dataiter/vector.py", "Vector.as_string", [], "Vector_as_string"),
    ("C10", "dataiter/vector.py", "Vector._map_input_dtype", [], "Vector_map_input_dtype"),
    ("C07", "dataiter/aggregate.py", "all", [], "agg_all"),
    ("C07", "dataiter/aggregate.py", "any", [], "agg_any"),
    ("C07", "dataiter/aggregate.py", "count", [], "agg_count"),
    ("C07", "dataiter/aggregate.py", "count_unique", [], "agg_count_unique"),
    ("C07", "dataiter/aggregate.py", "first", [], "agg_first"),
    ("C07", "dataiter/aggregate.py", "last", [], "agg_last"),
    ("C07", "dataiter/aggregate.py", "max", [], "agg_max"),
    ("C07", "dataiter/aggregate.py", "mean", [], "agg_mean"),
    ("C07", "dataiter/aggregate.py", "min", [], "agg_min"),
    ("C07", "dataiter/aggregate.py", "mode", [], "agg_mode"),
    ("C07", "dataiter/aggregate.py", "quantile", [], "agg_quantile"),
    ("C07", "dataiter/aggregate.py", "composite", [], "agg_composite"),
    ("C07", "dataiter/aggregate.py", "composite.wrapper", [], "agg_composite_wrapper"),
    ("C07", "dataiter/aggregate.py", "generic.aggregate", [], "agg_generic_aggregate"),
    ("C08", "dataiter/aggregate.py", "generic_numba.aggregate", [], "agg_generic_numba_aggregate"),
    ("C08", "dataiter/aggregate.py", "is_na_item_numba", [], "agg_is_na_item_numba"),
    ("C08", "dataiter/aggregate.py", "is_na_item_numba_overload", [], "agg_is_na_item_numba_overload"),
    ("C08", "dataiter/util.py", "parse_env_boolean", [], "util_parse_env_boolean"),
    ("C19", "dataiter/dt.py", "day", [], "dt_day"),
    ("C19", "dataiter/dt.py", "hour", [], "dt_hour"),
    ("C19", "dataiter/dt.py", "isoweek", [], "dt_isoweek"),
    ("C19", "dataiter/dt.py", "isoweekday", [], "dt_isoweekday"),
    ("C19", "dataiter/dt.py", "microsecond", [], "dt_microsecond"),
    ("C19", "dataiter/dt.py", "minute", [], "dt_minute"),
    ("C19", "dataiter/dt.py", "month", [], "dt_month"),
    ("C19", "dataiter/dt.py", "new", [], "dt_new"),
    ("C19", "dataiter/dt.py", "now", [], "dt_now"),
    ("C19", "dataiter/dt.py", "second", [], "dt_second"),
    ("C19", "dataiter/dt.py", "today", [], "dt_today"),
    ("C19", "dataiter/vector.py", "DtProxy.__init__", [], "DtProxy_init"),
    ("C19", "dataiter/vector.py", "ReProxy.__init__", [], "ReProxy_init"),
    ("C19", "dataiter/vector.py", "StrProxy.__init__", [], "StrProxy_init"),
    ("C19", "dataiter/vector.py", "Vector.dt", [], "Vector_dt"),
    ("C19", "dataiter/vector.py", "Vector.re", [], "Vector_re"),
    ("C19", "dataiter/vector.py", "Vector.str", [], "Vector_str"),
    ("C19", "dataiter/vector.py", "as_vector", [], "vector_as_vector"),
    ("C19", "dataiter/vector.py", "as_vector.wrapper", [], "vector_as_vector_wrapper"),
    ("C14", "dataiter/io.py", "read_csv", [], "io_read_csv"),
    ("C14", "dataiter/io.py", "read_geojson", [], "io_read_geojson"),
    ("C14", "dataiter/io.py", "read_json", [], "io_read_json"),
    ("C14", "dataiter/io.py", "read_npz", [], "io_read_npz"),
    ("C14", "dataiter/io.py", "read_parquet", [], "io_read_parquet"),
    ("C14", "dataiter/util.py", "format_alias_doc", [], "util_format_alias_doc"),
    ("C13", "dataiter/list_of_dicts.py", "ListOfDicts.to_pandas", [], "ListOfDicts_to_pandas"),
    ("C13", "dataiter/geojson.py", "GeoJSON.to_data_frame", [], "GeoJSON_to_data_frame"),
    ("C18", "dataiter/geojson.py", "GeoJSON.__init__", [], "GeoJSON_init"),
    ("C15", "dataiter/list_of_dicts.py", "ListOfDicts.__setitem__", [], "ListOfDicts_setitem"),
    ("C15", "dataiter/list_of_dicts.py", "ListOfDicts.clear", [], "ListOfDicts_clear"),
    ("C15", "dataiter/list_of_dicts.py", "ListOfDicts.drop_na", [], "ListOfDicts_drop_na"),
    ("C15", "dataiter/list_of_dicts.py", "ListOfDicts.keys", [], "ListOfDicts_keys"),
    ("C15", "dataiter/list_of_dicts.py", "ListOfDicts.map", [], "ListOfDicts_map"),
    ("C15", "dataiter/list_of_dicts.py", "ListOfDicts.pluck", [], "ListOfDicts_pluck"),
    ("C15", "dataiter/list_of_dicts.py", "ListOfDicts.sample", [], "ListOfDicts_sample"),
    ("C15", "dataiter/util.py", "unique_keys", [], "util_unique_keys"),
    ("C15", "dataiter/util.py", "unique_types", [], "util_unique_types"),
    ("C15", "dataiter/deco.py", "listify.wrapper", [], "deco_listify_wrapper"),
    ("C15", "dataiter/deco.py", "tuplefy.wrapper", [], "deco_tuplefy_wrapper"),
    ("C16", "dataiter/list_of_dicts.py", "ListOfDicts.split", [], "ListOfDicts_split"),
    ("C17", "dataiter/list_of_dicts.py", "ListOfDicts.copy", [], "ListOfDicts_copy2"),
    ("C17", "dataiter/list_of_dicts.py", "ListOfDicts.deepcopy", [], "ListOfDicts_deepcopy2"),
    ("C20", "dataiter/data_frame.py", "DataFrame.__repr__", [], "DataFrame_repr"),
    ("C20", "dataiter/data_frame.py", "DataFrame.__str__", [], "DataFrame_str"),
    ("C20", "dataiter/data_frame.py", "DataFrame.print_", [], "DataFrame_print"),
    ("C20", "dataiter/data_frame.py", "DataFrame.print_memory_use", [], "DataFrame_print_memory_use"),
    ("C20", "dataiter/data_frame.py", "DataFrame.print_na_counts", [], "DataFrame_print_na_counts"),
    ("C20", "dataiter/list_of_dicts.py", "ListOfDicts.__repr__", [], "ListOfDicts_repr"),
    ("C20", "dataiter/list_of_dicts.py", "ListOfDicts.__str__", [], "ListOfDicts_str"),
    ("C20", "dataiter/list_of_dicts.py", "ListOfDicts.print_", [], "ListOfDicts_print"),
    ("C20", "dataiter/list_of_dicts.py", "ListOfDicts.print_memory_use", [], "ListOfDicts_print_memory_use"),
    ("C20", "dataiter/list_of_dicts.py", "ListOfDicts.print_na_counts", [], "ListOfDicts_print_na_counts"),
    ("C20", "dataiter/vector.py", "Vector.__repr__", [], "Vector_repr"),
    ("C20", "dataiter/vector.py", "Vector.__str__", [], "Vector_str2"),
    ("C20", "dataiter/vector.py", "Vector.dtype_label", [], "Vector_dtype_label"),
    ("C20", "dataiter/vector.py", "Vector.to_string.add_string_element", [], "Vector_to_string_add_string_element"),
    ("C20", "dataiter/util.py", "count_digits", [], "util_count_digits"),
    ("C20", "dataiter/util.py", "quote", [], "util_quote"),
    ("C20", "dataiter/util.py", "get_print_width", [], "util_get_print_width"),
    ("C20", "dataiter/geojson.py", "GeoJSON.to_string", [], "GeoJSON_to_string"),
    ("C12", "dataiter/util.py", "makedirs_for_file", [], "util_makedirs_for_file"),
]


class Unsupported(Exception):
    pass


def lean_str(s):
    return '"' + s.replace("\\", "\\\\").replace('"', '\\"').replace("\n", "\\n") + '"'


def sanitize(text):
    s = re.sub(r"[^A-Za-z0-9_]+", "_", text).strip("_")
    if not s or s[0].isdigit():
        s = "v_" + s
    return s


def find_function(tree, qual):
    node = tree
    for part in qual.split("."):
        found = None
        want = None
        if "#" in part:                  # `name#k`: the k-th definition of that name (a property's getter is #0, its setter #1)
            part, k = part.split("#")
            want = int(k)
        seen = 0
        for n in node.body:
            if isinstance(n, (ast.ClassDef, ast.FunctionDef)) and n.name == part:
                if want is None or seen == want:
                    found = n
                seen += 1
        if found is None:
            raise Unsupported(f"{qual}: {part} not found")
        node = found
    if not isinstance(node, ast.FunctionDef):
        raise Unsupported(f"{qual}: not a function")
    return node


class Translator:
    def __init__(self, fn, ints):
        self.fn = fn
        self.ints = set(ints)
        self.args = [a.arg for a in fn.args.posonlyargs + fn.args.args + fn.args.kwonlyargs]
        if fn.args.vararg:
            self.args.append(fn.args.vararg.arg)
        if fn.args.kwarg:
            self.args.append(fn.args.kwarg.arg)
        self.params = []          # (lean name, lean type) in order of first use
        self.pnames = {}
        self.assigned = set()     # (object text, attribute) assigned so far on the current path
        self.sym_depth = 0        # > 0 inside loop bodies, comprehensions and lambdas: tests are terms, not evaluated

    # ---- parameters -----------------------------------------------------------------------
    def param(self, text, ty):
        name = sanitize(text)
        key = (name, ty)
        if name in self.pnames and self.pnames[name] != ty:
            raise Unsupported(f"atom {text} used at two types")
        if name not in self.pnames:
            self.pnames[name] = ty
            self.params.append((name, ty))
        return name

    # ---- integer grammar ------------------------------------------------------------------
    def is_int(self, e, env):
        if isinstance(e, ast.Constant):
            return isinstance(e.value, int) and not isinstance(e.value, bool)
        if isinstance(e, ast.Name):
            if e.id in env:
                return env[e.id][0] == "int"
            return e.id in self.ints
        if isinstance(e, (ast.Attribute, ast.Call, ast.Subscript)) and ast.unparse(e) in self.ints:
            return True
        if isinstance(e, ast.BinOp) and isinstance(e.op, (ast.Add, ast.Sub, ast.Mult)):
            return self.is_int(e.left, env) and self.is_int(e.right, env)
        if isinstance(e, ast.UnaryOp) and isinstance(e.op, ast.USub):
            return self.is_int(e.operand, env)
        if isinstance(e, ast.Call) and isinstance(e.func, ast.Name) and e.func.id in ("min", "max") \
                and len(e.args) == 2 and not e.keywords:
            return all(self.is_int(a, env) for a in e.args)
        if isinstance(e, ast.IfExp):
            return self.sym_depth == 0 and self.is_int(e.body, env) and self.is_int(e.orelse, env)
        return False

    def int_(self, e, env):
        if isinstance(e, ast.Constant):
            return f"({e.value} : Int)"
        if isinstance(e, ast.Name):
            if e.id in env:
                return env[e.id][1]
            return self.param(e.id, "Int")
        if isinstance(e, (ast.Attribute, ast.Subscript)) or (isinstance(e, ast.Call) and ast.unparse(e) in self.ints):
            return self.param(ast.unparse(e), "Int")
        if isinstance(e, ast.BinOp):
            op = {ast.Add: "+", ast.Sub: "-", ast.Mult: "*"}[type(e.op)]
            return f"({self.int_(e.left, env)} {op} {self.int_(e.right, env)})"
        if isinstance(e, ast.UnaryOp):
            return f"(-{self.int_(e.operand, env)})"
        if isinstance(e, ast.Call):
            f = "pmin" if e.func.id == "min" else "pmax"
            return f"({f} {self.int_(e.args[0], env)} {self.int_(e.args[1], env)})"
        if isinstance(e, ast.IfExp):
            return f"(if {self.test(e.test, env)} then {self.int_(e.body, env)} else {self.int_(e.orelse, env)})"
        raise Unsupported("int: " + ast.dump(e))

    # ---- symbolic terms -------------------------------------------------------------------
    @staticmethod
    def is_dotted_name(e):
        while isinstance(e, ast.Attribute):
            e = e.value
        if isinstance(e, ast.Call) and isinstance(e.func, ast.Name) and e.func.id == "super" and not e.args:
            return True       # `super().method`: a name of the parent class's method, nothing computed
        return isinstance(e, ast.Name)

    @staticmethod
    def root_name(e):
        """the leftmost name of an attribute / subscript / call chain (None when there is none)"""
        while isinstance(e, (ast.Attribute, ast.Subscript, ast.Call, ast.Starred)):
            e = e.func if isinstance(e, ast.Call) else e.value
        return e.id if isinstance(e, ast.Name) else None

    def root_is_local(self, e, env):
        while isinstance(e, (ast.Attribute, ast.Subscript, ast.Call)):
            e = e.value if not isinstance(e, ast.Call) else e.func
        if isinstance(e, (ast.BinOp, ast.BoolOp, ast.UnaryOp, ast.Compare, ast.IfExp, ast.List, ast.Tuple, ast.Dict, ast.Set,
                          ast.ListComp, ast.DictComp, ast.SetComp, ast.GeneratorExp)):
            return True       # a compound expression: a value computed here, e.g. `(ab + ba).sort(...)`
        return isinstance(e, ast.Name) and (e.id in env or e.id in self.args or e.id in ("self", "cls"))

    def opt_int(self, e, env):
        if e is None:
            return "none"
        if not self.is_int(e, env):
            raise Unsupported("slice bound is not an integer expression: " + ast.unparse(e))
        return f"(some {self.int_(e, env)})"

    def term(self, e, env):
        if self.is_int(e, env):
            return f"(Term.int {self.int_(e, env)})"
        if isinstance(e, ast.Name):
            if e.id in env:
                return env[e.id][1]
            return f"(Term.sym {lean_str(e.id)})"
        if isinstance(e, ast.Constant):
            return f"(Term.sym {lean_str(repr(e.value))})"
        if isinstance(e, ast.Call):
            fu = ast.unparse(e.func)
            if fu in ("np.arange", "range") and not e.keywords and 1 <= len(e.args) <= 2 \
                    and all(self.is_int(a, env) for a in e.args):
                a = "(0 : Int)" if len(e.args) == 1 else self.int_(e.args[0], env)
                b = self.int_(e.args[-1], env)
                return f"(Term.rows (arange {a} {b}))"
            args = []
            for a in e.args:
                if isinstance(a, ast.Starred):
                    args.append(f"(Term.app \"*\" [{self.term(a.value, env)}])")
                else:
                    args.append(self.term(a, env))
            for kw in e.keywords:
                args.append(f"(Term.app {lean_str('=' + (kw.arg or '**'))} [{self.term(kw.value, env)}])")
            if not isinstance(e.func, (ast.Name, ast.Attribute)):
                # the callee is itself computed (`select(f, data, x)(np.std)`): translated, not quoted
                return f"(Term.app \"call\" [{', '.join([self.term(e.func, env)] + args)}])"
            if isinstance(e.func, ast.Name) and e.func.id in env and env[e.func.id][0] == "term":
                # a call of a local that holds a callable (e.g. `extract = operator.itemgetter(...)`; `extract(item)`)
                return f"(Term.app \"call\" [{', '.join([env[e.func.id][1]] + args)}])"
            if isinstance(e.func, ast.Attribute) and (self.root_is_local(e.func.value, env) or not self.is_dotted_name(e.func.value)):
                # a method of a value computed here (`np.unique(x).cumsum()`): the receiver is translated, not quoted
                recv = self.term(e.func.value, env)
                return f"(Term.app {lean_str('.' + e.func.attr)} [{', '.join([recv] + args)}])"
            if fu in ("list", "tuple", "set", "dict", "frozenset") and isinstance(e.func, ast.Name):
                # the constructor CALL `list(x)` is not the display `[x]` (which is `Term.app "list" [x]`)
                fu = fu + "()"
            return f"(Term.app {lean_str(fu)} [{', '.join(args)}])"
        if isinstance(e, ast.Subscript):
            v = self.term(e.value, env)
            if isinstance(e.slice, ast.Slice):
                if e.slice.step is not None:
                    s = self.term(e.slice, env)
                elif all(b is None or self.is_int(b, env) for b in (e.slice.lower, e.slice.upper)):
                    s = f"(Term.slice {self.opt_int(e.slice.lower, env)} {self.opt_int(e.slice.upper, env)})"
                else:
                    s = self.term(e.slice, env)
            else:
                s = self.term(e.slice, env)
            return f"(Term.app \"getitem\" [{v}, {s}])"
        if isinstance(e, ast.Attribute):
            akey = "@" + ast.unparse(e.value) + "." + e.attr
            if akey in env and (len(env[akey]) < 3 or env[akey][2] is env.get(self.root_name(e.value))):
                # the value assigned to this attribute earlier ON THIS PATH (env is per path) — only while the receiver
                # expression still denotes the object the store was made on (the name may have been rebound since)
                return env[akey][1]
            if self.root_is_local(e.value, env) or not self.is_dotted_name(e.value):
                return f"(Term.app {lean_str('.' + e.attr)} [{self.term(e.value, env)}])"
            return f"(Term.sym {lean_str(ast.unparse(e))})"
        if isinstance(e, ast.UnaryOp):
            op = {ast.Invert: "~", ast.USub: "neg", ast.Not: "not", ast.UAdd: "pos"}[type(e.op)]
            return f"(Term.app {lean_str(op)} [{self.term(e.operand, env)}])"
        if isinstance(e, ast.BinOp):
            return f"(Term.app {lean_str(type(e.op).__name__)} [{self.term(e.left, env)}, {self.term(e.right, env)}])"
        if isinstance(e, ast.BoolOp):
            return f"(Term.app {lean_str(type(e.op).__name__)} [{', '.join(self.term(v, env) for v in e.values)}])"
        if isinstance(e, ast.IfExp):
            if self.sym_depth > 0:
                return f"(Term.app \"ifexp\" [{self.term(e.test, env)}, {self.term(e.body, env)}, {self.term(e.orelse, env)}])"
            return (f"(if {self.test(e.test, env)} then {self.term(e.body, env)} else {self.term(e.orelse, env)})")
        if isinstance(e, (ast.Tuple, ast.List)):
            return f"(Term.app {lean_str(type(e).__name__.lower())} [{', '.join(self.term(v, env) for v in e.elts)}])"
        if isinstance(e, ast.Compare):
            parts = [self.term(e.left, env)] + [self.term(c, env) for c in e.comparators]
            ops = "/".join(type(o).__name__ for o in e.ops)
            return f"(Term.app {lean_str(ops)} [{', '.join(parts)}])"
        if isinstance(e, ast.Slice):
            parts = [self.term(b, env) if b is not None else '(Term.sym "None")' for b in (e.lower, e.upper)]
            if e.step is not None:
                parts.append(self.term(e.step, env))
            return f"(Term.app \"slice\" [{', '.join(parts)}])"
        if isinstance(e, ast.Starred):
            return f"(Term.app \"*\" [{self.term(e.value, env)}])"
        if isinstance(e, ast.NamedExpr):
            return f"(Term.app \"walrus\" [(Term.sym {lean_str(e.target.id)}), {self.term(e.value, env)}])"
        if isinstance(e, ast.Lambda):
            env2 = dict(env)
            params = [a.arg for a in e.args.posonlyargs + e.args.args + e.args.kwonlyargs]
            for a in params:
                env2[a] = ("term", f"(Term.sym {lean_str(a)})")
            self.sym_depth += 1
            try:
                body = self.term(e.body, env2)
            finally:
                self.sym_depth -= 1
            return (f"(Term.app \"lambda\" [(Term.app \"params\" [{', '.join('(Term.sym ' + lean_str(a) + ')' for a in params)}]), {body}])")
        if isinstance(e, (ast.GeneratorExp, ast.ListComp, ast.SetComp, ast.DictComp)):
            env2 = dict(env)
            gens = []
            self.sym_depth += 1
            try:
                for i, g in enumerate(e.generators):
                    if i == 0:
                        self.sym_depth -= 1          # the first iterable is evaluated in the enclosing scope
                        it = self.term(g.iter, env2)
                        self.sym_depth += 1
                    else:
                        it = self.term(g.iter, env2)
                    for n in ast.walk(g.target):
                        if isinstance(n, ast.Name):
                            env2[n.id] = ("term", f"(Term.sym {lean_str(n.id)})")
                    conds = ", ".join(self.term(c, env2) for c in g.ifs)
                    gens.append(f"(Term.app \"in\" [{self.term(g.target, env2)}, {it}, (Term.app \"if\" [{conds}])])")
                elt = (f"(Term.app \"pair\" [{self.term(e.key, env2)}, {self.term(e.value, env2)}])" if isinstance(e, ast.DictComp)
                       else self.term(e.elt, env2))
            finally:
                self.sym_depth -= 1
            return f"(Term.app {lean_str(type(e).__name__)} [{elt}, {', '.join(gens)}])"
        if isinstance(e, ast.JoinedStr):
            parts = []
            for v in e.values:
                if isinstance(v, ast.Constant):
                    parts.append(f"(Term.sym {lean_str(repr(v.value))})")
                else:
                    spec = ast.unparse(v.format_spec) if v.format_spec is not None else ""
                    parts.append(f"(Term.app \"format\" [{self.term(v.value, env)}, (Term.sym {lean_str(spec)}), (Term.int ({v.conversion} : Int))])")
            return f"(Term.app \"fstring\" [{', '.join(parts)}])"
        if isinstance(e, ast.Dict) and e.keys:
            return ("(Term.app \"dict\" [" + ", ".join((f"(Term.app \"pair\" [{self.term(k, env)}, {self.term(v, env)}])" if k is not None
                                                          else f"(Term.app \"**\" [{self.term(v, env)}])")
                                                         for k, v in zip(e.keys, e.values)) + "])")
        if isinstance(e, ast.Set):
            return f"(Term.app \"set-literal\" [{', '.join(self.term(v, env) for v in e.elts)}])"
        if isinstance(e, (ast.Lambda, ast.GeneratorExp, ast.ListComp, ast.DictComp, ast.SetComp, ast.JoinedStr, ast.Dict, ast.Set)):
            # opaque by text; free local variables would be captured silently, so forbid them
            for n in ast.walk(e):
                if isinstance(n, ast.Name) and n.id in env:
                    raise Unsupported("opaque expression mentions a local: " + ast.unparse(e))
            return f"(Term.sym {lean_str(ast.unparse(e))})"
        raise Unsupported("term: " + ast.dump(e))

    # ---- tests ----------------------------------------------------------------------------
    def test(self, e, env):
        if isinstance(e, ast.BoolOp):
            op = " && " if isinstance(e.op, ast.And) else " || "
            return "(" + op.join(self.test(v, env) for v in e.values) + ")"
        if isinstance(e, ast.UnaryOp) and isinstance(e.op, ast.Not):
            return f"(!{self.test(e.operand, env)})"
        if isinstance(e, ast.Constant) and isinstance(e.value, bool):
            return "true" if e.value else "false"
        if isinstance(e, ast.Compare) and len(e.ops) == 1:
            op, left, right = e.ops[0], e.left, e.comparators[0]
            if isinstance(op, (ast.Is, ast.IsNot)) and isinstance(right, ast.Constant) and right.value is None \
                    and isinstance(left, ast.Name) and left.id in self.args and left.id not in env:
                p = self.param(left.id + " is None", "Bool")
                return p if isinstance(op, ast.Is) else f"(!{p})"
            if isinstance(op, (ast.In, ast.NotIn)) and isinstance(right, (ast.List, ast.Tuple)) \
                    and self.is_int(left, env) and all(self.is_int(x, env) for x in right.elts):
                l = self.int_(left, env)
                body = "(" + " || ".join(f"decide ({l} = {self.int_(x, env)})" for x in right.elts) + ")" if right.elts else "false"
                return body if isinstance(op, ast.In) else f"(!{body})"
            if self.is_int(left, env) and self.is_int(right, env) and type(op) in CMP:
                return f"decide ({self.int_(left, env)} {CMP[type(op)]} {self.int_(right, env)})"
        if isinstance(e, ast.Call) and isinstance(e.func, ast.Name) and e.func.id in ("any", "all") and len(e.args) == 1 \
                and isinstance(e.args[0], (ast.Tuple, ast.List)) and not e.keywords:
            op = " || " if e.func.id == "any" else " && "
            elts = e.args[0].elts
            if not elts:
                return "false" if e.func.id == "any" else "true"
            return "(" + op.join(self.test(v, env) for v in elts) + ")"
        return f"truth {self.term(e, env)}"

    # ---- loop bodies: fully symbolic statement terms ---------------------------------------
    def sym_stmts(self, stmts, env):
        """statements inside a loop, as a Lean `List Term` expression.  Nothing is evaluated: a test is a term, an
        assignment binds the name to its term for the rest of the body, `yield` / `continue` / `break` / `return`
        are nodes."""
        self.sym_depth += 1
        try:
            return self._sym_stmts(stmts, env)
        finally:
            self.sym_depth -= 1

    def _sym_stmts(self, stmts, env):
        out = []
        env = dict(env)
        for i, s in enumerate(stmts):
            if isinstance(s, ast.Expr) and isinstance(s.value, ast.Constant) and isinstance(s.value.value, str):
                continue
            if isinstance(s, ast.Pass):
                continue
            if isinstance(s, ast.Expr) and isinstance(s.value, ast.Yield):
                v = s.value.value
                out.append(f"(Term.app \"yield\" [{self.term(v, env) if v is not None else '(Term.sym \"None\")'}])")
            elif isinstance(s, ast.Expr) and isinstance(s.value, ast.YieldFrom):
                out.append(f"(Term.app \"yield-from\" [{self.term(s.value.value, env)}])")
            elif isinstance(s, ast.Expr):
                out.append(self.term(s.value, env))
            elif isinstance(s, ast.Assign) and len(s.targets) == 1 and isinstance(s.targets[0], ast.Name):
                t = self.term(s.value, env)
                nm = s.targets[0].id
                out.append(f"(Term.app \"assign\" [(Term.sym {lean_str(nm)}), {t}])")
                env[nm] = ("term", f"(Term.sym {lean_str(nm)})")
            elif isinstance(s, ast.Assign) and len(s.targets) == 1 and isinstance(s.targets[0], (ast.Subscript, ast.Attribute)):
                tgt = s.targets[0]
                out.append(f"(Term.app \"store\" [{self.term(tgt, env)}, {self.term(s.value, env)}])")
            elif isinstance(s, ast.AugAssign) and isinstance(s.target, ast.Name):
                nm = s.target.id
                cur = env[nm][1] if nm in env else f"(Term.sym {lean_str(nm)})"
                t = f"(Term.app {lean_str(type(s.op).__name__ + '=')} [{cur}, {self.term(s.value, env)}])"
                out.append(f"(Term.app \"assign\" [(Term.sym {lean_str(nm)}), {t}])")
                env[nm] = ("term", f"(Term.sym {lean_str(nm)})")
            elif isinstance(s, ast.If):
                out.append(f"(Term.app \"if\" [{self.term(s.test, env)}, (Term.app \"block\" {self.sym_stmts(s.body, env)}), "
                           f"(Term.app \"block\" {self.sym_stmts(s.orelse, env)})])")
            elif isinstance(s, ast.FunctionDef):
                # a local function (e.g. the sort key defined per pass): its parameters are bound by name, free names
                # denote what they denote where it is defined
                env2 = dict(env)
                params = [a.arg for a in s.args.posonlyargs + s.args.args + s.args.kwonlyargs]
                if s.args.defaults or s.args.kw_defaults:
                    raise Unsupported("local function signature: " + s.name)
                params += ["*" + a.arg for a in (s.args.vararg,) if a] + ["**" + a.arg for a in (s.args.kwarg,) if a]
                for a in [x.lstrip("*") for x in params]:
                    env2[a] = ("term", f"(Term.sym {lean_str(a)})")
                decos = "".join(f"(Term.app \"decorator\" [{self.term(d, env)}]), " for d in s.decorator_list)
                out.append(f"(Term.app \"def\" [{decos}(Term.sym {lean_str(s.name)}), (Term.app \"params\" ["
                           f"{', '.join('(Term.sym ' + lean_str(a) + ')' for a in params)}]), "
                           f"(Term.app \"block\" {self.sym_stmts(s.body, env2)})])")
                env[s.name] = ("term", f"(Term.sym {lean_str(s.name)})")
            elif isinstance(s, ast.Assert):
                out.append(f"(Term.app \"assert\" [{self.term(s.test, env)}])")
            elif isinstance(s, (ast.Import, ast.ImportFrom)):
                pass        # binds module names only; they stay global symbols
            elif isinstance(s, ast.Try):
                hs = []
                for h in s.handlers:
                    env_h = dict(env)
                    if h.name:
                        env_h[h.name] = ("term", f"(Term.sym {lean_str(h.name)})")
                    hs.append(f"(Term.app \"except\" [(Term.sym {lean_str(ast.unparse(h.type) if h.type is not None else 'BaseException')}), "
                              f"(Term.app \"block\" {self.sym_stmts(h.body, env_h)})])")
                out.append(f"(Term.app \"try\" [(Term.app \"block\" {self.sym_stmts(s.body, env)}), {', '.join(hs)}"
                           f", (Term.app \"else\" [(Term.app \"block\" {self.sym_stmts(s.orelse, env)})])"
                           f", (Term.app \"finally\" [(Term.app \"block\" {self.sym_stmts(s.finalbody, env)})])])")
            elif isinstance(s, ast.While):
                if s.orelse:
                    raise Unsupported("while-else")
                out.append(f"(Term.app \"while\" [{self.term(s.test, env)}, (Term.app \"block\" {self.sym_stmts(s.body, env)})])")
            elif isinstance(s, ast.With):
                items = []
                env_w = dict(env)
                for it in s.items:
                    nm = it.optional_vars.id if isinstance(it.optional_vars, ast.Name) else None
                    items.append(f"(Term.app \"as\" [{self.term(it.context_expr, env_w)}, (Term.sym {lean_str(nm or '_')})])")
                    if nm:
                        env_w[nm] = ("term", f"(Term.sym {lean_str(nm)})")
                out.append(f"(Term.app \"with\" [{', '.join(items)}, (Term.app \"block\" {self.sym_stmts(s.body, env_w)})])")
            elif isinstance(s, ast.AugAssign) and isinstance(s.target, (ast.Subscript, ast.Attribute)):
                out.append(f"(Term.app \"store\" [{self.term(s.target, env)}, (Term.app {lean_str(type(s.op).__name__ + '=')} "
                           f"[{self.term(s.target, env)}, {self.term(s.value, env)}])])")
            elif isinstance(s, ast.Assign) and len(s.targets) == 1 and isinstance(s.targets[0], ast.Tuple):
                tgt = s.targets[0]
                out.append(f"(Term.app \"assign\" [{self.term(tgt, {**env, **{n.id: ('term', '(Term.sym ' + lean_str(n.id) + ')') for n in ast.walk(tgt) if isinstance(n, ast.Name)}})}, {self.term(s.value, env)}])")
                for n in ast.walk(tgt):
                    if isinstance(n, ast.Name):
                        env[n.id] = ("term", f"(Term.sym {lean_str(n.id)})")
            elif isinstance(s, ast.Delete):
                out.append(f"(Term.app \"del\" [{', '.join(self.term(t_, env) for t_ in s.targets)}])")
            elif isinstance(s, ast.Continue):
                out.append("(Term.sym \"continue\")")
            elif isinstance(s, ast.Break):
                out.append("(Term.sym \"break\")")
            elif isinstance(s, ast.Return):
                out.append(f"(Term.app \"return\" [{self.term(s.value, env) if s.value is not None else '(Term.sym \"None\")'}])")
            elif isinstance(s, ast.For):
                out.append(self.for_term(s, env))
            elif isinstance(s, ast.Raise):
                exc = s.exc.func if isinstance(s.exc, ast.Call) else s.exc
                out.append(f"(Term.app \"raise\" [(Term.sym {lean_str(ast.unparse(exc) if exc is not None else 're-raise')})])")
            else:
                raise Unsupported("statement in a loop body: " + type(s).__name__)
        return "[" + ", ".join(out) + "]"

    def for_term(self, s, env):
        if s.orelse:
            raise Unsupported("for-else")
        names = [n.id for n in ast.walk(s.target) if isinstance(n, ast.Name)]
        env2 = dict(env)
        for n in names:
            env2[n] = ("term", f"(Term.sym {lean_str(n)})")      # the loop variable, by name
        # names assigned in the body are loop-carried: inside the body they are referred to by name, and their values
        # on entry are listed in an "init" node
        carried = []
        for n in ast.walk(s):
            if isinstance(n, (ast.Assign, ast.AugAssign)):
                for t_ in (n.targets if isinstance(n, ast.Assign) else [n.target]):
                    if isinstance(t_, ast.Name) and t_.id not in carried and t_.id not in names:
                        carried.append(t_.id)
        inits = []
        for nm in carried:
            if nm in env:
                cur = env[nm][1] if env[nm][0] == "term" else f"(Term.int {env[nm][1]})"
                inits.append(f"(Term.app \"init\" [(Term.sym {lean_str(nm)}), {cur}])")
            env2[nm] = ("term", f"(Term.sym {lean_str(nm)})")
        target = self.term(s.target, env2)
        return (f"(Term.app \"for\" [{target}, {self.term(s.iter, env)}, (Term.app \"block\" {self.sym_stmts(s.body, env2)})"
                + "".join(", " + i for i in inits) + "])")

    # ---- statements -----------------------------------------------------------------------
    def block(self, stmts, env, effs, depth):
        ind = "  " * depth
        if not stmts:
            return f"{ind}Out.fall [" + ", ".join(effs) + "]"
        s, rest = stmts[0], stmts[1:]
        if isinstance(s, ast.Expr) and isinstance(s.value, ast.Constant) and isinstance(s.value.value, str):
            return self.block(rest, env, effs, depth)
        if isinstance(s, ast.Pass):
            return self.block(rest, env, effs, depth)
        if isinstance(s, (ast.Import, ast.ImportFrom)):
            return self.block(rest, env, effs, depth)         # binds module names only; they stay global symbols
        if isinstance(s, ast.Delete):
            v = f"eff{len(effs)}"
            return (f"{ind}let {v} : Term := (Term.app \"del\" [{', '.join(self.term(t_, env) for t_ in s.targets)}]);\n"
                    + self.block(rest, env, effs + [v], depth))
        if isinstance(s, ast.Assert):
            v = f"eff{len(effs)}"
            return f"{ind}let {v} : Term := (Term.app \"assert\" [{self.term(s.test, env)}]);\n" + self.block(rest, env, effs + [v], depth)
        if isinstance(s, ast.With):
            # `with ctx as f: body`: f is "the resource opened from ctx"; the body runs in sequence (where the block
            # ends — when the resource is closed — is not represented)
            code, env2, effs2 = "", dict(env), list(effs)
            for it in s.items:
                v = f"eff{len(effs2)}"
                code += f"{ind}let {v} : Term := (Term.app \"with\" [{self.term(it.context_expr, env2)}]);\n"
                effs2.append(v)
                if isinstance(it.optional_vars, ast.Name):
                    env2[it.optional_vars.id] = ("term", v)
                elif it.optional_vars is not None:
                    raise Unsupported("with target")
            return code + self.block(list(s.body) + rest, env2, effs2, depth)
        if isinstance(s, ast.FunctionDef):
            lv = sanitize(s.name) + "'"
            t = self._sym_stmts([s], dict(env))
            env2 = dict(env)
            env2[s.name] = ("term", lv)
            self.sym_depth += 0
            return f"{ind}let {lv} : Term := (Term.app \"local-def\" {self.sym_stmts([s], env)});\n" + self.block(rest, env2, effs, depth)
        if isinstance(s, (ast.Try, ast.While)):
            # a compound statement kept whole, as one symbolic effect; names it assigns are, afterwards, "their value after it"
            v = f"eff{len(effs)}"
            code = f"{ind}let {v} : Term := (Term.app \"stmt\" {self.sym_stmts([s], env)});\n"
            env2 = dict(env)
            seen = []
            for n in ast.walk(s):
                tgts = n.targets if isinstance(n, ast.Assign) else [n.target] if isinstance(n, (ast.AugAssign, ast.For)) else []
                for t_ in tgts:
                    for nn in ast.walk(t_):
                        if isinstance(nn, ast.Name) and isinstance(nn.ctx, ast.Store) and nn.id not in seen:
                            seen.append(nn.id)
            for nm in seen:
                lv = sanitize(nm) + "'"
                code += f"{ind}let {lv} : Term := (Term.app \"value-after-loop\" [(Term.sym {lean_str(nm)}), {v}]);\n"
                env2[nm] = ("term", lv)
            return code + self.block(rest, env2, effs + [v], depth)
        if isinstance(s, ast.Expr) and isinstance(s.value, (ast.Yield, ast.YieldFrom)):
            # a generator method: what it yields, in order, is part of the effect list
            v = f"eff{len(effs)}"
            if isinstance(s.value, ast.Yield):
                t = f"(Term.app \"yield\" [{self.term(s.value.value, env) if s.value.value is not None else '(Term.sym \"None\")'}])"
            else:
                t = f"(Term.app \"yield-from\" [{self.term(s.value.value, env)}])"
            return f"{ind}let {v} : Term := {t};\n" + self.block(rest, env, effs + [v], depth)
        if isinstance(s, ast.For):
            # a loop: one symbolic effect (target, iterable, body); names bound inside do not escape
            v = f"eff{len(effs)}"
            code = f"{ind}let {v} : Term := {self.for_term(s, env)};\n"
            # a name assigned in the loop and used after it (an accumulator) is, afterwards, "its value after that loop"
            env2 = dict(env)
            carried = []
            for n in ast.walk(s):
                if isinstance(n, (ast.Assign, ast.AugAssign)):
                    for t_ in (n.targets if isinstance(n, ast.Assign) else [n.target]):
                        if isinstance(t_, ast.Name) and t_.id not in carried:
                            carried.append(t_.id)
            for nm in carried:
                lv = sanitize(nm) + "'"
                code += f"{ind}let {lv} : Term := (Term.app \"value-after-loop\" [(Term.sym {lean_str(nm)}), {v}]);\n"
                env2[nm] = ("term", lv)
            return code + self.block(rest, env2, effs + [v], depth)
        if isinstance(s, ast.Assign) and len(s.targets) == 1 and isinstance(s.targets[0], ast.Tuple) \
                and all(isinstance(e, ast.Name) for e in s.targets[0].elts):
            # a, b = f(...): each name is a projection of the one value
            val = self.term(s.value, env)
            code = ""
            env2 = dict(env)
            tv = f"tup{len(env)}_{depth}'"
            code += f"{ind}let {tv} : Term := {val};\n"
            for i, e in enumerate(s.targets[0].elts):
                lv = sanitize(e.id) + "'"
                code += f"{ind}let {lv} : Term := (Term.app {lean_str('item' + str(i))} [{tv}]);\n"
                env2[e.id] = ("term", lv)
            return code + self.block(rest, env2, effs, depth)
        if isinstance(s, ast.Expr):
            # an effect (a call that may raise inside the library): kept, in order, as a let-bound marker
            v = f"eff{len(effs)}"
            t = self.term(s.value, env)
            return f"{ind}let {v} : Term := {t};\n" + self.block(rest, env, effs + [v], depth)
        if isinstance(s, ast.Assign) and len(s.targets) == 1 and isinstance(s.targets[0], ast.Attribute) \
                and self.root_is_local(s.targets[0].value, env):
            # `obj.attr = value`: an effect (the object is not modelled); reading that attribute of the same
            # object later in the same function would need a store, so it is rejected (see `term`)
            tgt = s.targets[0]
            v = f"eff{len(effs)}"
            recv = self.term(tgt.value, env)
            val = self.term(s.value, env)
            env2 = dict(env)
            av = f"attr{len(effs)}_{depth}'"
            env2["@" + ast.unparse(tgt.value) + "." + tgt.attr] = ("term", av, env.get(self.root_name(tgt.value)))
            return (f"{ind}let {av} : Term := {val};\n"
                    f"{ind}let {v} : Term := (Term.app \"setattr\" [{recv}, (Term.sym {lean_str(tgt.attr)}), {av}]);\n"
                    + self.block(rest, env2, effs + [v], depth))
        if isinstance(s, ast.Assign) and len(s.targets) == 1 and isinstance(s.targets[0], ast.Subscript):
            # `x[key] = value`: an effect; later reads of `x` still denote the object (stores are not replayed)
            v = f"eff{len(effs)}"
            t = f"(Term.app \"store\" [{self.term(s.targets[0], env)}, {self.term(s.value, env)}])"
            return f"{ind}let {v} : Term := {t};\n" + self.block(rest, env, effs + [v], depth)
        if isinstance(s, ast.AugAssign) and isinstance(s.target, ast.Name):
            nm = s.target.id
            cur = env[nm][1] if nm in env else f"(Term.sym {lean_str(nm)})"
            lv = sanitize(nm) + "'"
            env2 = dict(env)
            env2[nm] = ("term", lv)
            return (f"{ind}let {lv} : Term := (Term.app {lean_str(type(s.op).__name__ + '=')} [{cur}, {self.term(s.value, env)}]);\n"
                    + self.block(rest, env2, effs, depth))
        if isinstance(s, ast.Assign):
            if len(s.targets) != 1 or not isinstance(s.targets[0], ast.Name):
                raise Unsupported("assignment target: " + ast.unparse(s))
            name = s.targets[0].id
            env2 = dict(env)
            lv = sanitize(name) + "'"
            if self.is_int(s.value, env):
                code = self.int_(s.value, env)
                env2[name] = ("int", lv)
                return f"{ind}let {lv} : Int := {code};\n" + self.block(rest, env2, effs, depth)
            code = self.term(s.value, env)
            env2[name] = ("term", lv)
            return f"{ind}let {lv} : Term := {code};\n" + self.block(rest, env2, effs, depth)
        if isinstance(s, ast.If):
            c = self.test(s.test, env)
            a = self.block(list(s.body) + rest, env, effs, depth + 1)
            b = self.block(list(s.orelse) + rest, env, effs, depth + 1)
            return f"{ind}if {c} then\n{a}\n{ind}else\n{b}"
        if isinstance(s, ast.Return):
            e = "[" + ", ".join(effs) + "]"
            if s.value is None:
                return f"{ind}Out.ret {e} (Term.sym \"None\")"
            return f"{ind}Out.ret {e} {self.term(s.value, env)}"
        if isinstance(s, ast.Raise):
            e = "[" + ", ".join(effs) + "]"
            exc = s.exc.func if isinstance(s.exc, ast.Call) else s.exc
            return f"{ind}Out.raise {e} {lean_str(ast.unparse(exc) if exc is not None else 're-raise')}"
        raise Unsupported("statement: " + type(s).__name__)

    def call_order(self):
        """the names of the calls of the function body in the order in which Python makes them along the source text (inner
        calls before the call they are arguments of; statements, branches and loop bodies in textual order; nested function
        definitions and lambdas, which run later or never, are skipped).  The `let`-inlined terms do not say WHEN an assigned
        call runs; this list does, so a theorem can pin the order where it matters (§0.9)."""
        out = []

        def expr(e):
            if e is None or isinstance(e, (ast.Lambda, ast.FunctionDef, ast.AsyncFunctionDef, ast.ClassDef)):
                return
            if isinstance(e, ast.Call):
                expr(e.func)
                for a in e.args:
                    expr(a)
                for k in e.keywords:
                    expr(k.value)
                out.append(ast.unparse(e.func))
                return
            for c in ast.iter_child_nodes(e):
                expr(c)

        def stmts(body):
            for st in body:
                if isinstance(st, (ast.FunctionDef, ast.AsyncFunctionDef, ast.ClassDef, ast.Import, ast.ImportFrom)):
                    continue
                if isinstance(st, ast.If):
                    expr(st.test); stmts(st.body); stmts(st.orelse)
                elif isinstance(st, (ast.For, ast.AsyncFor)):
                    expr(st.iter); stmts(st.body); stmts(st.orelse)
                elif isinstance(st, ast.While):
                    expr(st.test); stmts(st.body); stmts(st.orelse)
                elif isinstance(st, (ast.With, ast.AsyncWith)):
                    for it in st.items:
                        expr(it.context_expr)
                    stmts(st.body)
                elif isinstance(st, ast.Try):
                    stmts(st.body)
                    for h in st.handlers:
                        stmts(h.body)
                    stmts(st.orelse); stmts(st.finalbody)
                else:
                    expr(st)
        stmts(self.fn.body)
        return out

    def translate(self, lean_name, origin, digest):
        body = self.block(list(self.fn.body), {}, [], 1)
        # Out.fall carries the effects too
        ps = "".join(f" ({n} : {t})" for n, t in self.params)
        decos = ", ".join(lean_str(ast.unparse(d)) for d in self.fn.decorator_list)
        a = self.fn.args
        sig = []
        pos = a.posonlyargs + a.args
        defaults = [None] * (len(pos) - len(a.defaults)) + list(a.defaults)
        for arg, d in zip(pos, defaults):
            sig.append(arg.arg + ("=" + ast.unparse(d) if d is not None else ""))
        if a.vararg:
            sig.append("*" + a.vararg.arg)
        elif a.kwonlyargs:
            sig.append("*")
        for arg, d in zip(a.kwonlyargs, a.kw_defaults):
            sig.append(arg.arg + ("=" + ast.unparse(d) if d is not None else ""))
        if a.kwarg:
            sig.append("**" + a.kwarg.arg)
        sig = ", ".join(lean_str(x) for x in sig)
        return (f"/-- {origin} (sha256 of the function source: {digest}) -/\n"
                f"def {lean_name} (truth : Term → Bool){ps} : Out :=\n{body}\n\n"
                f"/-- the decorators of {origin}, outermost first -/\n"
                f"def {lean_name}_decorators : List String := [{decos}]\n\n"
                f"/-- the signature of {origin}: parameters in order, with the source text of their defaults -/\n"
                f"def {lean_name}_signature : List String := [{sig}]\n\n"
                f"/-- the calls of {origin} in the order Python makes them along the source text -/\n"
                f"def {lean_name}_call_order : List String := [{', '.join(lean_str(x) for x in self.call_order())}]\n")


CMP = {ast.Eq: "=", ast.NotEq: "≠", ast.Lt: "<", ast.LtE: "≤", ast.Gt: ">", ast.GtE: "≥"}


def generate(group, repo=None):
    """(Re)write lean/Generated/Code<group>.lean from the current source; returns a report dict."""
    repo = repo or os.environ.get("VERIF_REPO", "/repo")
    out = [f"/-\n  Generated/Code{group}.lean — REGENERATED on every run by harness/py2lean.py from the current source of\n"
           "  /repo (symbolic execution of small control-flow functions; see Model/PyCore.lean).  Do not edit.\n-/\n"
           "import Model.PyCore\n\nset_option linter.unusedVariables false\n\nnamespace DI.Gen\n\nopen DI.Py\n"]
    report = {}
    cache = {}
    for grp, path, qual, ints, lean_name in FUNCS:
        if grp != group:
            continue
        origin = f"{path}: {qual}"
        try:
            if path not in cache:
                text = open(os.path.join(repo, path), encoding="utf-8").read()
                cache[path] = (text, ast.parse(text))
            text, tree = cache[path]
            fn = find_function(tree, qual)
            seg = ast.get_source_segment(text, fn) or ""
            digest = hashlib.sha256(seg.encode()).hexdigest()[:16]
            tr = Translator(fn, ints)
            out.append(tr.translate(lean_name, origin, digest))
            report[lean_name] = {"origin": origin, "sha": digest, "params": tr.params, "status": "translated"}
        except (Unsupported, OSError, SyntaxError, KeyError, RecursionError) as err:
            # a stub of a different type: every theorem about it stops elaborating
            out.append(f"/-- {origin}: NOT TRANSLATED ({lean_str(str(err))[1:-1]}) -/\n"
                       f"def {lean_name} : Unit := ()\n")
            report[lean_name] = {"origin": origin, "status": "unsupported", "why": str(err)}
    out.append("end DI.Gen\n")
    text = "\n".join(out)
    path = os.path.join(GEN, f"Code{group}.lean")
    old = open(path).read() if os.path.exists(path) else None
    if old != text:
        with open(path, "w") as f:
            f.write(text)
    return report


GROUPS = sorted({f[0] for f in FUNCS})
# obligations of one property that also read the translated code of another (regenerated with it on every run)
DEPENDS = {"C17": ["C15", "C16"]}

if __name__ == "__main__":
    import json
    import sys
    for g in (sys.argv[1:] or GROUPS):
        print(g, json.dumps(generate(g)))

# -*- coding: utf-8 -*-
"""
Source translator (DESIGN.md §0.9): symbolic execution of small control-flow functions of
/repo's *current* Python source into Lean definitions, written to lean/Generated/Code.lean.

Target language: lean/Model/PyCore.lean (Term / Out / pmin / pmax / arange / sliceIdx).
The theorems over the generated definitions live in lean/Proofs/Tie.lean and are re-checked by
`lake build` on every run, so they speak about what the code says *now*.

Translation rules (everything else is rejected as `unsupported`, which makes the generated
definition a stub whose theorems cannot elaborate):

  expressions   integer grammar over declared integer atoms (`ints`): literals, + - *, unary -,
                min/max of two, `a if c else b`;  `np.arange(a[, b])`;  slices `x[a:b]`;
                everything else: a symbolic Term (leaf = source text, call / method / subscript /
                operator = `Term.app`).
  tests         and / or / not, integer comparisons, `p is None` / `is not None` for parameters
                (a Boolean atom), `e in [ints]`, any((..)) / all((..)) over a literal tuple;
                everything else: `truth <Term>` for the uninterpreted `truth : Term → Bool`.
  statements    assignment to a name (let), if / elif / else (continuation duplicated into both
                branches), return, raise, expression statements (kept as an ordered effect list),
                pass.  No loops, no try/with, no tuple targets.
"""

import ast
import hashlib
import os
import re

VERIF = os.path.dirname(os.path.dirname(os.path.abspath(__file__)))
REPO = os.environ.get("VERIF_REPO", "/repo")
GEN = os.path.join(VERIF, "lean", "Generated")

# (file, qualified name, integer atoms (source text), Lean name)
FUNCS = [
    ("C02", "dataiter/data_frame.py", "DataFrame.head", ["self.nrow", "n", "dataiter.DEFAULT_PEEK_ROWS"], "DataFrame_head"),
    ("C02", "dataiter/data_frame.py", "DataFrame.tail", ["self.nrow", "n", "dataiter.DEFAULT_PEEK_ROWS"], "DataFrame_tail"),
    ("C02", "dataiter/data_frame.py", "DataFrame._parse_rows_from_boolean", ["len(rows)", "self.nrow"], "DataFrame_parse_rows_from_boolean"),
    ("C06", "dataiter/vector.py", "Vector.head", ["self.length", "n", "dataiter.DEFAULT_PEEK_ELEMENTS"], "Vector_head"),
    ("C06", "dataiter/vector.py", "Vector.tail", ["self.length", "n", "dataiter.DEFAULT_PEEK_ELEMENTS"], "Vector_tail"),
    ("C15", "dataiter/list_of_dicts.py", "ListOfDicts.head", ["len(self)", "n", "dataiter.DEFAULT_PEEK_ITEMS"], "ListOfDicts_head"),
    ("C15", "dataiter/list_of_dicts.py", "ListOfDicts.tail", ["len(self)", "n", "dataiter.DEFAULT_PEEK_ITEMS"], "ListOfDicts_tail"),
    ("C01", "dataiter/data_frame.py", "DataFrameColumn.__new__", ["nrow", "column.length"], "DataFrameColumn_new"),
    ("C01", "dataiter/data_frame.py", "DataFrame._reconcile_column", ["column.nrow", "self.nrow"], "DataFrame_reconcile_column"),
    ("C01", "dataiter/data_frame.py", "DataFrame._check_dimensions", ["len(set(nrows))"], "DataFrame_check_dimensions"),
    ("C01", "dataiter/data_frame.py", "DataFrame.__setitem__", [], "DataFrame_setitem"),
    ("C01", "dataiter/vector.py", "Vector._check_dimensions", ["self.ndim"], "Vector_check_dimensions"),
    ("C01", "dataiter/util.py", "length", ["len(value)"], "util_length"),
    ("C01", "dataiter/vector.py", "Vector.length", [], "Vector_length"),
    ("C01", "dataiter/data_frame.py", "DataFrame.nrow", [], "DataFrame_nrow"),
    ("C10", "dataiter/vector.py", "Vector.na_value", [], "Vector_na_value"),
    ("C10", "dataiter/vector.py", "Vector.na_dtype", [], "Vector_na_dtype"),
    ("C03", "dataiter/data_frame.py", "DataFrame.sort.sort_key", ["dir"], "DataFrame_sort_key"),
    ("C20", "dataiter/util.py", "ulen", ["wcwidth.wcswidth(string)"], "util_ulen"),
    ("C08", "dataiter/aggregate.py", "use_numba", [], "aggregate_use_numba"),
    ("C17", "dataiter/list_of_dicts.py", "ListOfDicts.__init__", [], "ListOfDicts_init"),
    ("C17", "dataiter/list_of_dicts.py", "ListOfDicts._new", [], "ListOfDicts_new"),
    ("C17", "dataiter/list_of_dicts.py", "ListOfDicts.__deepcopy__", [], "ListOfDicts_deepcopy"),
    ("C17", "dataiter/list_of_dicts.py", "ListOfDicts.__copy__", [], "ListOfDicts_copy"),
    ("C17", "dataiter/list_of_dicts.py", "ListOfDicts._mark_obsolete", [], "ListOfDicts_mark_obsolete"),
    ("C17", "dataiter/list_of_dicts.py", "ListOfDicts.__getattribute__", [], "ListOfDicts_getattribute"),
    ("C17", "dataiter/deco.py", "obsoletes.wrapper", [], "deco_obsoletes_wrapper"),
    ("C17", "dataiter/deco.py", "new_from_generator.wrapper", [], "deco_new_from_generator_wrapper"),
    ("C04", "dataiter/data_frame.py", "DataFrame.count", [], "DataFrame_count"),
    ("C04", "dataiter/data_frame.py", "DataFrame.group_by", [], "DataFrame_group_by"),
    ("C10", "dataiter/vector.py", "Vector.is_na", [], "Vector_is_na"),
    ("C10", "dataiter/vector.py", "Vector.drop_na", [], "Vector_drop_na"),
    ("C10", "dataiter/vector.py", "Vector.tolist", [], "Vector_tolist"),
    ("C10", "dataiter/vector.py", "Vector.equal", ["self.length", "other.length"], "Vector_equal"),
    ("C01", "dataiter/data_frame.py", "DataFrame.__delitem__", [], "DataFrame_delitem"),
    ("C01", "dataiter/data_frame.py", "DataFrame.pop", [], "DataFrame_pop"),
    ("C01", "dataiter/data_frame.py", "DataFrame.__delattr__", [], "DataFrame_delattr"),
    ("C01", "dataiter/data_frame.py", "DataFrame.__getattr__", [], "DataFrame_getattr"),
    ("C01", "dataiter/data_frame.py", "DataFrame.__getattribute__", [], "DataFrame_getattribute"),
    ("C12", "dataiter/util.py", "xopen", [], "util_xopen"),
]


class Unsupported(Exception):
    pass


def lean_str(s):
    return '"' + s.replace("\\", "\\\\").replace('"', '\\"').replace("\n", "\\n") + '"'


def sanitize(text):
    s = re.sub(r"[^A-Za-z0-9_]+", "_", text).strip("_")
    if not s or s[0].isdigit():
        s = "v_" + s
    return s


def find_function(tree, qual):
    node = tree
    for part in qual.split("."):
        found = None
        for n in node.body:
            if isinstance(n, (ast.ClassDef, ast.FunctionDef)) and n.name == part:
                found = n
        if found is None:
            raise Unsupported(f"{qual}: {part} not found")
        node = found
    if not isinstance(node, ast.FunctionDef):
        raise Unsupported(f"{qual}: not a function")
    return node


class Translator:
    def __init__(self, fn, ints):
        self.fn = fn
        self.ints = set(ints)
        self.args = [a.arg for a in fn.args.posonlyargs + fn.args.args + fn.args.kwonlyargs]
        if fn.args.vararg:
            self.args.append(fn.args.vararg.arg)
        if fn.args.kwarg:
            self.args.append(fn.args.kwarg.arg)
        self.params = []          # (lean name, lean type) in order of first use
        self.pnames = {}
        self.assigned = set()     # (object text, attribute) assigned so far on the current path

    # ---- parameters -----------------------------------------------------------------------
    def param(self, text, ty):
        name = sanitize(text)
        key = (name, ty)
        if name in self.pnames and self.pnames[name] != ty:
            raise Unsupported(f"atom {text} used at two types")
        if name not in self.pnames:
            self.pnames[name] = ty
            self.params.append((name, ty))
        return name

    # ---- integer grammar ------------------------------------------------------------------
    def is_int(self, e, env):
        if isinstance(e, ast.Constant):
            return isinstance(e.value, int) and not isinstance(e.value, bool)
        if isinstance(e, ast.Name):
            if e.id in env:
                return env[e.id][0] == "int"
            return e.id in self.ints
        if isinstance(e, (ast.Attribute, ast.Call, ast.Subscript)) and ast.unparse(e) in self.ints:
            return True
        if isinstance(e, ast.BinOp) and isinstance(e.op, (ast.Add, ast.Sub, ast.Mult)):
            return self.is_int(e.left, env) and self.is_int(e.right, env)
        if isinstance(e, ast.UnaryOp) and isinstance(e.op, ast.USub):
            return self.is_int(e.operand, env)
        if isinstance(e, ast.Call) and isinstance(e.func, ast.Name) and e.func.id in ("min", "max") \
                and len(e.args) == 2 and not e.keywords:
            return all(self.is_int(a, env) for a in e.args)
        if isinstance(e, ast.IfExp):
            return self.is_int(e.body, env) and self.is_int(e.orelse, env)
        return False

    def int_(self, e, env):
        if isinstance(e, ast.Constant):
            return f"({e.value} : Int)"
        if isinstance(e, ast.Name):
            if e.id in env:
                return env[e.id][1]
            return self.param(e.id, "Int")
        if isinstance(e, (ast.Attribute, ast.Subscript)) or (isinstance(e, ast.Call) and ast.unparse(e) in self.ints):
            return self.param(ast.unparse(e), "Int")
        if isinstance(e, ast.BinOp):
            op = {ast.Add: "+", ast.Sub: "-", ast.Mult: "*"}[type(e.op)]
            return f"({self.int_(e.left, env)} {op} {self.int_(e.right, env)})"
        if isinstance(e, ast.UnaryOp):
            return f"(-{self.int_(e.operand, env)})"
        if isinstance(e, ast.Call):
            f = "pmin" if e.func.id == "min" else "pmax"
            return f"({f} {self.int_(e.args[0], env)} {self.int_(e.args[1], env)})"
        if isinstance(e, ast.IfExp):
            return f"(if {self.test(e.test, env)} then {self.int_(e.body, env)} else {self.int_(e.orelse, env)})"
        raise Unsupported("int: " + ast.dump(e))

    # ---- symbolic terms -------------------------------------------------------------------
    def root_is_local(self, e, env):
        while isinstance(e, (ast.Attribute, ast.Subscript, ast.Call)):
            e = e.value if not isinstance(e, ast.Call) else e.func
        return isinstance(e, ast.Name) and (e.id in env or e.id in self.args or e.id in ("self", "cls"))

    def opt_int(self, e, env):
        if e is None:
            return "none"
        if not self.is_int(e, env):
            raise Unsupported("slice bound is not an integer expression: " + ast.unparse(e))
        return f"(some {self.int_(e, env)})"

    def term(self, e, env):
        if self.is_int(e, env):
            return f"(Term.int {self.int_(e, env)})"
        if isinstance(e, ast.Name):
            if e.id in env:
                return env[e.id][1]
            return f"(Term.sym {lean_str(e.id)})"
        if isinstance(e, ast.Constant):
            return f"(Term.sym {lean_str(repr(e.value))})"
        if isinstance(e, ast.Call):
            fu = ast.unparse(e.func)
            if fu in ("np.arange", "range") and not e.keywords and 1 <= len(e.args) <= 2 \
                    and all(self.is_int(a, env) for a in e.args):
                a = "(0 : Int)" if len(e.args) == 1 else self.int_(e.args[0], env)
                b = self.int_(e.args[-1], env)
                return f"(Term.rows (arange {a} {b}))"
            args = []
            for a in e.args:
                if isinstance(a, ast.Starred):
                    args.append(f"(Term.app \"*\" [{self.term(a.value, env)}])")
                else:
                    args.append(self.term(a, env))
            for kw in e.keywords:
                args.append(f"(Term.app {lean_str('=' + (kw.arg or '**'))} [{self.term(kw.value, env)}])")
            if isinstance(e.func, ast.Attribute) and self.root_is_local(e.func.value, env):
                recv = self.term(e.func.value, env)
                return f"(Term.app {lean_str('.' + e.func.attr)} [{', '.join([recv] + args)}])"
            return f"(Term.app {lean_str(fu)} [{', '.join(args)}])"
        if isinstance(e, ast.Subscript):
            v = self.term(e.value, env)
            if isinstance(e.slice, ast.Slice):
                if e.slice.step is not None:
                    raise Unsupported("slice step")
                s = f"(Term.slice {self.opt_int(e.slice.lower, env)} {self.opt_int(e.slice.upper, env)})"
            else:
                s = self.term(e.slice, env)
            return f"(Term.app \"getitem\" [{v}, {s}])"
        if isinstance(e, ast.Attribute):
            if (ast.unparse(e.value), e.attr) in self.assigned:
                raise Unsupported("attribute read after it was assigned in the same function: " + ast.unparse(e))
            if self.root_is_local(e.value, env):
                return f"(Term.app {lean_str('.' + e.attr)} [{self.term(e.value, env)}])"
            return f"(Term.sym {lean_str(ast.unparse(e))})"
        if isinstance(e, ast.UnaryOp):
            op = {ast.Invert: "~", ast.USub: "neg", ast.Not: "not", ast.UAdd: "pos"}[type(e.op)]
            return f"(Term.app {lean_str(op)} [{self.term(e.operand, env)}])"
        if isinstance(e, ast.BinOp):
            return f"(Term.app {lean_str(type(e.op).__name__)} [{self.term(e.left, env)}, {self.term(e.right, env)}])"
        if isinstance(e, ast.BoolOp):
            return f"(Term.app {lean_str(type(e.op).__name__)} [{', '.join(self.term(v, env) for v in e.values)}])"
        if isinstance(e, ast.IfExp):
            return (f"(if {self.test(e.test, env)} then {self.term(e.body, env)} else {self.term(e.orelse, env)})")
        if isinstance(e, (ast.Tuple, ast.List)):
            return f"(Term.app {lean_str(type(e).__name__.lower())} [{', '.join(self.term(v, env) for v in e.elts)}])"
        if isinstance(e, ast.Compare):
            parts = [self.term(e.left, env)] + [self.term(c, env) for c in e.comparators]
            ops = "/".join(type(o).__name__ for o in e.ops)
            return f"(Term.app {lean_str(ops)} [{', '.join(parts)}])"
        if isinstance(e, (ast.Lambda, ast.GeneratorExp, ast.ListComp, ast.DictComp, ast.SetComp, ast.JoinedStr, ast.Dict, ast.Set)):
            # opaque by text; free local variables would be captured silently, so forbid them
            for n in ast.walk(e):
                if isinstance(n, ast.Name) and n.id in env:
                    raise Unsupported("opaque expression mentions a local: " + ast.unparse(e))
            return f"(Term.sym {lean_str(ast.unparse(e))})"
        raise Unsupported("term: " + ast.dump(e))

    # ---- tests ----------------------------------------------------------------------------
    def test(self, e, env):
        if isinstance(e, ast.BoolOp):
            op = " && " if isinstance(e.op, ast.And) else " || "
            return "(" + op.join(self.test(v, env) for v in e.values) + ")"
        if isinstance(e, ast.UnaryOp) and isinstance(e.op, ast.Not):
            return f"(!{self.test(e.operand, env)})"
        if isinstance(e, ast.Constant) and isinstance(e.value, bool):
            return "true" if e.value else "false"
        if isinstance(e, ast.Compare) and len(e.ops) == 1:
            op, left, right = e.ops[0], e.left, e.comparators[0]
            if isinstance(op, (ast.Is, ast.IsNot)) and isinstance(right, ast.Constant) and right.value is None \
                    and isinstance(left, ast.Name) and left.id in self.args and left.id not in env:
                p = self.param(left.id + " is None", "Bool")
                return p if isinstance(op, ast.Is) else f"(!{p})"
            if isinstance(op, (ast.In, ast.NotIn)) and isinstance(right, (ast.List, ast.Tuple)) \
                    and self.is_int(left, env) and all(self.is_int(x, env) for x in right.elts):
                l = self.int_(left, env)
                body = "(" + " || ".join(f"decide ({l} = {self.int_(x, env)})" for x in right.elts) + ")" if right.elts else "false"
                return body if isinstance(op, ast.In) else f"(!{body})"
            if self.is_int(left, env) and self.is_int(right, env) and type(op) in CMP:
                return f"decide ({self.int_(left, env)} {CMP[type(op)]} {self.int_(right, env)})"
        if isinstance(e, ast.Call) and isinstance(e.func, ast.Name) and e.func.id in ("any", "all") and len(e.args) == 1 \
                and isinstance(e.args[0], (ast.Tuple, ast.List)) and not e.keywords:
            op = " || " if e.func.id == "any" else " && "
            elts = e.args[0].elts
            if not elts:
                return "false" if e.func.id == "any" else "true"
            return "(" + op.join(self.test(v, env) for v in elts) + ")"
        return f"truth {self.term(e, env)}"

    # ---- statements -----------------------------------------------------------------------
    def block(self, stmts, env, effs, depth):
        ind = "  " * depth
        if not stmts:
            return f"{ind}Out.fall [" + ", ".join(effs) + "]"
        s, rest = stmts[0], stmts[1:]
        if isinstance(s, ast.Expr) and isinstance(s.value, ast.Constant) and isinstance(s.value.value, str):
            return self.block(rest, env, effs, depth)
        if isinstance(s, ast.Pass):
            return self.block(rest, env, effs, depth)
        if isinstance(s, ast.Expr):
            # an effect (a call that may raise inside the library): kept, in order, as a let-bound marker
            v = f"eff{len(effs)}"
            t = self.term(s.value, env)
            return f"{ind}let {v} : Term := {t};\n" + self.block(rest, env, effs + [v], depth)
        if isinstance(s, ast.Assign) and len(s.targets) == 1 and isinstance(s.targets[0], ast.Attribute) \
                and self.root_is_local(s.targets[0].value, env):
            # `obj.attr = value`: an effect (the object is not modelled); reading that attribute of the same
            # object later in the same function would need a store, so it is rejected (see `term`)
            tgt = s.targets[0]
            v = f"eff{len(effs)}"
            recv = self.term(tgt.value, env)
            val = self.term(s.value, env)
            self.assigned.add((ast.unparse(tgt.value), tgt.attr))
            return (f"{ind}let {v} : Term := (Term.app \"setattr\" [{recv}, (Term.sym {lean_str(tgt.attr)}), {val}]);\n"
                    + self.block(rest, env, effs + [v], depth))
        if isinstance(s, ast.Assign):
            if len(s.targets) != 1 or not isinstance(s.targets[0], ast.Name):
                raise Unsupported("assignment target: " + ast.unparse(s))
            name = s.targets[0].id
            env2 = dict(env)
            lv = sanitize(name) + "'"
            if self.is_int(s.value, env):
                code = self.int_(s.value, env)
                env2[name] = ("int", lv)
                return f"{ind}let {lv} : Int := {code};\n" + self.block(rest, env2, effs, depth)
            code = self.term(s.value, env)
            env2[name] = ("term", lv)
            return f"{ind}let {lv} : Term := {code};\n" + self.block(rest, env2, effs, depth)
        if isinstance(s, ast.If):
            c = self.test(s.test, env)
            a = self.block(list(s.body) + rest, env, effs, depth + 1)
            b = self.block(list(s.orelse) + rest, env, effs, depth + 1)
            return f"{ind}if {c} then\n{a}\n{ind}else\n{b}"
        if isinstance(s, ast.Return):
            e = "[" + ", ".join(effs) + "]"
            if s.value is None:
                return f"{ind}Out.ret {e} (Term.sym \"None\")"
            return f"{ind}Out.ret {e} {self.term(s.value, env)}"
        if isinstance(s, ast.Raise):
            e = "[" + ", ".join(effs) + "]"
            exc = s.exc.func if isinstance(s.exc, ast.Call) else s.exc
            return f"{ind}Out.raise {e} {lean_str(ast.unparse(exc) if exc is not None else 're-raise')}"
        raise Unsupported("statement: " + type(s).__name__)

    def translate(self, lean_name, origin, digest):
        body = self.block(list(self.fn.body), {}, [], 1)
        # Out.fall carries the effects too
        ps = "".join(f" ({n} : {t})" for n, t in self.params)
        return (f"/-- {origin} (sha256 of the function source: {digest}) -/\n"
                f"def {lean_name} (truth : Term → Bool){ps} : Out :=\n{body}\n")


CMP = {ast.Eq: "=", ast.NotEq: "≠", ast.Lt: "<", ast.LtE: "≤", ast.Gt: ">", ast.GtE: "≥"}


def generate(group, repo=None):
    """(Re)write lean/Generated/Code<group>.lean from the current source; returns a report dict."""
    repo = repo or os.environ.get("VERIF_REPO", "/repo")
    out = [f"/-\n  Generated/Code{group}.lean — REGENERATED on every run by harness/py2lean.py from the current source of\n"
           "  /repo (symbolic execution of small control-flow functions; see Model/PyCore.lean).  Do not edit.\n-/\n"
           "import Model.PyCore\n\nset_option linter.unusedVariables false\n\nnamespace DI.Gen\n\nopen DI.Py\n"]
    report = {}
    cache = {}
    for grp, path, qual, ints, lean_name in FUNCS:
        if grp != group:
            continue
        origin = f"{path}: {qual}"
        try:
            if path not in cache:
                text = open(os.path.join(repo, path), encoding="utf-8").read()
                cache[path] = (text, ast.parse(text))
            text, tree = cache[path]
            fn = find_function(tree, qual)
            seg = ast.get_source_segment(text, fn) or ""
            digest = hashlib.sha256(seg.encode()).hexdigest()[:16]
            tr = Translator(fn, ints)
            out.append(tr.translate(lean_name, origin, digest))
            report[lean_name] = {"origin": origin, "sha": digest, "params": tr.params, "status": "translated"}
        except (Unsupported, OSError, SyntaxError, KeyError, RecursionError) as err:
            # a stub of a different type: every theorem about it stops elaborating
            out.append(f"/-- {origin}: NOT TRANSLATED ({lean_str(str(err))[1:-1]}) -/\n"
                       f"def {lean_name} : Unit := ()\n")
            report[lean_name] = {"origin": origin, "status": "unsupported", "why": str(err)}
    out.append("end DI.Gen\n")
    text = "\n".join(out)
    path = os.path.join(GEN, f"Code{group}.lean")
    old = open(path).read() if os.path.exists(path) else None
    if old != text:
        with open(path, "w") as f:
            f.write(text)
    return report


GROUPS = sorted({f[0] for f in FUNCS})

if __name__ == "__main__":
    import json
    import sys
    for g in (sys.argv[1:] or GROUPS):
        print(g, json.dumps(generate(g)))

# -*- coding: utf-8 -*-
"""
Objects with a history (DESIGN.md §0.10).

The properties quantify over *every* frame / vector, not only over freshly constructed ones: an
object that has already been sorted, ranked, printed, counted ... and whose contents were then
changed in place (a Vector is an ndarray; `np.copyto`, `put`, `v[i] = x` are ordinary use) must
behave exactly like a new object with the same contents.  Anything memoised on the instance, in a
module-level cache or left behind on the receiver by an earlier call breaks that.

`through_history(obj)` takes a correctly built object, rotates its contents in place, exercises
every public non-modifying method that could leave state behind ("warming"), and puts the original
contents back in place with `np.copyto` (same dtype, same multiset of values, so also the same
maximal string length).  The harness then runs the case on that very object; model and oracle are
unchanged, they only know the contents.

Enabled per case by `common.run_cases` (deterministically from the case, so a replay behaves the
same); the number of warmed cases is reported in the evidence.
"""

import contextlib
import io
import warnings

import numpy as np

ENABLED = False
GROUPED = False      # additionally leave the frame grouped (`group_by` marks the receiver and nothing ever resets it)
COUNT = 0


def _quiet(f, *a, **kw):
    try:
        with contextlib.redirect_stdout(io.StringIO()), warnings.catch_warnings():
            warnings.simplefilter("ignore")
            return f(*a, **kw)
    except Exception:
        return None


def warm_vector(v):
    """Call the non-modifying public surface of a Vector (results discarded)."""
    for name, args in (("is_na", ()), ("tolist", ()), ("sort", ()), ("sort", (-1,)), ("unique", ()),
                       ("drop_na", ()), ("to_string", ()), ("head", (2,)), ("tail", (2,)),
                       ("get_memory_use", ()), ("as_string", ()), ("as_object", ())):
        m = getattr(v, name, None)
        if m is not None:
            _quiet(m, *args)
    for method in ("min", "max", "ordinal"):
        _quiet(v.rank, method=method)
    _quiet(v.equal, v)
    _quiet(lambda: (v.na_value, v.na_dtype, repr(v), str(v)))
    _quiet(lambda: v.replace_na(v.na_value))
    if v.is_string():
        _quiet(lambda: (v.re.findall("a"), v.str.upper(), v.re.sub("a", "b")))
    if v.is_datetime():
        _quiet(lambda: (v.dt.year(), v.dt.month(), v.dt.replace(day=1)))


def _roll(a):
    if len(a) < 2:
        return None
    r = np.empty_like(a)
    r[0] = a[-1]
    r[1:] = a[:-1]
    return r


def vector_through_history(v):
    """v: a Vector / DataFrameColumn with the right contents.  Returns the same object."""
    global COUNT
    if v.ndim != 1:
        return v
    saved = np.array(v, copy=True).view(np.ndarray) if v.dtype != object else np.array(list(v) + [None], dtype=object)[:-1]
    rolled = _roll(saved)
    if rolled is None:
        warm_vector(v)
        return v
    try:
        np.copyto(v.view(np.ndarray), rolled)
    except Exception:
        return v
    warm_vector(v)
    np.copyto(v.view(np.ndarray), saved)
    COUNT += 1
    return v


def warm_frame(data, skip=()):
    """Non-modifying public DataFrame methods that take no group state from the receiver."""
    import dataiter as di
    names = [c for c in data.colnames if c not in skip]
    _quiet(data.to_string)
    _quiet(lambda: (repr(data), data.nrow, data.ncol))
    _quiet(data.head, 2)
    _quiet(data.tail, 2)
    _quiet(data.copy)
    _quiet(data.deepcopy)
    _quiet(data.print_na_counts)
    for c in names[:3]:
        _quiet(lambda: data.sort(**{c: 1}))
        _quiet(lambda: data.sort(**{c: -1}))
        _quiet(data.unique, c)
        _quiet(data.count, c)
        _quiet(data.drop_na, c)
        _quiet(data.split, c)
        _quiet(lambda: data.select(c))
        _quiet(lambda: data.left_join(data.unique(c).select(c).modify(_w_=lambda x: np.arange(x.nrow) * 1.5), c))
        _quiet(lambda: data.full_join(data.head(1).select(c), c))
        _quiet(lambda: data.anti_join(data.head(1), c))
        _quiet(lambda: data.rbind(data.head(1)))
        _quiet(lambda: data.select(c).cbind(data.unselect(c)))
        _quiet(lambda: data.copy().group_by(c).aggregate(_n_=di.count(), _s_=di.std(c, ddof=1), _f_=di.first(c)))


def frame_through_history(data, skip=()):
    """data: a DataFrame with the right contents.  Returns the same object (same column objects)."""
    if data.ncol == 0:
        return data
    saved = {}
    for name in data.colnames:
        col = data[name]
        if col.ndim != 1 or len(col) < 2:
            continue
        s = np.array(col, copy=True).view(np.ndarray) if col.dtype != object else np.array(list(col) + [None], dtype=object)[:-1]
        r = _roll(s)
        try:
            np.copyto(col.view(np.ndarray), r)
        except Exception:
            continue
        saved[name] = s
    for name in data.colnames:
        warm_vector(data[name])
    warm_frame(data, skip=skip)
    for name, s in saved.items():
        np.copyto(data[name].view(np.ndarray), s)
    global COUNT
    COUNT += 1
    if GROUPED:
        # the usual `data.group_by(c).aggregate(...)` leaves `data` grouped for the rest of its life; every
        # operation that is not documented as group-wise must ignore that
        names = [c for c in data.colnames if c not in skip]
        if names:
            data.group_by(names[-1])
    return data


def lod_through_history(lod, extra=None, keys=()):
    """ListOfDicts counterpart: the item dicts get rotated contents in place, the list is used through its
    non-modifying methods (and `extra(lod)`), then every item gets its own contents back in place.
    `keys`: keys present in every item (for sort / unique / group_by)."""
    global COUNT
    if len(lod) < 2:
        if extra is not None:
            _quiet(extra, lod)
        return lod
    orig = [dict(it) for it in lod]
    rolled = orig[-1:] + orig[:-1]
    for it, d in zip(lod, rolled):
        it.clear()
        it.update(d)
    _quiet(lod.to_string)
    _quiet(lod.copy)
    _quiet(lod.deepcopy)
    _quiet(lod.head, 2)
    _quiet(lod.tail, 2)
    _quiet(lod.reverse)
    _quiet(lod.keys)
    _quiet(lambda: lod.filter(lambda x: True))
    for k in list(keys)[:2]:
        _quiet(lambda: lod.sort(**{k: 1}))
        _quiet(lambda: lod.sort(**{k: -1}))
        _quiet(lod.unique, k)
        _quiet(lambda: lod.pluck(k))
        _quiet(lambda: lod.semi_join(lod.head(1), k))
        _quiet(lambda: lod.anti_join(lod.head(1), k))
        _quiet(lambda: lod.deepcopy().full_join(lod.head(1).deepcopy(), k))
    if extra is not None:
        _quiet(extra, lod)
    for it, d in zip(lod, orig):
        it.clear()
        it.update(d)
    COUNT += 1
    return lod

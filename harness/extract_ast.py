# -*- coding: utf-8 -*-
"""
Translator for finite decision tables (DESIGN.md §2.1): reads /repo's *current* source with `ast`
and regenerates lean/Generated/*.lean.  Theorems over these tables are re-checked by `lake build`.
"""

import ast
import os
import sys

VERIF = os.path.dirname(os.path.dirname(os.path.abspath(__file__)))
REPO = os.environ.get("VERIF_REPO", "/repo")
GEN = os.path.join(VERIF, "lean", "Generated")


def src(path):
    return open(os.path.join(REPO, path), encoding="utf-8").read()


def lean_str(s):
    return '"' + s.replace("\\", "\\\\").replace('"', '\\"') + '"'


def write_if_changed(path, text):
    old = open(path).read() if os.path.exists(path) else None
    if old != text:
        with open(path, "w") as f:
            f.write(text)


# ---------------------------------------------------------------------------------------------
# aggregate.py: per-helper (default, nrequired, drop_na default, kernels)


def classify_default(node):
    """aggregate.default = <expr>  ->  symbolic kind"""
    s = ast.unparse(node)
    if s in ("True", "False"):
        return s.lower()
    if s == "0":
        return "zero"
    if s == "np.nan":
        return "nan"
    if s.endswith(".na_value"):
        return "colna"
    return "other:" + s


def helper_table():
    tree = ast.parse(src("dataiter/aggregate.py"))
    funcs = {n.name: n for n in tree.body if isinstance(n, ast.FunctionDef)}
    rows = []
    for name, fn in funcs.items():
        inner = [n for n in ast.walk(fn) if isinstance(n, ast.FunctionDef) and n.name == "aggregate" and n is not fn
                 and [a.arg for a in n.args.args] == ["data"]]
        if name in ("generic", "generic_numba"):
            continue
        delegates = None
        if not inner:
            # first / last delegate to nth
            for n in ast.walk(fn):
                if isinstance(n, ast.Return) and isinstance(n.value, ast.Call) and getattr(n.value.func, "id", None) == "nth":
                    delegates = ast.unparse(n.value.args[1]) if len(n.value.args) > 1 else None
            if delegates is None:
                continue
        # drop_na default in the signature
        dn = "none"
        for a, d in zip(fn.args.kwonlyargs, fn.args.kw_defaults):
            if a.arg == "drop_na" and d is not None:
                dn = ast.unparse(d).lower()
        if delegates is not None:
            rows.append({"name": name, "drop_na": dn, "default": "delegate", "nrequired": -1, "kernel": "nth:" + delegates,
                         "cast": "none", "vec_nreq": -1})
            continue
        agg = inner[0]
        default = "missing"
        nreq = -1
        kernel = "?"
        cast = "none"
        for n in ast.walk(agg):
            if isinstance(n, ast.Assign) and ast.unparse(n.targets[0]) == "aggregate.default":
                default = classify_default(n.value)
            if isinstance(n, ast.Return) and isinstance(n.value, ast.Call):
                for kw in n.value.keywords:
                    if kw.arg == "nrequired":
                        nreq = int(ast.unparse(kw.value))
                if n.value.args:
                    a0 = ast.unparse(n.value.args[0])
                    if a0.endswith(".as_boolean()"):
                        cast = "bool"
                    elif a0.endswith(".as_float()"):
                        cast = "float"
            if isinstance(n, ast.Assign) and ast.unparse(n.targets[0]) == "f" and isinstance(n.value, ast.Tuple):
                kernel = "/".join(ast.unparse(e) for e in n.value.elts)
            if isinstance(n, ast.Assign) and ast.unparse(n.targets[0]) == "f" and isinstance(n.value, ast.Call):
                c = n.value
                if ast.unparse(c.func).startswith("select(") and c.args:
                    kernel += ":" + ast.unparse(c.args[0])
        # vector form: `... if len(x) >= k else ...`
        vec = -1
        for n in fn.body:
            for m in ast.walk(n):
                if m is agg:
                    break
            if isinstance(n, ast.Return):
                for m in ast.walk(n):
                    if isinstance(m, ast.Compare) and ast.unparse(m.left) == "len(x)" and isinstance(m.ops[0], ast.GtE):
                        vec = int(ast.unparse(m.comparators[0]))
        rows.append({"name": name, "drop_na": dn, "default": default, "nrequired": nreq, "kernel": kernel, "cast": cast, "vec_nreq": vec})
    # apply functions with an inline length test: mode_apply, quantile_apply (python and numba)
    inline = {}
    for name, fn in funcs.items():
        if name.endswith("_apply") or name.endswith("_apply_numba"):
            tests = []
            for m in ast.walk(fn):
                if isinstance(m, ast.Compare) and ast.unparse(m.left) == "len(xg)":
                    tests.append(ast.unparse(m))
            inline[name] = ";".join(tests)
    return sorted(rows, key=lambda r: r["name"]), inline


def gen_helper_table():
    rows, inline = helper_table()
    out = ["/- GENERATED by harness/extract_ast.py from dataiter/aggregate.py — do not edit. -/",
           "namespace DI.Gen", "",
           "structure HelperRow where",
           "  name : String", "  dropNaDefault : String", "  default : String", "  nrequired : Int",
           "  kernel : String", "  cast : String", "  vecNreq : Int",
           "  deriving Repr, DecidableEq", "",
           "def helperTable : List HelperRow := ["]
    items = []
    for r in rows:
        items.append(f"  ⟨{lean_str(r['name'])}, {lean_str(r['drop_na'])}, {lean_str(r['default'])}, {r['nrequired']}, "
                     f"{lean_str(r['kernel'])}, {lean_str(r['cast'])}, {r['vec_nreq']}⟩")
    out.append(",\n".join(items))
    out.append("]")
    out.append("")
    out.append("def inlineLengthTests : List (String × String) := [")
    out.append(",\n".join(f"  ({lean_str(k)}, {lean_str(v)})" for k, v in sorted(inline.items())))
    out.append("]")
    out.append("")
    out.append("end DI.Gen")
    write_if_changed(os.path.join(GEN, "HelperTable.lean"), "\n".join(out) + "\n")
    return rows, inline


# ---------------------------------------------------------------------------------------------
# io.py: alias functions -> (parameters, target, forwarded keywords)


def io_aliases():
    tree = ast.parse(src("dataiter/io.py"))
    rows = []
    for fn in tree.body:
        if not isinstance(fn, ast.FunctionDef):
            continue
        pos = [a.arg for a in fn.args.args]
        kwonly = [a.arg for a in fn.args.kwonlyargs]
        defaults = {a.arg: ast.unparse(d) for a, d in zip(fn.args.kwonlyargs, fn.args.kw_defaults) if d is not None}
        varkw = fn.args.kwarg.arg if fn.args.kwarg else None
        call = None
        for n in ast.walk(fn):
            if isinstance(n, ast.Return) and isinstance(n.value, ast.Call):
                call = n.value
        if call is None:
            continue
        target = ast.unparse(call.func)
        passed_pos = [ast.unparse(a) for a in call.args]
        passed_kw = [(k.arg, ast.unparse(k.value)) for k in call.keywords if k.arg is not None]
        star = [ast.unparse(k.value) for k in call.keywords if k.arg is None]
        rows.append({"name": fn.name, "pos": pos, "kwonly": kwonly, "defaults": defaults, "varkw": varkw,
                     "target": target, "passed_pos": passed_pos, "passed_kw": passed_kw, "star": star})
    # the targets' own keyword-only parameters and defaults
    targets = {}
    for path, cls in (("dataiter/data_frame.py", "DataFrame"), ("dataiter/list_of_dicts.py", "ListOfDicts"), ("dataiter/geojson.py", "GeoJSON")):
        t = ast.parse(src(path))
        for c in t.body:
            if isinstance(c, ast.ClassDef) and c.name == cls:
                for f in c.body:
                    if isinstance(f, ast.FunctionDef):
                        targets[f"{cls}.{f.name}"] = {
                            "kwonly": [a.arg for a in f.args.kwonlyargs],
                            "defaults": {a.arg: ast.unparse(d) for a, d in zip(f.args.kwonlyargs, f.args.kw_defaults) if d is not None},
                            "varkw": f.args.kwarg.arg if f.args.kwarg else None}
    return rows, targets


def gen_io_aliases():
    rows, targets = io_aliases()

    def ll(xs):
        return "[" + ", ".join(lean_str(x) for x in xs) + "]"

    def lp(ps):
        return "[" + ", ".join(f"({lean_str(a)}, {lean_str(b)})" for a, b in ps) + "]"
    out = ["/- GENERATED by harness/extract_ast.py from dataiter/io.py and the reader signatures — do not edit. -/",
           "namespace DI.Gen", "",
           "structure Alias where",
           "  name : String", "  posParams : List String", "  kwParams : List String", "  defaults : List (String × String)",
           "  varkw : Option String", "  target : String", "  passedPos : List String", "  passedKw : List (String × String)",
           "  star : List String", "  targetKw : List String", "  targetDefaults : List (String × String)", "  targetVarkw : Bool",
           "  deriving Repr, DecidableEq", "",
           "def ioAliases : List Alias := ["]
    items = []
    for r in rows:
        t = targets.get(r["target"], {"kwonly": [], "defaults": {}, "varkw": None})
        vk = f"some {lean_str(r['varkw'])}" if r["varkw"] else "none"
        items.append("  { name := %s, posParams := %s, kwParams := %s, defaults := %s, varkw := %s, target := %s,\n"
                     "    passedPos := %s, passedKw := %s, star := %s, targetKw := %s, targetDefaults := %s, targetVarkw := %s }" % (
                         lean_str(r["name"]), ll(r["pos"]), ll(r["kwonly"]), lp(sorted(r["defaults"].items())), vk, lean_str(r["target"]),
                         ll(r["passed_pos"]), lp(r["passed_kw"]), ll(r["star"]), ll(t["kwonly"]), lp(sorted(t["defaults"].items())),
                         "true" if t["varkw"] else "false"))
    out.append(",\n".join(items))
    out.append("]")
    out.append("")
    out.append("end DI.Gen")
    write_if_changed(os.path.join(GEN, "IoAliases.lean"), "\n".join(out) + "\n")
    return rows


# ---------------------------------------------------------------------------------------------
# xopen dispatch + which read_/write_ methods go through xopen (C12)


def xopen_table():
    tree = ast.parse(src("dataiter/util.py"))
    fn = [n for n in tree.body if isinstance(n, ast.FunctionDef) and n.name == "xopen"][0]
    rows = []
    for n in fn.body:
        if isinstance(n, ast.If) and "endswith" in ast.unparse(n.test):
            suffix = n.test.args[0].value if isinstance(n.test, ast.Call) else "?"
            for m in ast.walk(n):
                if isinstance(m, ast.Return) and isinstance(m.value, ast.Call):
                    c = m.value
                    rows.append((suffix, ast.unparse(c.func), [ast.unparse(a) for a in c.args],
                                 any(k.arg is None for k in c.keywords)))
        elif isinstance(n, ast.Return) and isinstance(n.value, ast.Call):
            c = n.value
            rows.append(("", ast.unparse(c.func), [ast.unparse(a) for a in c.args], any(k.arg is None for k in c.keywords)))
    return rows


def io_sites():
    rows = []
    for path, cls in (("dataiter/data_frame.py", "DataFrame"), ("dataiter/list_of_dicts.py", "ListOfDicts"), ("dataiter/geojson.py", "GeoJSON")):
        t = ast.parse(src(path))
        for c in t.body:
            if not (isinstance(c, ast.ClassDef) and c.name == cls):
                continue
            for f in c.body:
                if not isinstance(f, ast.FunctionDef):
                    continue
                if not (f.name.startswith("read_") or f.name.startswith("write_") or (cls == "GeoJSON" and f.name in ("read", "write"))):
                    continue
                modes, raw, delegates = [], [], []
                for m in ast.walk(f):
                    if isinstance(m, ast.Call):
                        fn = ast.unparse(m.func)
                        args = [ast.unparse(a) for a in m.args]
                        if fn == "util.xopen":
                            mode = args[1].strip("'\"") if len(args) > 1 else "r"
                            modes.append(mode)
                        elif fn == "util.makedirs_for_file":
                            pass
                        elif "path" in args:
                            if fn.startswith("self.") or fn.startswith("cls."):
                                delegates.append(fn)
                            else:
                                raw.append(fn)
                        if fn.endswith(".write_json") or fn.endswith(".write_csv"):
                            if fn not in delegates and "path" in args:
                                delegates.append(fn)
                rows.append({"cls": cls, "name": f.name, "modes": sorted(set(modes)), "raw": sorted(set(raw)), "delegates": sorted(set(delegates))})
    return rows


def gen_io_sites():
    xr = xopen_table()
    sites = io_sites()

    def ll(xs):
        return "[" + ", ".join(lean_str(x) for x in xs) + "]"
    out = ["/- GENERATED by harness/extract_ast.py from dataiter/util.py (xopen) and the read_/write_ methods — do not edit. -/",
           "namespace DI.Gen", "",
           "/-- one branch of `util.xopen`: path suffix (\"\" = fall-through), opener, positional arguments, forwards **kwargs? -/",
           "def xopenBranches : List (String × String × List String × Bool) := ["]
    out.append(",\n".join(f"  ({lean_str(a)}, {lean_str(b)}, {ll(c)}, {'true' if d else 'false'})" for a, b, c, d in xr))
    out.append("]")
    out.append("")
    out.append("structure IoSite where")
    out.append("  cls : String")
    out.append("  name : String")
    out.append("  xopenModes : List String      -- modes of the util.xopen(path, mode) calls in the body")
    out.append("  rawPath : List String         -- library calls that receive `path` directly")
    out.append("  delegates : List String       -- other methods of the package the path is handed to")
    out.append("  deriving Repr, DecidableEq")
    out.append("")
    out.append("def ioSites : List IoSite := [")
    out.append(",\n".join(f"  ⟨{lean_str(r['cls'])}, {lean_str(r['name'])}, {ll(r['modes'])}, {ll(r['raw'])}, {ll(r['delegates'])}⟩" for r in sites))
    out.append("]")
    out.append("")
    out.append("end DI.Gen")
    write_if_changed(os.path.join(GEN, "IoSites.lean"), "\n".join(out) + "\n")
    return xr, sites


# ---------------------------------------------------------------------------------------------
# vector.py proxies: attribute name -> wrapped module function (C19)


def proxy_table():
    tree = ast.parse(src("dataiter/vector.py"))
    rows = []
    for c in tree.body:
        if isinstance(c, ast.ClassDef) and c.name in ("DtProxy", "ReProxy", "StrProxy"):
            init = [f for f in c.body if isinstance(f, ast.FunctionDef) and f.name == "__init__"][0]
            wrap_src = ""
            for n in init.body:
                if isinstance(n, ast.Assign) and ast.unparse(n.targets[0]) == "wrap":
                    wrap_src = ast.unparse(n.value)
            how = ("partial-first" if "functools.partial(f, vector)" in wrap_src else
                   "partial-string-kw" if "functools.partial(f, string=vector)" in wrap_src else
                   "np.strings-partial-first" if "np.strings" in wrap_src and "vector" in wrap_src else "other:" + wrap_src)
            for n in init.body:
                if isinstance(n, ast.Assign) and isinstance(n.value, ast.Call) and ast.unparse(n.value.func) == "wrap":
                    attr = ast.unparse(n.targets[0]).replace("self.", "")
                    arg = ast.unparse(n.value.args[0])
                    rows.append((c.name, attr, arg, how))
    return rows


def gen_proxy_table():
    rows = proxy_table()
    out = ["/- GENERATED by harness/extract_ast.py from dataiter/vector.py (DtProxy, ReProxy, StrProxy) — do not edit. -/",
           "namespace DI.Gen", "",
           "/-- (proxy class, attribute, wrapped function expression, how the vector is bound) -/",
           "def proxyTable : List (String × String × String × String) := ["]
    out.append(",\n".join(f"  ({lean_str(a)}, {lean_str(b)}, {lean_str(c)}, {lean_str(d)})" for a, b, c, d in rows))
    out.append("]")
    out.append("")
    out.append("end DI.Gen")
    write_if_changed(os.path.join(GEN, "ProxyTable.lean"), "\n".join(out) + "\n")
    return rows


def main():
    os.makedirs(GEN, exist_ok=True)
    gen_proxy_table()
    gen_io_sites()
    gen_helper_table()
    gen_io_aliases()


if __name__ == "__main__":
    main()

# -*- coding: utf-8 -*-
"""
Run one helper's group-wise aggregations with USE_NUMBA on in THIS fresh interpreter (empty NUMBA_CACHE_DIR, on-disk cache
off): the helper's kernel is the first Numba kernel compiled in the process, so the recorded first-use-order finding (C08)
cannot decide the outcome.  Used by harness/props/C07.py for the helpers it does not run with Numba in its own process.

usage: numba_batch.py   (stdin: {"items": [group case of ONE helper, ...]}; stdout: RESULT [...])
env:   VERIF_REPO, NUMBA_CACHE_DIR, DATAITER_USE_NUMBA_CACHE
"""

import json
import os
import sys

sys.path.insert(0, os.path.dirname(os.path.dirname(os.path.abspath(__file__))))
REPO = os.environ.get("VERIF_REPO", "/repo")
sys.path.insert(0, REPO)


def main():
    req = json.loads(sys.stdin.read())
    from harness.props import C07
    import dataiter
    assert os.path.realpath(dataiter.__file__).startswith(os.path.realpath(REPO))
    print("RESULT " + json.dumps([C07.impl(case, use_numba=True) for case in req["items"]]))


if __name__ == "__main__":
    main()

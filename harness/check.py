# -*- coding: utf-8 -*-
"""Entry point: ./check <Cxx> [--tier quick|thorough] [--seed N] [--replay file]"""

import argparse
import importlib
import json
import os
import sys

sys.path.insert(0, os.path.dirname(os.path.dirname(os.path.abspath(__file__))))

from harness import common  # noqa


def main():
    ap = argparse.ArgumentParser()
    ap.add_argument("prop")
    ap.add_argument("--tier", default=os.environ.get("VERIF_TIER", "quick"), choices=["quick", "thorough"])
    ap.add_argument("--seed", type=int, default=int(os.environ.get("VERIF_SEED", "0")))
    ap.add_argument("--replay", default=None)
    ap.add_argument("--child", action="store_true")
    args = ap.parse_args()
    if not args.child:
        # run the real work in a child process: an interpreter crash (a segfault inside NumPy /
        # Numba on the code under test) must still end in a verdict with the failing input
        import subprocess
        cur = os.path.join(common.REPLAY_DIR, f".current-{args.prop}.json")
        os.makedirs(common.REPLAY_DIR, exist_ok=True)
        if os.path.exists(cur):
            os.remove(cur)
        rc = subprocess.call([sys.executable, os.path.abspath(__file__)] + sys.argv[1:] + ["--child"])
        if rc not in (0, 1):
            crash = os.path.join(common.REPLAY_DIR, f"{args.prop}-{args.tier}-{args.seed}-crash.json")
            case = json.load(open(cur)) if os.path.exists(cur) else None
            json.dump({"property": args.prop, "tier": args.tier, "seed": args.seed, "kind": "oracle",
                       "signature": "interpreter-crash", "what": f"the Python process running the implementation died with status {rc} while executing this case",
                       "case": case}, open(crash, "w"), indent=1)
            tail = "" if case is not None else " no-failing-input-found"
            print(f"VIOLATION property={args.prop} replay={crash}{tail}")
            sys.exit(1)
        sys.exit(rc)
    mod = importlib.import_module(f"harness.props.{args.prop}")
    replay = None
    if args.replay:
        replay = json.load(open(args.replay))
    rc = common.run_property(mod, args.prop, args.tier, args.seed, replay)
    sys.exit(rc)


if __name__ == "__main__":
    main()

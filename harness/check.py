# -*- coding: utf-8 -*-
"""Entry point: ./check <Cxx> [--tier quick|thorough] [--seed N] [--replay file]"""

import argparse
import importlib
import json
import os
import sys

sys.path.insert(0, os.path.dirname(os.path.dirname(os.path.abspath(__file__))))

from harness import common  # noqa


def main():
    ap = argparse.ArgumentParser()
    ap.add_argument("prop")
    ap.add_argument("--tier", default=os.environ.get("VERIF_TIER", "quick"), choices=["quick", "thorough"])
    ap.add_argument("--seed", type=int, default=int(os.environ.get("VERIF_SEED", "0")))
    ap.add_argument("--replay", default=None)
    args = ap.parse_args()
    mod = importlib.import_module(f"harness.props.{args.prop}")
    replay = None
    if args.replay:
        replay = json.load(open(args.replay))
    rc = common.run_property(mod, args.prop, args.tier, args.seed, replay)
    sys.exit(rc)


if __name__ == "__main__":
    main()

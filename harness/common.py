# -*- coding: utf-8 -*-
"""
Shared machinery of the checks (DESIGN.md §2.2, §3):

  extract -> build -> audit -> correspond (+ oracle) -> search -> classify -> evidence

Run with /venv/bin/python. The implementation under test is imported from $VERIF_REPO
(default /repo), the Lean model is driven through lean/.lake/build/bin/driver.
"""

import hashlib
import json
import math
import os
import random
import re
import shutil
import subprocess
import sys
import tempfile
import time

VERIF = os.path.dirname(os.path.dirname(os.path.abspath(__file__)))
LEAN = os.path.join(VERIF, "lean")
REPO = os.environ.get("VERIF_REPO", "/repo")
DRIVER = os.path.join(LEAN, ".lake", "build", "bin", "driver")
EVIDENCE_DIR = os.path.join(VERIF, "evidence")
REPLAY_DIR = os.path.join(VERIF, "replays")
KNOWN_FINDINGS = os.path.join(VERIF, "known_findings.json")
THEOREMS = os.path.join(LEAN, "Audit", "theorems.json")

ALLOWED_AXIOMS = {"propext", "Classical.choice", "Quot.sound"}
FORBIDDEN = re.compile(
    r"\b(sorry|admit|native_decide|bv_decide|implemented_by)\b|^\s*axiom\s|\bunsafe\s|maxHeartbeats\s+0")

TRUSTED_BASE = [
    "Lean 4.33.0 kernel + lake; axioms allowed: propext, Classical.choice, Quot.sound (checked by #print axioms on every run)",
    "hand-written Lean model of the anchored Python code (modelled, not verified): tied to /repo only by the correspondence run of this check and by the regenerated tables",
    "primitive stand-ins for NumPy/Python semantics in lean/Model/Basic.lean (stable sort, take, unique, bincount, cumsum, dict/set equality)",
    "the Python harness: generators, value codec (float -> order-isomorphic int, str -> code points), oracles, ast extractor",
    "CPython 3.12.1, NumPy 2.0.2, Numba 0.60.0, pyarrow 18.1.0, pandas 2.2.3 as installed",
]

# ----------------------------------------------------------------------------------------------
# environment for importing the implementation


def setup_impl_env():
    """Import dataiter from REPO with a private Numba cache; returns the module."""
    cache = tempfile.mkdtemp(prefix="verif-numba-")
    os.environ["NUMBA_CACHE_DIR"] = cache
    os.environ.setdefault("PYTHONHASHSEED", "0")
    os.environ.pop("COLUMNS", None)
    import atexit
    atexit.register(lambda: shutil.rmtree(cache, ignore_errors=True))
    if REPO not in sys.path[:1]:
        sys.path.insert(0, REPO)
    if os.environ.get("VERIF_NO_LINE_RECORDING") != "1":
        start_line_recording()
    import dataiter
    assert os.path.realpath(dataiter.__file__).startswith(os.path.realpath(REPO)), dataiter.__file__
    return dataiter


# ----------------------------------------------------------------------------------------------
# which lines of the anchored code did the generated cases execute? (sys.monitoring, each line fires once)

_EXECUTED = set()


def start_line_recording():
    """Record every (file, line) of REPO/dataiter that runs in this process.  The callback disables itself per
    location after the first hit, so the overhead is one call per distinct line."""
    mon = getattr(sys, "monitoring", None)
    if mon is None:
        return
    root = os.path.join(os.path.realpath(REPO), "dataiter") + os.sep
    tool = mon.COVERAGE_ID
    try:
        mon.use_tool_id(tool, "verif-anchor-lines")
    except ValueError:
        return

    def on_line(code, line):
        fn = code.co_filename
        if fn.startswith(root) or os.path.realpath(fn).startswith(root):
            _EXECUTED.add((os.path.relpath(os.path.realpath(fn), os.path.realpath(REPO)), line))
        return mon.DISABLE
    mon.register_callback(tool, mon.events.LINE, on_line)
    mon.set_events(tool, mon.events.LINE)


def anchor_line_report(prop):
    """Executable lines inside the property's anchor ranges (properties.jsonl `where` fields) vs lines executed."""
    spec = None
    for l in open(os.path.join(VERIF, "properties.jsonl")):
        j = json.loads(l)
        if j["id"] == prop:
            spec = j
    if spec is None:
        return {}
    text = json.dumps(spec.get("anchors", {}))
    base_ranges = {}
    for m in re.finditer(r"(dataiter/\w+\.py):([0-9,\-]+)", text):
        for part in m.group(2).split(","):
            if not part:
                continue
            a, _, b = part.partition("-")
            base_ranges.setdefault(m.group(1), []).append((int(a), int(b or a)))
    # the anchors give line numbers of the pinned source; fix: commits have moved lines since.  Map every range
    # to the functions it touches in the pinned file (root commit of /repo) and take those functions' current extent.
    import ast as _ast

    def functions(src):
        out = []

        def visit(node, prefix):
            for n in getattr(node, "body", []):
                if isinstance(n, (_ast.FunctionDef, _ast.ClassDef)):
                    q = prefix + n.name
                    if isinstance(n, _ast.FunctionDef):
                        out.append((q, n.lineno, n.end_lineno))
                    visit(n, q + ".")
        visit(_ast.parse(src), "")
        return out
    ranges = {}
    for fn, rs in base_ranges.items():
        try:
            rc, root = sh(["git", "-C", REPO, "rev-list", "--max-parents=0", "HEAD"])
            rc2, base_src = sh(["git", "-C", REPO, "show", f"{root.strip().splitlines()[-1]}:{fn}"])
            cur_src = open(os.path.join(REPO, fn), encoding="utf-8").read()
            if rc != 0 or rc2 != 0:
                raise RuntimeError("no base")
            touched = {q for q, a, b in functions(base_src) if any(a <= y and x <= b for x, y in rs)}
            ranges[fn] = [(a, b) for q, a, b in functions(cur_src) if q in touched]
        except Exception:
            ranges[fn] = rs
    out = {"executable": 0, "executed": 0, "not_executed": []}
    for fn, rs in sorted(ranges.items()):
        path = os.path.join(REPO, fn)
        try:
            src = open(path, encoding="utf-8").read()
            code = compile(src, path, "exec")
        except Exception:
            continue
        lines = set()
        stack = [code]
        while stack:
            c = stack.pop()
            for _, _, ln in c.co_lines():
                if ln is not None and ln != c.co_firstlineno:
                    lines.add(ln)
            stack.extend(k for k in c.co_consts if hasattr(k, "co_lines"))
        src_lines = src.split("\n")
        for ln in sorted(lines):
            if not any(a <= ln <= b for a, b in rs):
                continue
            t = src_lines[ln - 1].strip() if ln - 1 < len(src_lines) else ""
            if not t or t.startswith(("def ", "class ", "@", "#")) or t[0] in "\"'":
                continue
            out["executable"] += 1
            if (fn, ln) in _EXECUTED:
                out["executed"] += 1
            else:
                out["not_executed"].append(f"{fn}:{ln}")
    out["not_executed"] = out["not_executed"][:60]
    return out


# ----------------------------------------------------------------------------------------------
# Lean side


def sh(cmd, cwd=None, timeout=None, env=None):
    p = subprocess.run(cmd, cwd=cwd, shell=isinstance(cmd, str), stdout=subprocess.PIPE,
                       stderr=subprocess.STDOUT, text=True, timeout=timeout, env=env)
    return p.returncode, p.stdout


def lake_build(targets=None, clean=False):
    """Returns (ok, log). Rebuilds whatever changed (Generated/* after extraction)."""
    if clean:
        shutil.rmtree(os.path.join(LEAN, ".lake", "build"), ignore_errors=True)
    cmd = ["lake", "build"] + (targets or [])
    rc, out = sh(cmd, cwd=LEAN, timeout=3000)
    return rc == 0, out


def grep_forbidden():
    """Stranger's check: no sorry/admit/axiom/native_decide/... outside comments."""
    hits = []
    for root, dirs, files in os.walk(LEAN):
        if ".lake" in root:
            continue
        for f in files:
            if not f.endswith(".lean"):
                continue
            path = os.path.join(root, f)
            text = open(path, encoding="utf-8").read()
            # strip block comments and line comments
            text = re.sub(r"/-.*?-/", lambda m: "\n" * m.group(0).count("\n"), text, flags=re.S)
            for n, line in enumerate(text.split("\n"), 1):
                line = line.split("--")[0]
                if FORBIDDEN.search(line):
                    hits.append(f"{os.path.relpath(path, LEAN)}:{n}: {line.strip()}")
    return hits


def theorems_for(prop):
    table = json.load(open(THEOREMS))
    return table.get(prop, [])


def audit(prop):
    """#print axioms on every theorem listed for prop.
    Returns dict(obligations, discharged, details, failed[list of names])."""
    entries = theorems_for(prop)
    names = [e["name"] for e in entries]
    modules = sorted(set(e["module"] for e in entries))
    src = "".join(f"import {m}\n" for m in modules)
    src += "".join(f"#print axioms {n}\n" for n in names)
    path = os.path.join(LEAN, "Audit", f"{prop}.lean")
    with open(path, "w") as f:
        f.write(src)
    rc, out = sh(["lake", "env", "lean", path], cwd=LEAN, timeout=1200)
    details = {}
    # parse "'name' depends on axioms: [a, b]" / "'name' does not depend on any axioms"
    flat = re.sub(r"\s+", " ", out)
    for n in names:
        m = re.search(r"'" + re.escape(n) + r"' (does not depend on any axioms|depends on axioms: \[([^\]]*)\])", flat)
        if not m:
            details[n] = {"ok": False, "why": "not found in build (missing or failed theorem)"}
            continue
        axioms = [] if m.group(2) is None else [a.strip() for a in m.group(2).split(",") if a.strip()]
        bad = [a for a in axioms if a not in ALLOWED_AXIOMS]
        details[n] = {"ok": not bad, "axioms": axioms}
        if bad:
            details[n]["why"] = "disallowed axioms: " + ", ".join(bad)
    failed = [n for n in names if not details[n]["ok"]]
    return {
        "obligations": len(names),
        "discharged": len(names) - len(failed),
        "details": details,
        "failed": failed,
        "log": out if failed else "",
        "checker_cmd": f"cd lean && lake build && lake env lean Audit/{prop}.lean",
    }


class Driver:
    """Batch interface to the compiled Lean model."""

    def __init__(self):
        if not os.path.exists(DRIVER):
            raise RuntimeError("driver not built: run `cd lean && lake build`")

    def run(self, requests):
        """requests: list of (op, args) -> list of outputs (python objects) or {'err':..}."""
        lines = []
        for i, (op, a) in enumerate(requests):
            lines.append(json.dumps({"id": i, "op": op, "a": a}, separators=(",", ":")))
        p = subprocess.run([DRIVER], input="\n".join(lines) + "\n", stdout=subprocess.PIPE,
                           stderr=subprocess.PIPE, text=True, timeout=3000)
        if p.returncode != 0:
            raise RuntimeError(f"driver failed rc={p.returncode}: {p.stderr[:2000]}")
        outs = [None] * len(requests)
        for line in p.stdout.split("\n"):
            if not line.strip():
                continue
            j = json.loads(line)
            if "out" in j:
                outs[j["id"]] = j["out"]
            else:
                outs[j["id"]] = {"err": j.get("err")}
        return outs


# ----------------------------------------------------------------------------------------------
# value codec (DESIGN.md §3.4)

import struct


def float_ord(x):
    """Order-isomorphic int64 image of a double; +0.0 and -0.0 both map to 0; NaN -> None."""
    if x != x:
        return None
    if x == 0:
        return 0
    bits = struct.unpack("<q", struct.pack("<d", float(x)))[0]
    return bits if bits >= 0 else -(bits & 0x7FFFFFFFFFFFFFFF)


def str_codes(s):
    return [ord(c) for c in s]


# ----------------------------------------------------------------------------------------------
# results, findings, evidence


class Violation:
    def __init__(self, kind, signature, what, case, observed=None, expected=None):
        self.kind = kind            # "oracle" | "correspondence" | "obligation"
        self.signature = signature  # narrow id: op + argument class + violated clause
        self.what = what
        self.case = case
        self.observed = observed
        self.expected = expected

    def to_json(self):
        return {"kind": self.kind, "signature": self.signature, "what": self.what,
                "case": self.case, "observed": self.observed, "expected": self.expected}


def load_known(prop):
    if not os.path.exists(KNOWN_FINDINGS):
        return []
    data = json.load(open(KNOWN_FINDINGS))
    return [e for e in data.get("findings", [])
            if e.get("property") == prop and e.get("status") == "known"]


def jsonable(x):
    try:
        json.dumps(x)
        return x
    except TypeError:
        return repr(x)


class Ctx:
    def __init__(self, prop, tier, seed, replay=None):
        self.prop = prop
        self.tier = tier
        self.seed = seed
        self.replay = replay
        self.rng = random.Random(f"{prop}-{seed}")
        self.t0 = time.time()
        self.violations = []
        self.evaluations = 0
        self.nontrivial = set()
        self.samples = []
        self.stats = {}
        self.notes = []

    def count(self, key, n=1):
        self.stats[key] = self.stats.get(key, 0) + n

    def case_done(self, case, nontrivial):
        self.evaluations += 1
        if nontrivial:
            h = hashlib.sha1(json.dumps(case, sort_keys=True, default=repr).encode()).hexdigest()
            self.nontrivial.add(h)
        if len(self.samples) < 5 and nontrivial:
            self.samples.append(jsonable(case))

    def violation(self, kind, signature, what, case, observed=None, expected=None):
        # argument-class suffix of the case being judged (e.g. ":trailing-nul"), so that a recorded finding
        # about one class of inputs never hides a violation of the same clause on other inputs
        if kind == "oracle" and getattr(self, "sig_suffix", ""):
            signature += self.sig_suffix
        self.violations.append(Violation(kind, signature, what, jsonable(case),
                                         jsonable(observed), jsonable(expected)))


def write_replay(ctx, v, n):
    os.makedirs(REPLAY_DIR, exist_ok=True)
    path = os.path.join(REPLAY_DIR, f"{ctx.prop}-{ctx.tier}-{ctx.seed}-{n}.json")
    with open(path, "w") as f:
        json.dump({"property": ctx.prop, "tier": ctx.tier, "seed": ctx.seed, **v.to_json()}, f,
                  indent=1, default=repr)
    return path


def finish(ctx, level_info, build_ok, build_log, audit_res, extra_cov=None, assumptions=None,
           rule="", forbidden_hits=()):
    """Classify, print verdict lines, write evidence, return exit code."""
    known = load_known(ctx.prop)
    known_sigs = {e["signature"]: e for e in known}
    exit_code = 0
    printed = set()
    n = 0
    unknown = []
    known_hit = {}
    for v in ctx.violations:
        if v.kind == "oracle" and v.signature in known_sigs:
            known_hit.setdefault(v.signature, v)
        else:
            unknown.append(v)
    # a model/implementation disagreement on the very input of a recorded finding is that finding again
    # (the model satisfies the property there, the code does not): not a second alarm
    def key(v):
        return json.dumps(v.case, sort_keys=True, default=repr)
    known_cases = {key(v) for v in ctx.violations if v.kind == "oracle" and v.signature in known_sigs}
    unknown = [v for v in unknown if not (v.kind == "correspondence" and key(v) in known_cases)]
    for sig, v in known_hit.items():
        print(f"KNOWN-FINDING: property={ctx.prop} {known_sigs[sig]['what']} [{sig}]")
    # oracle violations decide first (they carry a concrete failing input)
    oracle = [v for v in unknown if v.kind == "oracle"]
    others = [v for v in unknown if v.kind != "oracle"]
    for v in oracle:
        if v.signature in printed:
            continue
        printed.add(v.signature)
        path = write_replay(ctx, v, n)
        n += 1
        print(f"VIOLATION property={ctx.prop} replay={path}")
        exit_code = 1
    if not oracle:
        for v in others:
            key = (v.kind, v.signature)
            if key in printed:
                continue
            printed.add(key)
            path = write_replay(ctx, v, n)
            n += 1
            print(f"VIOLATION property={ctx.prop} replay={path} no-failing-input-found")
            exit_code = 1
    cov = {
        "obligations": audit_res["obligations"],
        "discharged": audit_res["discharged"],
        "checker_cmd": audit_res["checker_cmd"],
        "trusted_base": TRUSTED_BASE + list(level_info.get("trusted_extra", [])),
        "theorems": {k: v.get("axioms", v.get("why")) for k, v in audit_res["details"].items()},
        "evaluations": ctx.evaluations,
        "distinct_nontrivial": len(ctx.nontrivial),
        "rule": rule,
        "samples": ctx.samples[:5] or [{"note": "no non-trivial sample recorded"}],
        "branch_histogram": dict(sorted(ctx.stats.items())),
        "lean_build_ok": build_ok,
        "forbidden_token_hits": list(forbidden_hits),
        "known_findings_seen": sorted(known_hit),
        "partial": level_info.get("partial", []),
        "anchor_lines": anchor_line_report(ctx.prop),
    }
    if extra_cov:
        cov.update(extra_cov)
    ev = {
        "property_id": ctx.prop,
        "tier": ctx.tier,
        "seed": ctx.seed,
        "level": "proof",
        "coverage": cov,
        "assumptions": assumptions or [],
        "wall_s": round(time.time() - ctx.t0, 2),
        "violations": len([v for v in unknown]),
    }
    os.makedirs(EVIDENCE_DIR, exist_ok=True)
    with open(os.path.join(EVIDENCE_DIR, f"{ctx.prop}.json"), "w") as f:
        json.dump(ev, f, indent=1, default=repr)
    status = "OK" if exit_code == 0 else "FAIL"
    sigs = {}
    for v in unknown:
        sigs[f"{v.kind}:{v.signature}"] = sigs.get(f"{v.kind}:{v.signature}", 0) + 1
    if sigs:
        print(f"[{ctx.prop}] violation signatures: {sigs}")
    print(f"[{ctx.prop}] {status} tier={ctx.tier} seed={ctx.seed} theorems={audit_res['discharged']}/"
          f"{audit_res['obligations']} cases={ctx.evaluations} nontrivial={len(ctx.nontrivial)} "
          f"violations={len(unknown)} known={len(known_hit)} wall={ev['wall_s']}s")
    return exit_code


def generated_imports(prop):
    """What this property's theorem modules read from lean/Generated/, through any chain of imports: the translated code of
    other properties (`CodeCxx`) and extracted tables. All of it is regenerated from the current source before the build, so
    that no obligation of this run is checked against a translation left over from an earlier run or another tree."""
    import re
    seen, deps, tables = set(), set(), set()
    todo = sorted(set(e["module"] for e in theorems_for(prop)))
    while todo:
        m = todo.pop()
        if m in seen:
            continue
        seen.add(m)
        if m.startswith("Generated."):
            name = m.split(".", 1)[1]
            (deps if re.fullmatch(r"CodeC\d\d", name) else tables).add(name[4:] if name.startswith("CodeC") else name)
            continue
        f = os.path.join(LEAN, m.replace(".", "/") + ".lean")
        if not os.path.exists(f):
            continue
        with open(f) as fh:
            for line in fh:
                mm = re.match(r"import\s+(\S+)", line)
                if mm:
                    todo.append(mm.group(1))
    return deps - {prop}, tables


def regenerate_tables(tables):
    from harness import extract_ast, extract_sites
    gens = {"HelperTable": extract_ast.gen_helper_table, "IoAliases": extract_ast.gen_io_aliases, "IoSites": extract_ast.gen_io_sites,
            "ProxyTable": extract_ast.gen_proxy_table, "Sites": extract_sites.gen_site_table}
    for t in sorted(tables):
        if t in gens:
            gens[t]()


def run_property(mod, prop, tier, seed, replay=None):
    """The pipeline of DESIGN.md §2.2 for one property module."""
    ctx = Ctx(prop, tier, seed, replay)
    import glob
    for old in glob.glob(os.path.join(REPLAY_DIR, f"{prop}-{tier}-{seed}-*.json")):
        if not replay:
            os.remove(old)
    # 1. extract (translator for finite tables)
    if hasattr(mod, "extract"):
        try:
            mod.extract(ctx)
        except Exception as e:  # extractor could not read the source: obligation broken
            ctx.violation("obligation", "extract", f"ast extractor failed: {e!r}", {"step": "extract"})
    # 1b. source translator: regenerate this property's Generated/Code<prop>.lean from the current source
    try:
        from harness import py2lean
        if prop in py2lean.GROUPS:
            rep = py2lean.generate(prop)
            deps, tables = generated_imports(prop)
            for dep in sorted(set(py2lean.DEPENDS.get(prop, [])) | deps):
                if dep != prop and dep in py2lean.GROUPS:
                    # (a function of ANOTHER property that no longer translates is that property's obligation; here it
                    # matters only if a theorem of this property reads it, and then the build below fails)
                    dep_rep = py2lean.generate(dep)
                    rep.update({k: v for k, v in dep_rep.items() if v["status"] == "translated" or dep in py2lean.DEPENDS.get(prop, [])})
            regenerate_tables(tables)
            ctx.stats["regenerated_with"] = sorted(deps | tables)
            ctx.stats["translated_functions"] = sum(1 for r in rep.values() if r["status"] == "translated")
            for name, r in rep.items():
                if r["status"] != "translated":
                    ctx.violation("obligation", f"translate:{name}", f"source translator could not translate {r['origin']}: {r.get('why')}",
                                  {"step": "py2lean", "function": r["origin"]})
            ctx.translation = rep
    except Exception as e:
        ctx.violation("obligation", "translate", f"source translator failed: {e!r}", {"step": "py2lean"})
    # 2. build
    # only this property's obligations (and the model driver): a table that no longer checks for
    # another property must not raise an alarm here
    targets = ["driver"] + sorted(set(e["module"] for e in theorems_for(prop)))
    build_ok, build_log = lake_build(targets, clean=(tier == "thorough" and os.environ.get("VERIF_CLEAN_BUILD") == "1"))
    # 3. audit
    hits = grep_forbidden()
    audit_res = audit(prop)
    if hits:
        for h in hits:
            ctx.violation("obligation", "forbidden-token", f"forbidden token in Lean sources: {h}", {"hit": h})
    if not build_ok:
        tail = "\n".join(l for l in build_log.split("\n") if "error" in l.lower())[:4000]
        ctx.violation("obligation", "lake-build", "lake build failed (a proof obligation or generated table no longer checks)",
                      {"step": "lake build"}, observed=tail)
    for name in audit_res["failed"]:
        ctx.violation("obligation", f"theorem:{name}", f"theorem {name} is not established: {audit_res['details'][name].get('why')}",
                      {"theorem": name}, observed=audit_res["log"][-3000:])
    if tier == "thorough" and build_ok and os.environ.get("VERIF_SKIP_LEANCHECKER") != "1":
        mods = sorted(set(e["module"] for e in theorems_for(prop)))
        rc, out = sh(["lake", "env", "leanchecker"] + mods, cwd=LEAN, timeout=3000)
        ctx.stats["leanchecker_rc"] = rc
        if rc != 0:
            ctx.violation("obligation", "leanchecker", "leanchecker rejected the compiled modules", {"modules": mods}, observed=out[-3000:])
    # 4./5. correspondence + oracle on generated cases
    driver_ok = os.path.exists(DRIVER) and build_ok
    try:
        mod.run(ctx, Driver() if driver_ok else None)
    except Exception as e:
        import traceback
        ctx.violation("correspondence", "harness-crash", f"harness crashed: {e!r}", {"trace": traceback.format_exc()[-3000:]})
    # 6. widened search when only proof/correspondence broke
    need_search = any(v.kind != "oracle" for v in ctx.violations) and not any(v.kind == "oracle" for v in ctx.violations)
    if need_search and hasattr(mod, "search"):
        try:
            mod.search(ctx)
        except Exception as e:
            ctx.notes.append(f"search crashed: {e!r}")
    return finish(ctx, getattr(mod, "LEVEL", {}), build_ok, build_log, audit_res,
                  extra_cov=getattr(mod, "extra_coverage", lambda c: {})(ctx),
                  assumptions=getattr(mod, "ASSUMPTIONS", []), rule=getattr(mod, "RULE", ""),
                  forbidden_hits=hits)


# ----------------------------------------------------------------------------------------------
# generic case runner used by the property modules


def run_cases(ctx, driver, mod, cases):
    """impl -> model requests -> judge, batching all model requests into one driver run."""
    reqs, spans, observed = [], [], []
    kept = []
    cur = os.path.join(REPLAY_DIR, f".current-{ctx.prop}.json")
    os.makedirs(REPLAY_DIR, exist_ok=True)
    from harness import warm
    import zlib
    for c in cases:
        try:
            with open(cur, "w") as f:     # so that an interpreter crash still has its failing input
                json.dump(c, f, default=repr)
            # every third case (a function of the case alone, so a replay does the same) runs on objects
            # "with a history": see harness/warm.py
            warm.ENABLED = (c.get("warm") is True or zlib.crc32(json.dumps(c, sort_keys=True, default=repr).encode()) % 3 == 0) \
                and os.environ.get("VERIF_NO_WARM") != "1"          # (a directed case may ask for a history: "warm": true)
            warm.GROUPED = warm.ENABLED and bool(getattr(mod, "WARM_GROUPED", False)) and \
                (not hasattr(mod, "warm_grouped") or bool(mod.warm_grouped(c)))
            if warm.ENABLED:
                ctx.count("warmed-cases")
            if warm.GROUPED:
                ctx.count("warmed-cases-grouped-receiver")
            o = mod.impl(c)
        except Exception as e:  # the observation itself blew up on the real code: a concrete failing input
            import traceback
            ctx.violation("oracle", "observe:raises", f"observing the implementation raised {type(e).__name__}: {e}", c,
                          traceback.format_exc()[-1500:])
            ctx.evaluations += 1
            continue
        finally:
            warm.ENABLED = False
            warm.GROUPED = False
        kept.append(c)
        r = mod.model_requests(c, o) if driver is not None else []
        spans.append((len(reqs), len(r)))
        reqs += r
        observed.append(o)
    outs = driver.run(reqs) if (driver is not None and reqs) else ([] if driver is not None else None)
    for c, o, (s, k) in zip(kept, observed, spans):
        try:
            ctx.sig_suffix = case_class_suffix(c)
            mod.judge(ctx, c, o, outs[s:s + k] if outs is not None else None)
        except Exception as e:
            import traceback
            ctx.violation("correspondence", "judge-crash", f"judging a case crashed: {e!r}", c, traceback.format_exc()[-1500:])
            ctx.evaluations += 1
        finally:
            ctx.sig_suffix = ""


def case_class_suffix(case):
    """":trailing-nul" when a string value of the case ends in a null character (NumPy's fixed-width
    strings cannot hold it: a recorded finding of its own, see known_findings.json); ":reserved-name" when a data column
    of the case is named `_index_`, `_sorted_index_` or `_group_` (the grouping code stores its own bookkeeping columns
    under these names in its working frame and overwrites / misreads the user's column: a recorded finding of its own)."""
    def walk(x):
        if isinstance(x, str):
            return x.endswith("\x00")
        if isinstance(x, dict):
            return any(walk(v) for v in x.values())
        if isinstance(x, (list, tuple)):
            return any(walk(v) for v in x)
        return False
    if walk(case):
        return ":trailing-nul"

    def reserved(x):
        # a data column named like one of the bookkeeping columns the grouping code adds to its working frame
        if isinstance(x, dict):
            # (also: a GeoJSON property key named "geometry", the name under which the frame keeps the features' geometries)
            if isinstance(x.get("properties"), dict) and "geometry" in x["properties"]:
                return True
            return x.get("name") in RESERVED_COLUMN_NAMES or any(reserved(v) for v in x.values())
        if isinstance(x, (list, tuple)):
            return any(reserved(v) for v in x)
        return False
    return ":reserved-name" if reserved(case) else ""


RESERVED_COLUMN_NAMES = ("_index_", "_sorted_index_", "_group_")


def default_run(mod):
    def run(ctx, driver):
        if ctx.replay is not None:
            cases = [ctx.replay["case"]] if isinstance(ctx.replay.get("case"), dict) and "op" in ctx.replay["case"] else []
        else:
            cases = mod.gen_cases(ctx)
        setup_impl_env()
        run_cases(ctx, driver, mod, cases)
    return run


def default_search(mod, rounds=4):
    """Widened oracle-only search when a proof obligation or the correspondence broke:
    more seeds through the same generators, judged by the oracle alone."""
    def search(ctx):
        known = {e["signature"] for e in load_known(ctx.prop)}
        for extra in range(1, rounds + 1):
            sub = Ctx(ctx.prop, ctx.tier, ctx.seed * 1000 + extra)
            cases = mod.gen_cases(sub)
            run_cases(sub, None, mod, cases)
            ctx.evaluations += sub.evaluations
            found = [v for v in sub.violations if v.kind == "oracle" and v.signature not in known]
            if found:
                ctx.violations.extend(found)
                return
    return search

# -*- coding: utf-8 -*-
"""
Translator for C06 (DESIGN.md §5 C06): reads dataiter/data_frame.py and dataiter/vector.py with `ast`
and classifies, for every public non-in-place DataFrame / Vector method,

  * each result site (a `yield name, column` of a @new_from_generator method, or a `return` of a
    frame- / vector-returning method) by the provenance of the array it hands out:
        fresh     newly allocated (.copy(), astype, np.take/delete/concatenate/where/..., fancy or
                  boolean indexing, arithmetic, a constructor that goes through np.array)
        delegate  the result of another method of this table (fresh by induction over the table)
        scalar    not an array
        shallow   a new frame holding the operand's own columns (DataFrame.copy)
        receiver  the receiver itself (DataFrame.group_by)
        alias     the operand's buffer itself: a bare operand column, a basic slice / view of one,
                  _reconcile_column / _optimize_for_argsort output without a copy
        unknown   an expression form the rules do not cover
  * each in-place store (`x[...] = v`, `x.attr = v`, augmented assignment on a subscript) by the
    provenance of its target: local (a buffer / frame / list the method created itself),
    operand (memory or dict of the receiver or of an argument), unknown.

lean/Generated/Sites.lean is regenerated from this on every run; Proofs/C06.lean proves over the table
that no site is alias/unknown outside the documented exceptions and that no store targets an operand.
"""

import ast
import os

from harness.extract_ast import GEN, lean_str, src, write_if_changed

FRAME_RESULT_METHODS = {  # DataFrame methods whose result is a new frame (this table's own subjects)
    "aggregate", "anti_join", "cbind", "count", "deepcopy", "drop_na", "filter", "filter_out", "full_join", "head", "inner_join",
    "left_join", "modify", "rbind", "rename", "sample", "select", "semi_join", "slice", "slice_off", "sort", "tail", "unique",
    "unselect", "update", "__deepcopy__"}
FRAME_RETURN_METHODS = ["aggregate", "count", "deepcopy", "drop_na", "full_join", "head", "tail", "sample", "copy", "group_by"]
VECTOR_METHODS = ["as_boolean", "as_bytes", "as_date", "as_datetime", "as_float", "as_integer", "as_object", "as_string", "concat", "drop_na",
                  "head", "tail", "is_na", "map", "range", "rank", "replace_na", "sample", "sort", "unique", "to_strings"]
VECTOR_FRESH_METHODS = set(VECTOR_METHODS) | {"copy", "astype", "repeat", "tolist", "encode", "argsort", "cumsum", "sum", "max", "min", "any", "all"}
NP_FRESH = {"take", "delete", "concatenate", "repeat", "where", "isnat", "isnan", "arange", "sort", "zeros_like", "full_like", "argsort", "lexsort",
            "unique", "bincount", "cumsum", "array", "zeros", "ones", "full", "flatnonzero", "nonzero", "fromiter", "ceil", "all", "any", "nanmin", "nanmax"}
CONSTRUCTORS = {"Vector", "DataFrameColumn", "cls"}
MAYBE_ALIAS_CALLS = {"_reconcile_column", "_optimize_for_argsort", "view", "asarray", "asanyarray", "ravel", "reshape", "squeeze"}


class Scope:
    def __init__(self, cls, func):
        self.cls, self.func = cls, func
        self.visiting = set()
        self.assign = {}      # name -> list of value expressions / markers
        for node in ast.walk(func):
            if isinstance(node, ast.Assign):
                for t in node.targets:
                    self._bind(t, node.value)
            elif isinstance(node, ast.AnnAssign) and node.value is not None:
                self._bind(node.target, node.value)
            elif isinstance(node, ast.NamedExpr):
                self._bind(node.target, node.value)
            elif isinstance(node, ast.For):
                self._bind_loop(node.target, node.iter)
            elif isinstance(node, ast.comprehension):
                self._bind_loop(node.target, node.iter)
        args = func.args
        self.params = [a.arg for a in args.args + args.kwonlyargs] + ([args.vararg.arg] if args.vararg else []) + ([args.kwarg.arg] if args.kwarg else [])

    def _bind(self, target, value):
        if isinstance(target, ast.Name):
            self.assign.setdefault(target.id, []).append(("expr", value))
        elif isinstance(target, (ast.Tuple, ast.List)):
            for i, t in enumerate(target.elts):
                if isinstance(t, ast.Name):
                    self.assign.setdefault(t.id, []).append(("unpack", value, i))

    def _bind_loop(self, target, it):
        if isinstance(target, ast.Name):
            self.assign.setdefault(target.id, []).append(("elem", it))
        elif isinstance(target, (ast.Tuple, ast.List)):
            for i, t in enumerate(target.elts):
                if isinstance(t, ast.Name):
                    self.assign.setdefault(t.id, []).append(("loop", it, i))


def join(classes):
    classes = set(classes) - {"cycle"}
    for bad in ("unknown", "alias", "operand-frame", "shallow", "receiver"):
        if bad in classes:
            return bad
    if "opcol" in classes:
        return "opcol"
    for c in ("delegate", "fresh", "local-frame", "list", "scalar", "external"):
        if c in classes:
            return c
    return "unknown"


def classify(e, sc, depth=0):
    """provenance class of expression e inside scope sc."""
    if depth > 12:
        return "unknown"
    k = lambda x: classify(x, sc, depth + 1)
    if isinstance(e, ast.Tuple):
        return join(k(x) for x in e.elts) if e.elts else "scalar"
    if isinstance(e, ast.Constant) or isinstance(e, ast.JoinedStr):
        return "scalar"
    if isinstance(e, (ast.List, ast.ListComp, ast.GeneratorExp, ast.Dict, ast.DictComp, ast.Set, ast.SetComp)):
        return "list"
    if isinstance(e, (ast.UnaryOp, ast.BinOp, ast.Compare, ast.BoolOp)):
        return "fresh"
    if isinstance(e, ast.IfExp):
        return join([k(e.body), k(e.orelse)])
    if isinstance(e, ast.Name):
        if e.id == "self":
            return "operand-frame" if sc.cls == "DataFrame" else "opcol"
        if e.id in sc.assign:
            if e.id in sc.visiting:
                return "cycle"
            sc.visiting.add(e.id)
            try:
                return classify_name(e, sc, k)
            finally:
                sc.visiting.discard(e.id)
        if e.id in sc.params:
            # a frame / vector handed in by the caller (other, others, value) or plain data (n, rows, colnames)
            return "operand-frame" if e.id in ("other", "others", "data_frames") else "param"
        return "scalar" if e.id in MODULES or e.id == "inf" else "unknown"
    return classify_rest(e, sc, k)


MODULES = ("np", "dataiter", "dtypes", "util", "itertools", "math", "sys")


def classify_name(e, sc, k):
            out = []
            for b in sc.assign[e.id]:
                if b[0] == "expr":
                    out.append("fresh" if (isinstance(b[1], ast.Name) and b[1].id == e.id) else k(b[1]))
                elif b[0] == "loop":          # for a, b in X.items() / enumerate(X) / zip(...)
                    it, i = b[1], b[2]
                    if isinstance(it, ast.Call) and isinstance(it.func, ast.Attribute) and it.func.attr == "items":
                        base = k(it.func.value)
                        out.append("scalar" if i == 0 else "opcol" if base == "operand-frame" else "fresh" if base == "local-frame" else "unknown")
                    elif isinstance(it, ast.Call) and isinstance(it.func, ast.Name) and it.func.id == "enumerate":
                        out.append("scalar" if i == 0 else elem_class(k(it.args[0])))
                    elif isinstance(it, ast.Call) and isinstance(it.func, ast.Name) and it.func.id in ("zip", "reversed"):
                        out.append("scalar")
                    else:
                        out.append("scalar")
                elif b[0] == "elem":
                    it = b[1]
                    if isinstance(it, ast.Call) and isinstance(it.func, ast.Name) and it.func.id in ("range", "len"):
                        out.append("scalar")
                    else:
                        out.append(elem_class(k(it)))
                elif b[0] == "unpack":
                    out.append(join([k(b[1])]) if not isinstance(b[1], ast.Tuple) else k(b[1].elts[b[2]]))
            return join(out)


def classify_rest(e, sc, k):
    if isinstance(e, ast.Attribute):
        base = k(e.value)
        if e.attr in ("nrow", "ncol", "length", "size", "dtype", "na_value", "na_dtype", "colnames", "_group_colnames", "nbytes"):
            return "scalar"
        if base in ("operand-frame",):
            return "opcol"           # frame.colname
        if base == "local-frame":
            return "fresh"
        return "unknown"
    if isinstance(e, ast.Subscript):
        base = k(e.value)
        if base == "cycle":
            return "cycle"
        if base == "operand-frame":
            return "opcol"           # self[colname]: the column object itself
        if base == "local-frame":
            return "fresh"
        if base in ("list", "param", "scalar", "external"):
            return elem_class(base)
        view = isinstance(e.slice, ast.Slice) or (isinstance(e.slice, ast.Tuple) and any(isinstance(x, ast.Slice) for x in e.slice.elts))
        if base in ("opcol", "alias"):
            return "alias" if view else "fresh"     # basic slice = view; fancy / boolean index = copy
        if base in ("fresh", "delegate"):
            return "fresh"
        return "unknown"
    if isinstance(e, ast.Call):
        f = e.func
        if isinstance(f, ast.Name):
            if f.id in CONSTRUCTORS:
                return "fresh"
            if f.id in ("list", "tuple", "dict", "set", "sorted", "map", "zip", "range", "len", "str", "int", "float", "min", "max", "sum", "any", "all", "isinstance", "getattr", "next", "iter", "enumerate", "reversed"):
                return "list"
            return "external"         # a user / helper function: its result is not operand memory by contract
        if isinstance(f, ast.Attribute):
            a = f.attr
            if isinstance(f.value, ast.Name) and f.value.id in MODULES and f.value.id != "np":
                return "external"     # util.X(...), itertools.X(...): plain Python values
            # np.X(...)
            if isinstance(f.value, ast.Name) and f.value.id == "np":
                return "fresh" if a in NP_FRESH else ("alias" if a in MAYBE_ALIAS_CALLS and any(k(x) in ("opcol", "alias") for x in e.args) else "unknown" if a not in ("split", "issubdtype", "dtype", "datetime64", "timedelta64") else "list")
            if isinstance(f.value, ast.Attribute) and isinstance(f.value.value, ast.Name) and f.value.value.id == "np":
                return "fresh"        # np.strings.X / np.random.X
            if a == "fast" or (a == "__class__" and False):
                return "fresh"
            if isinstance(f.value, ast.Attribute) and f.value.attr == "__class__":
                return "fresh"        # self.__class__.fast(...)
            if isinstance(f, ast.Attribute) and isinstance(f.value, ast.Name) and f.value.id in ("Vector", "DataFrameColumn", "cls"):
                return "fresh"        # Vector.fast(...), cls.fast(...)
            base = k(f.value)
            if base == "cycle":
                return "cycle"        # x = x.method(...): decided by x's other bindings
            if a == "__class__":
                return "fresh"
            if base in ("operand-frame", "local-frame", "shallow", "delegate-frame"):
                if a in ("copy", "__copy__"):
                    return "shallow" if base == "operand-frame" else "local-frame"
                if a == "group_by":
                    return "receiver" if base == "operand-frame" else "local-frame"
                if a in FRAME_RESULT_METHODS:
                    return "local-frame"
                if a in ("_reconcile_column",):
                    return "alias" if any(k(x) in ("opcol", "alias", "param", "external", "unknown") for x in e.args) else "fresh"
                if a in ("items", "values", "keys", "pop", "split", "_view_rows", "to_list_of_dicts", "_split_join_by", "_get_join_indices", "_parse_rows_from_boolean", "_parse_rows_from_integer", "_parse_cols_from_boolean", "_parse_cols_from_integer"):
                    return "list"
                return "unknown"
            # vector-like receiver
            if a in MAYBE_ALIAS_CALLS:
                return "alias" if base in ("opcol", "alias", "param", "external") else "fresh" if base in ("fresh", "delegate") else "unknown"
            if a in VECTOR_FRESH_METHODS:
                # NumPy's `copy=` keyword: `x.astype(dtype, copy=False)` hands back x itself when nothing is converted
                nocopy = any(kw.arg == "copy" and not (isinstance(kw.value, ast.Constant) and kw.value.value is True) for kw in e.keywords)
                if nocopy:
                    return "alias" if base in ("opcol", "alias", "param", "external") else "fresh" if base in ("fresh", "delegate") else "unknown"
                return "fresh"
            if isinstance(f.value, ast.Attribute) and f.value.attr in ("str", "dt", "re"):
                return "fresh"        # proxy call: np.strings / dt / regex function result
            if base == "list" and a in ("append", "sort", "index", "count", "get"):
                return "scalar"
            return "unknown"
        if isinstance(f, ast.Call):   # self.__class__(...)(...) etc.
            return "unknown"
    return "unknown"


def elem_class(c):
    return {"list": "scalar", "param": "param", "scalar": "scalar", "external": "external", "opcol": "scalar", "fresh": "scalar", "operand-frame": "scalar",
            "local-frame": "scalar"}.get(c, "unknown")


def final_class(c, cls):
    """collapse the provenance lattice to the site classes of the table."""
    if c in ("fresh", "list", "external"):
        return "fresh"
    if c in ("local-frame", "delegate"):
        return "delegate"
    if c == "scalar":
        return "scalar"
    if c in ("opcol", "alias", "param"):
        return "alias"
    if c == "operand-frame":
        return "receiver"
    return c            # shallow / receiver / unknown


def store_target_class(t, sc):
    """provenance of the object a store writes into."""
    base = t.value
    c = classify(base, sc)
    if isinstance(t, ast.Attribute) and isinstance(base, ast.Name) and base.id == "self":
        return "self-attribute:" + t.attr
    if c in ("fresh", "local-frame", "list", "delegate", "external", "scalar"):
        return "local"
    if c == "shallow":
        # `a = operand.copy(); a[key] = value` / `a.attr = value`: DataFrame.copy() is a NEW dict holding the
        # operand's column objects; a key or attribute assignment on it changes that new dict only (a write
        # *through* one of its columns, `a[key][i] = v`, has base `a[key]` = opcol and stays "operand")
        return "local"
    if c in ("opcol", "alias", "operand-frame", "param", "receiver"):
        return "operand"
    return "unknown"


def functions_of(tree, clsname):
    for node in tree.body:
        if isinstance(node, ast.ClassDef) and node.name == clsname:
            for f in node.body:
                if isinstance(f, ast.FunctionDef):
                    yield f


def own_nodes(func):
    """nodes of func, not descending into nested function definitions (they get their own scope but share names)."""
    stack = list(func.body)
    while stack:
        n = stack.pop()
        if isinstance(n, (ast.FunctionDef, ast.Lambda)):
            continue
        yield n
        for c in ast.iter_child_nodes(n):
            if isinstance(c, (ast.FunctionDef, ast.Lambda)):
                continue
            stack.append(c)


def stores_of(clsname, f, sc):
    """in-place stores anywhere in the method, nested helper functions included (they run on the method's operands)."""
    stores = []
    for n in ast.walk(f):
        targets = []
        if isinstance(n, ast.Assign):
            targets = n.targets
        elif isinstance(n, ast.AugAssign):
            targets = [n.target]
        flat = []
        for t in targets:
            flat.extend(t.elts if isinstance(t, (ast.Tuple, ast.List)) else [t])       # `a[i], b[j] = x, y` stores twice
        for t in flat:
            if isinstance(t, (ast.Subscript, ast.Attribute)):
                stores.append((clsname, f.name, ast.unparse(n)[:120], store_target_class(t, sc)))
        if isinstance(n, ast.AugAssign) and isinstance(n.target, ast.Name):
            # `x op= y` on a name: for an array this writes into x's own buffer; harmless only when x is the method's own
            c = classify(n.target, sc)
            params = {a.arg for a in f.args.posonlyargs + f.args.args + f.args.kwonlyargs} | {a.arg for a in (f.args.vararg, f.args.kwarg) if a}
            if n.target.id in params:
                c = "param"      # flow-insensitive: on some path the name still holds the caller's object
            stores.append((clsname, f.name, ast.unparse(n)[:120],
                           "local" if c in ("fresh", "local-frame", "list", "delegate", "scalar") else
                           "operand" if c in ("opcol", "alias", "operand-frame", "param", "receiver", "shallow") else "unknown"))
        if isinstance(n, ast.Call) and isinstance(n.func, ast.Attribute) and n.func.attr in ("fill", "put", "itemset", "partition", "resize", "setfield", "byteswap") and not isinstance(n.func.value, ast.Constant):
            stores.append((clsname, f.name, ast.unparse(n)[:120], store_target_class(n.func, sc)))
        if isinstance(n, ast.Call) and isinstance(n.func, ast.Attribute) and isinstance(n.func.value, ast.Name) and n.func.value.id == "np" and n.func.attr in ("place", "put", "putmask", "copyto", "put_along_axis"):
            tgt = n.args[0] if n.args else None
            c = classify(tgt, sc) if tgt is not None else "unknown"
            stores.append((clsname, f.name, ast.unparse(n)[:120], "local" if c in ("fresh", "local-frame", "list") else "operand" if c in ("opcol", "alias", "operand-frame", "param") else "unknown"))
    return stores


def site_table():
    results, stores = [], []
    for path, clsname in (("dataiter/data_frame.py", "DataFrame"), ("dataiter/vector.py", "Vector")):
        tree = ast.parse(src(path))
        for f in functions_of(tree, clsname):
            decos = [ast.unparse(d) for d in f.decorator_list]
            if f.name.startswith("_") and not f.name.startswith("__") and "classmethod" not in decos and "staticmethod" not in decos:
                # a private helper runs on the operands of the public method that calls it: its stores count too
                sc = Scope(clsname, f)
                stores.extend(stores_of(clsname, f, sc))
                continue
            if f.name.startswith("_") or "property" in decos or any(d.endswith(".setter") for d in decos) or "classmethod" in decos or "staticmethod" in decos:
                continue
            generator = "deco.new_from_generator" in decos
            if clsname == "DataFrame" and not (generator or f.name in FRAME_RETURN_METHODS):
                continue
            if clsname == "Vector" and f.name not in VECTOR_METHODS:
                continue
            sc = Scope(clsname, f)
            nested = [n for n in ast.walk(f) if isinstance(n, ast.FunctionDef) and n is not f]
            for n in own_nodes(f):
                if isinstance(n, ast.Yield) and n.value is not None:
                    val = n.value.elts[1] if isinstance(n.value, ast.Tuple) and len(n.value.elts) == 2 else n.value
                    results.append((clsname, f.name, "yield", ast.unparse(val), final_class(classify(val, sc), clsname)))
                elif isinstance(n, ast.Return) and n.value is not None:
                    results.append((clsname, f.name, "return", ast.unparse(n.value), final_class(classify(n.value, sc), clsname)))
            stores.extend(stores_of(clsname, f, sc))
    return results, stores


def gen_site_table():
    results, stores = site_table()
    out = ["/- GENERATED by harness/extract_sites.py from dataiter/data_frame.py and dataiter/vector.py — do not edit. -/",
           "namespace DI.Gen", "",
           "/-- (class, method, yield|return, expression, provenance class) -/",
           "def resultSites : List (String × String × String × String × String) := ["]
    out.append(",\n".join(f"  ({lean_str(a)}, {lean_str(b)}, {lean_str(c)}, {lean_str(d)}, {lean_str(e)})" for a, b, c, d, e in results))
    out.append("]")
    out.append("")
    out.append("/-- (class, method, statement, provenance of the store target) -/")
    out.append("def storeSites : List (String × String × String × String) := [")
    out.append(",\n".join(f"  ({lean_str(a)}, {lean_str(b)}, {lean_str(c)}, {lean_str(d)})" for a, b, c, d in stores))
    out.append("]")
    out.append("")
    out.append("end DI.Gen")
    write_if_changed(os.path.join(GEN, "Sites.lean"), "\n".join(out) + "\n")
    return results, stores


if __name__ == "__main__":
    r, s = gen_site_table()
    for x in r:
        print("R", x)
    for x in s:
        print("W", x)

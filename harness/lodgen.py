# -*- coding: utf-8 -*-
"""Generators / codec for ListOfDicts cases (C15, C16, C17)."""

COMMON = ["a", "b"]          # present in every item (filter(k=v), sort, unique, joins need that)
RAGGED = ["c", "d", "e"]
INT_POOL = [None, 0, 1, 2, 3]
STR_POOL = [None, "x", "y", "z", "xy"]
KEY_TYPE = {"a": "int", "b": "str", "c": "int", "d": "str", "e": "int", "r": "int", "q": "str", "k": "int", "j": "int"}


def pool(key):
    return INT_POOL if KEY_TYPE.get(key, "int") == "int" else STR_POOL


def gen_dict(rng, none_frac=0.2):
    d = {}
    keys = list(COMMON)
    rng.shuffle(keys)
    extra = [k for k in RAGGED if rng.random() < 0.5]
    allk = keys + extra
    rng.shuffle(allk)
    for k in allk:
        p = pool(k)
        v = rng.choice(p[1:]) if rng.random() > none_frac else None
        d[k] = v
    return d


def gen_dicts(rng, n=None, max_n=8):
    if n is None:
        n = rng.choice([0, 1, 2, 3, 4, 5, rng.randint(0, max_n)])
    return [gen_dict(rng) for _ in range(n)]


class Tagger:
    """Identity tags for item objects (stable across a chain of calls)."""

    def __init__(self):
        self.tags = {}
        self.keep = []   # keep objects alive so ids are not reused

    def tag(self, obj):
        i = id(obj)
        if i not in self.tags:
            self.tags[i] = len(self.tags)
            self.keep.append(obj)
        return self.tags[i]

    def known(self, obj):
        return id(obj) in self.tags

    def state(self, lod):
        """[(tag, [[k, v], ...])] with insertion order of keys."""
        return [[self.tag(it), [[k, v] for k, v in it.items()]] for it in lod]


def model_value(v):
    """values as the model sees them: Python's == and hash identify 2, 2.0 and (for 1 / 0) True / False"""
    if isinstance(v, bool):
        return int(v)
    if isinstance(v, float) and v == int(v):
        return int(v)
    return v


def to_model_items(state):
    return [{"t": t, "kv": [[k, model_value(v)] for k, v in kv]} for t, kv in state]


def from_model_items(js):
    return [[it["t"], it["kv"]] for it in js]

/-
  Model/PyEvalLoDJoin.lean — the evaluator of `Model/PyEval.lean` extended (additively: a NEW evaluator `evalJE` / `evalJS`
  that falls back on `evalE` / `evalS` for every form it does not list) to the statement terms of the generator bodies of
  `ListOfDicts.left_join / inner_join / semi_join / anti_join` (`Generated/CodeC16.lean`, normal forms in
  `Proofs/TieC16.lean`) and `unique / select / rename` (`Generated/CodeC15.lean`, `Proofs/TieC15.lean`).

  Same values (`PVal`), store, environment, state (`St`) and control (`Ctl`) as `Model/PyEval.lean`.  What is new:

  * **dict values** (a dict display / comprehension, as opposed to a dict OBJECT of the store): the insertion-ordered
    association list of its `(key, value)` pairs, as a value `dictValP ps = tuple [tuple [k, v], …]` — the representation
    `Model/PyEval.lean` already uses for keyword dicts.  `{}` is the empty one.  A comprehension inserts its pairs in
    iteration order with Python's rule (`aset`: an existing key keeps its POSITION and takes the new value, a new key is
    appended) — so `{extract(x): x for x in reversed(other)}` ends with the FIRST item of `other` under each key.
    Keys must be hashable (`PVal.plain`: atoms and tuples of atoms).
  * `DictComp [pair [k, v], in [target, iterable, if [conds…]]]`, `ListComp [e, in [target, iterable, if [conds…]]]`: the
    iterable is evaluated in the enclosing environment, the target is bound afresh for every element (comprehension
    scope: nothing leaks), the conditions are tested left to right, `k` is evaluated before `v`.
  * A dict value used as a MAPPING is recognised syntactically (the translator inlines the local that holds it, so the
    comprehension stands where it is used): `In / NotIn [k, DictComp …]` (key test), `getitem [DictComp …, k]` (KeyError =
    `none`), `.get [DictComp …, k, default]`.  Every other `In / NotIn / getitem / .get` has the meaning of
    `Model/PyEval.lean`.
  * `item0 / item1 [._split_join_by [self, * [by]]]`: the two key-name lists of a join, computed as `_split_join_by` does
    (`Proofs/TieC16.lean`, `split_join_by_code`): an argument that is a string names the key on both sides, any other
    argument is read by position (`x[0]`, `x[1]`).
  * `set() [map [operator.itemgetter [* [keys]], xs]]`: the key values of all `xs` (a list of values represents the set:
    only membership is ever asked); `map [operator.itemgetter …, xs]` alone is that list.
  * **the bookkeeping set of `unique`**.  The translator inlines the initialiser of the local `found_ids = set()` at its
    uses, so in `.add [set() [], e]` and `NotIn [e, set() []]` the term `set() []` DENOTES THAT LOCAL.  Its contents are
    kept in the environment under the reserved name `"set()"` (not a Python identifier; unbound = empty, as the
    initialiser says): `.add [set() [], e]` appends the value of `e`, the expression `set() []` reads it.
  * `.update [x, y]` with `y` a dict value whose keys are strings and values atoms: merged into the OBJECT `x` in place
    (`LoD.Dict.update`: existing keys keep their position, new ones are appended); with `y` an object: as before.
  * **allocation**: `AttributeDict [e]` with `e` a dict value or any sequence of pairs (`zip [a, b]`) builds a NEW dict —
    `dict(pairs)` = `LoD.Dict.ofPairs` (first-occurrence order, last value).  The new object is not put into the store: the
    value of the expression is the dict ITSELF (`dictVal d`), so `yield AttributeDict(…)` yields the fresh dict by value
    and `run` returns the list of the newly built dicts.  (Identity of the new objects is therefore not modelled; the
    store only ever holds the objects that existed before the call.)
  * statements: `block`, `if`, `for`, `assign`, `yield`, `.update`, `.add` as above with `evalJE` for their expressions;
    every other statement is `evalS`.

  `runJ` = the yielded values in order and the final store.  `none` = unsupported term or Python raises.
-/
import Model.PyEval

namespace DI.PyEvalLoD

open DI DI.Py DI.LoD

/-! ### insertion-ordered association lists (Python dict semantics) -/

/-- `d[k] = v`: an existing key keeps its position, a new key is appended (`LoD.Dict.set` for any key type). -/
def aset {κ β : Type} [BEq κ] (d : List (κ × β)) (k : κ) (v : β) : List (κ × β) :=
  if d.any (fun p => p.1 == k) then d.map (fun p => if p.1 == k then (k, v) else p) else d ++ [(k, v)]

/-- `d.get(k)`. -/
def aget {κ β : Type} [BEq κ] (d : List (κ × β)) (k : κ) : Option β := (d.find? (fun p => p.1 == k)).map (·.2)

/-- the dict built by inserting the pairs in order. -/
def aofPairs {κ β : Type} [BEq κ] (ps : List (κ × β)) : List (κ × β) := ps.foldl (fun d p => aset d p.1 p.2) []

/-! ### dict values -/

def pairVal (p : PVal × PVal) : PVal := .tuple [p.1, p.2]

/-- a dict value: its pairs in insertion order. -/
def dictValP (ps : List (PVal × PVal)) : PVal := .tuple (ps.map pairVal)

/-- a dict with string keys and storable values, as a value. -/
def dictVal (d : LoD.Dict) : PVal := dictValP (d.map fun p => (PVal.str p.1, PVal.atom p.2))

def PVal.asPair : PVal → Option (PVal × PVal) | .tuple [k, v] => some (k, v) | _ => none

/-- a sequence of pairs. -/
def PVal.asPairs (v : PVal) : Option (List (PVal × PVal)) := v.asTuple.bind (allM PVal.asPair)

/-- a sequence of `(string, atom)` pairs: what can become the contents of a dict object. -/
def PVal.asKvs (v : PVal) : Option (List (String × LoD.Val)) :=
  v.asPairs.bind (allM fun p => p.1.asStr.bind fun k => p.2.asAtom.map fun a => (k, a))

/-- `k in d` for a dict value (TypeError on an unhashable key = `none`). -/
def dictHas (d : List (PVal × PVal)) (k : PVal) : Option Bool :=
  if k.plain then some (d.any (fun p => p.1 == k)) else none

/-- `d.get(k)` for a dict value: `some none` = absent. -/
def dictGet (d : List (PVal × PVal)) (k : PVal) : Option (Option PVal) :=
  if k.plain then some (aget d k) else none

/-- `_split_join_by`, side `i`: a string stands for itself, anything else is read at position `i`. -/
def splitBy (σ : Store) (i : Int) : PVal → Option PVal
  | .tuple vs => (allM (fun x => match x with | .atom (.s _) => some x | _ => getItem σ x (.atom (.i i))) vs).map .tuple
  | _ => none

/-- `zip(a, b)`. -/
def zipVal (a b : PVal) : Option PVal :=
  a.asTuple.bind fun la => b.asTuple.map fun lb => dictValP (la.zip lb)

/-- the elements of a comprehension: for every value the target is bound in the ENCLOSING environment, the condition is
    tested, and if it holds the element is computed. -/
def compLoop {α : Type} (bind : PVal → Env → Option Env) (cond : Env → Option Bool) (elt : Env → Option α) (ρ : Env) :
    List PVal → Option (List α)
  | [] => some []
  | v :: vs => (bind v ρ).bind fun ρ1 => (cond ρ1).bind fun c =>
      if c then (elt ρ1).bind fun a => (compLoop bind cond elt ρ vs).map fun as => a :: as
      else compLoop bind cond elt ρ vs

/-- the reserved name under which the contents of the local `found_ids = set()` are kept. -/
def seenName : String := "set()"

/-! ### expressions -/

mutual
/-- the value of an expression term. -/
def evalJE (F : Funs) : Term → Env → Store → Option PVal
  | .sym "{}", _, _ => some (.tuple [])
  | .app "set()" [], ρ, _ => some ((ρ.lookup seenName).getD (.tuple []))
  | .app "set()" [e], ρ, σ => (evalJE F e ρ σ).bind fun v => v.asTuple.map .tuple
  | .app "map" [.app "operator.itemgetter" [.app "*" [ks]], xs], ρ, σ =>
    (evalJE F ks ρ σ).bind fun vks => (evalJE F xs ρ σ).bind fun vxs => vxs.asTuple.bind fun l =>
      (allM (itemgetter σ vks) l).map .tuple
  | .app "item0" [.app "._split_join_by" [_, .app "*" [b]]], ρ, σ => (evalJE F b ρ σ).bind (splitBy σ 0)
  | .app "item1" [.app "._split_join_by" [_, .app "*" [b]]], ρ, σ => (evalJE F b ρ σ).bind (splitBy σ 1)
  | .app "call" [.app "operator.itemgetter" [.app "*" [ks]], x], ρ, σ =>
    (evalJE F ks ρ σ).bind fun vks => (evalJE F x ρ σ).bind fun vx => itemgetter σ vks vx
  | .app "DictComp" dc, ρ, σ => (evalJDC F dc ρ σ).map dictValP
  | .app "ListComp" [e, .app "in" [tgt, it, .app "if" conds]], ρ, σ =>
    (evalJE F it ρ σ).bind fun vi => vi.asTuple.bind fun vs =>
      (compLoop (bindTarget tgt) (fun ρ1 => evalJConds F conds ρ1 σ) (fun ρ1 => evalJE F e ρ1 σ) ρ vs).map .tuple
  | .app "In" [k, .app "DictComp" dc], ρ, σ =>
    (evalJE F k ρ σ).bind fun vk => (evalJDC F dc ρ σ).bind fun d => (dictHas d vk).map .bool
  | .app "NotIn" [k, .app "DictComp" dc], ρ, σ =>
    (evalJE F k ρ σ).bind fun vk => (evalJDC F dc ρ σ).bind fun d => (dictHas d vk).map (fun b => .bool !b)
  | .app "In" [k, x], ρ, σ =>
    (evalJE F k ρ σ).bind fun vk => (evalJE F x ρ σ).bind fun vx => (pyIn σ vk vx).map .bool
  | .app "NotIn" [k, x], ρ, σ =>
    (evalJE F k ρ σ).bind fun vk => (evalJE F x ρ σ).bind fun vx => (pyIn σ vk vx).map (fun b => .bool !b)
  | .app "getitem" [.app "DictComp" dc, k], ρ, σ =>
    (evalJDC F dc ρ σ).bind fun d => (evalJE F k ρ σ).bind fun vk => (dictGet d vk).bind id
  | .app ".get" [.app "DictComp" dc, k, dflt], ρ, σ =>
    (evalJDC F dc ρ σ).bind fun d => (evalJE F k ρ σ).bind fun vk => (evalJE F dflt ρ σ).bind fun vd =>
      (dictGet d vk).map fun r => r.getD vd
  | .app "zip" [a, b], ρ, σ => (evalJE F a ρ σ).bind fun va => (evalJE F b ρ σ).bind fun vb => zipVal va vb
  | .app "AttributeDict" [e], ρ, σ =>
    (evalJE F e ρ σ).bind fun v => v.asKvs.map fun d => dictVal (Dict.ofPairs d)
  | t, ρ, σ => evalE F t ρ σ
/-- the conditions of a comprehension clause: all must hold (tested left to right). -/
def evalJConds (F : Funs) : List Term → Env → Store → Option Bool
  | [], _, _ => some true
  | c :: cs, ρ, σ => (evalJE F c ρ σ).bind fun vc => (truthy σ vc).bind fun t => if t then evalJConds F cs ρ σ else some false
/-- the pairs of a dict comprehension `[pair [k, v], in [target, iterable, if conds]]`, inserted in iteration order. -/
def evalJDC (F : Funs) : List Term → Env → Store → Option (List (PVal × PVal))
  | [.app "pair" [ke, ve], .app "in" [tgt, it, .app "if" conds]], ρ, σ =>
    (evalJE F it ρ σ).bind fun vi => vi.asTuple.bind fun vs =>
      (compLoop (bindTarget tgt) (fun ρ1 => evalJConds F conds ρ1 σ)
        (fun ρ1 => (evalJE F ke ρ1 σ).bind fun vk => (evalJE F ve ρ1 σ).bind fun vv =>
          if vk.plain then some (vk, vv) else none) ρ vs).map aofPairs
  | _, _, _ => none
end

/-! ### statements -/

mutual
/-- one statement. -/
def evalJS (F : Funs) : Term → St → Option (Ctl × St)
  | .app "block" ss, s => evalJB F ss s
  | .app "if" [c, a, b], s =>
    (evalJE F c s.env s.store).bind fun vc => (truthy s.store vc).bind fun t => if t then evalJS F a s else evalJS F b s
  | .app "for" [tgt, it, body], s =>
    (evalJE F it s.env s.store).bind fun vi => vi.asTuple.bind fun vs =>
      (loopOver (evalJS F body) (bindTarget tgt) vs s).map fun s' => (Ctl.normal, s')
  | .app "assign" [.sym x, e], s =>
    (evalJE F e s.env s.store).map fun v => (Ctl.normal, { s with env := (x, v) :: s.env })
  | .app ".update" [x, y], s =>     -- `x.update(y)`: `y` a dict value or another dict object
    (evalJE F x s.env s.store).bind fun vx => (evalJE F y s.env s.store).bind fun vy =>
      vx.asRef.bind fun n => (s.store.lookup n).bind fun d =>
        (match vy with
         | .ref m => s.store.lookup m
         | v => v.asKvs).map fun o => (Ctl.normal, { s with store := s.store.set n (d.update o) })
  | .app ".add" [.app "set()" [], e], s =>     -- `found_ids.add(e)`
    (evalJE F e s.env s.store).bind fun v => ((s.env.lookup seenName).getD (.tuple [])).asTuple.bind fun l =>
      if v.plain then some (Ctl.normal, { s with env := (seenName, .tuple (l ++ [v])) :: s.env }) else none
  | .app "yield" [e], s =>
    (evalJE F e s.env s.store).map fun v => (Ctl.normal, { s with out := s.out ++ [v] })
  | t, s => evalS F t s
/-- a block: the statements in order; a `continue` skips the rest. -/
def evalJB (F : Funs) : List Term → St → Option (Ctl × St)
  | [], s => some (Ctl.normal, s)
  | t :: ts, s => (evalJS F t s).bind fun r => match r.1 with | .normal => evalJB F ts r.2 | .cont => some r
end

/-- run the effects of a generator body: the yielded values in order and the final store. -/
def runJ (F : Funs) (effs : List Term) (ρ : Env) (σ : Store) : Option (List PVal × Store) :=
  (evalJB F effs { env := ρ, store := σ, out := [] }).map fun r => (r.2.out, r.2.store)

end DI.PyEvalLoD

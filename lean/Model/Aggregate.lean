/-
  Model/Aggregate.lean — aggregation helpers (dataiter/aggregate.py, C07) over exact rationals.

  A numeric cell is `Option Rat` (`none` = NaN / NaT / the column's missing value).  Each helper
  exists in two separately written forms in the code: the *vector form* (`di.mean(vector)`, an
  explicit `... if len(x) >= k else default`) and the *group-wise form* (a closure run by
  `DataFrame.aggregate`: `yield_groups`, `generic(function)(..., default, nrequired)`, then
  `None -> default`).  Both are transcribed; `group_eq_vector` relates them.
-/
import Model.Basic

namespace DI.Agg

abbrev Num := Option Rat

/-- result of a helper. `missing` = NaN or the column's missing value; `sqrt q` = √q (std). -/
inductive Res where
  | val (q : Rat)
  | sqrt (q : Rat)
  | missing
  | bool (b : Bool)
  | nat (n : Nat)
  deriving Repr, DecidableEq, Inhabited

inductive Helper where
  | all | any | count | countUnique (naDistinct : Bool)
  | nth (index : Int)              -- first = nth 0, last = nth (-1)
  | min | max | mode | mean | median
  | quantile (q : Rat) | std (ddof : Nat) | var (ddof : Nat) | sum
  deriving Repr, DecidableEq

def hasNa (xs : List Num) : Bool := xs.any (·.isNone)

/-- `x[~x.is_na()]`. -/
def dropNa (xs : List Num) : List Num := xs.filter (·.isSome)

def values (xs : List Num) : List Rat := xs.filterMap id

def rsum (l : List Rat) : Rat := l.foldl (· + ·) 0

def sortRat (l : List Rat) : List Rat := l.mergeSort (fun a b => decide (a ≤ b))

/-! ### the NumPy / statistics functions on one group (missing values propagate) -/

def npSum (xs : List Num) : Res := if hasNa xs then .missing else .val (rsum (values xs))

/-- `np.mean`: only called on non-empty input. -/
def npMean (xs : List Num) : Res :=
  if hasNa xs then .missing else .val (rsum (values xs) / (values xs).length)

def variance (l : List Rat) (ddof : Nat) : Rat :=
  let m := rsum l / l.length
  rsum (l.map (fun x => (x - m) * (x - m))) / ((l.length : Rat) - ddof)

def npVar (ddof : Nat) (xs : List Num) : Res :=
  if hasNa xs then .missing else .val (variance (values xs) ddof)

def npStd (ddof : Nat) (xs : List Num) : Res :=
  if hasNa xs then .missing else .sqrt (variance (values xs) ddof)

def medianOf (l : List Rat) : Rat :=
  let s := sortRat l
  let n := s.length
  if n % 2 = 1 then s[n / 2]! else (s[n / 2 - 1]! + s[n / 2]!) / 2

def npMedian (xs : List Num) : Res := if hasNa xs then .missing else .val (medianOf (values xs))

/-- `np.quantile(x, q)` with the default linear interpolation at position `(n - 1) q`. -/
def quantileOf (l : List Rat) (q : Rat) : Rat :=
  let s := sortRat l
  let h := ((s.length : Rat) - 1) * q
  let lo := h.floor.toNat
  let frac := h - lo
  if lo + 1 < s.length then s[lo]! + frac * (s[lo + 1]! - s[lo]!) else s[lo]!

def npQuantile (q : Rat) (xs : List Num) : Res :=
  if hasNa xs then .missing else .val (quantileOf (values xs) q)

def npMin (xs : List Num) : Res :=
  if hasNa xs then .missing else
  match values xs with
  | [] => .missing
  | v :: vs => .val (vs.foldl (fun a b => if b < a then b else a) v)

def npMax (xs : List Num) : Res :=
  if hasNa xs then .missing else
  match values xs with
  | [] => .missing
  | v :: vs => .val (vs.foldl (fun a b => if a < b then b else a) v)

/-- `x.as_boolean()`: non-zero is true, NaN is true. -/
def truthy : Num → Bool
  | none => true
  | some q => q != 0

def npAll (xs : List Num) : Res := .bool (xs.all truthy)
def npAny (xs : List Num) : Res := .bool (xs.any truthy)

def ofNum : Num → Res
  | none => .missing
  | some q => .val q

/-- `x[index]` with Python's negative indices; `IndexError` gives the missing value. -/
def nthOf (xs : List Num) (index : Int) : Res :=
  if 0 ≤ index then (match xs[index.toNat]? with | some c => ofNum c | none => .missing)
  else if -(xs.length : Int) ≤ index then
    (match xs[(index + xs.length).toNat]? with | some c => ofNum c | none => .missing)
  else .missing

/-- first position of the maximum (`np.argmax`; `Counter.most_common(1)` after counting). -/
def firstArgmax (counts : List Nat) : Nat :=
  (counts.zipIdx.foldl (fun (acc : Nat × Nat) p => if p.1 > acc.1 then (p.1, p.2) else acc) (counts.headD 0, 0)).2

/-- `statistics.mode`: the first encountered of the most common values. -/
def modeOf (xs : List Num) : Res :=
  match xs with
  | [] => .missing
  | _ :: _ => ofNum xs[firstArgmax (xs.map (fun y => xs.count y))]!

/-- `len(set(x))`; NaN objects are pairwise distinct in a Python set (`naDistinct`), the missing
    value of other dtypes equals itself. -/
def countUniqueOf (naDistinct : Bool) (xs : List Num) : Nat :=
  let vs := (values xs).eraseDups.length
  let nas := (xs.filter (·.isNone)).length
  vs + (if naDistinct then nas else min nas 1)

/-! ### vector form: `di.<helper>(vector, ...)` as written -/

def handleNa (xs : List Num) (drop : Bool) : List Num := if drop then dropNa xs else xs

def vectorForm (h : Helper) (drop : Bool) (xs : List Num) : Res :=
  match h with
  | .all => npAll xs
  | .any => npAny xs
  | .count => .nat (handleNa xs drop).length
  | .countUnique d => .nat (countUniqueOf d (handleNa xs drop))
  | .nth i => nthOf (handleNa xs drop) i
  | .min => let x := handleNa xs drop; if x.length ≥ 1 then npMin x else .missing
  | .max => let x := handleNa xs drop; if x.length ≥ 1 then npMax x else .missing
  | .mode => let x := handleNa xs drop; if x.length ≥ 1 then modeOf x else .missing
  | .mean => let x := handleNa xs drop; if x.length ≥ 1 then npMean x else .missing
  | .median => let x := handleNa xs drop; if x.length ≥ 1 then npMedian x else .missing
  | .quantile q => let x := handleNa xs drop; if x.length ≥ 1 then npQuantile q x else .missing
  | .std d => let x := handleNa xs drop; if x.length ≥ 2 then npStd d x else .missing
  | .var d => let x := handleNa xs drop; if x.length ≥ 2 then npVar d x else .missing
  | .sum => npSum (handleNa xs drop)

/-! ### group-wise form -/

/-- `yield_groups(x, group, drop_na)`: consecutive chunks of `x` over runs of equal group ids
    (`x` and `group` have the same length). -/
def chunks : List Nat → List Num → List (List Num)
  | [], _ => []
  | _ :: _, [] => []
  | g :: gs, x :: xs =>
    match gs, chunks gs xs with
    | g' :: _, c :: cs => if g' = g then (x :: c) :: cs else [x] :: c :: cs
    | _, cs => [x] :: cs

/-- what the closure leaves in the list for one group: `none` stands for Python's `None`,
    which `DataFrame.aggregate` then replaces by `function.default`. -/
def kernel (h : Helper) (xg : List Num) : Option Res :=
  let generic (f : List Num → Res) (nreq : Nat) (default : Option Res) : Option Res :=
    if xg.length ≥ nreq then some (f xg) else default
  match h with
  | .all => generic npAll 0 (some (.bool true))
  | .any => generic npAny 0 (some (.bool false))
  | .count => generic (fun x => .nat x.length) 0 (some (.nat 0))
  | .countUnique d => some (.nat (countUniqueOf d xg))
  | .nth i => (match nthOf xg i with | .missing => none | r => some r)   -- `except IndexError: yield None`
  | .min => generic npMin 1 none
  | .max => generic npMax 1 none
  | .mode => if xg.length ≥ 1 then some (modeOf xg) else none
  | .mean => generic npMean 1 (some .missing)
  | .median => generic npMedian 1 (some .missing)
  | .quantile q => if xg.length ≥ 1 then some (npQuantile q xg) else some .missing
  | .std d => generic (npStd d) 2 (some .missing)
  | .var d => generic (npVar d) 2 (some .missing)
  | .sum => generic npSum 0 (some (.val 0))

/-- `aggregate.default`: what `None` is replaced with. -/
def defaultOf : Helper → Res
  | .all => .bool true
  | .any => .bool false
  | .count => .nat 0
  | .countUnique _ => .nat 0
  | .sum => .val 0
  | _ => .missing          -- np.nan or the column's missing value

def groupForm (h : Helper) (drop : Bool) (xs : List Num) (ids : List Nat) : List Res :=
  let dn := drop && hasNa xs                     -- `drop_na and data[x].is_na().any()`
  (chunks ids xs).map (fun xg =>
    match kernel h (handleNa xg dn) with
    | some r => r
    | none => defaultOf h)

end DI.Agg

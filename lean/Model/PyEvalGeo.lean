/-
  Model/PyEvalGeo.lean — a meaning for `GeoJSON.read`, `GeoJSON.write`, `GeoJSON._check_raw_data` and
  `GeoJSON._check_raw_feature` (dataiter/geojson.py, C18), as the source translator `harness/py2lean.py` emits them
  (`Generated/CodeC18.lean`; normal forms in `Proofs/TieC18.lean`).

  A small, total, computable big-step evaluator of exactly the expression / statement forms of the four terms.

  * JSON trees `Json`: `obj` (a dict / `AttributeDict`, members in insertion order), `arr` (a list), and `blob v`, a value
    the code does not look into, kept as its JSON text `v` — the way `Model/GeoJSON.lean` keeps every value: a scalar
    (`1`, `"x"`, `true`), `null` (`blob "null"` = Python `None`), and whatever the model treats as opaque (a geometry
    written from a frame).  `isinstance(value, (bool, int, float, str, NoneType))` is read as "`value` is a `blob`"
    (a list / dict property value has to be given structurally, as `arr` / `obj`, to be seen by the check).
  * the frame of `write` is `Frame`: the columns in dict order — the model's own `Convert.Col String` (a cell is a JSON
    text or missing), the `geometry` column among them, anywhere — and `self.metadata` (member name ↦ tree).
    `self.to_list_of_dicts()` is the model's `Convert.toRecords` (C13), a missing cell being `None` = `null`.
  * TRUSTED LINK (primitives, parameters of the evaluation, `Ctx`): `dumps` = `json.dumps(value, **kwargs)` on trees,
    `dumpsKey` = `json.dumps(key, ensure_ascii=…)` on member names; the reader starts from the tree `json.load(f,
    **kwargs)` returned (`Lemmas/PyEvalGeoRead.lean`, `loadFile`, defines it on written token streams from `loads` /
    `loadsKey`, assumed inverse to `dumps` / `dumpsKey`); `cast` = `DataFrameColumn(values, dtype)`.  The keyword
    arguments (`default`, `ensure_ascii`, …) live inside `dumps`; `indent` is `Ctx.indent` (`none` = not given: 2).
  * the file is the model's token stream `List Geo.Tok`: what `f.write` gets is lexed (`lex`: braces, brackets, colon,
    comma, a quoted member name; spaces and newlines vanish — so the indentation cannot matter), `json.dumps(value,
    **kwargs)` is ONE `Tok.blob`, `json.dumps(key, ensure_ascii=…)` ONE `Tok.str`.
  * objects are named by their defining TERM, because the translator inlines every assigned local into its uses:
    `Term.sym "{}"` (and, after the restriction, the `DictComp` term) is the local dict `data` (`Val.data`, contents in
    `Mem.data`), `AttributeDict(json.load(…))` is `raw` (`Mem.raw`), `with util.xopen(…)` is the open file; inside the
    checks the parameter `warned_feature_keys` is the one list created by `_check_raw_data` (`Mem.warned`).
    An inlined comprehension `data = {k: v for … if k in columns}` is EXECUTED ONCE, immediately before the first
    statement that mentions it (`evalEffs`; in the source nothing stands between the two).
  * the tests of the translated functions are answered by the evaluator itself on the entry state (`truthOf`); a test that
    RAISES (`data.type` on a tree without `type`: AttributeError) is answered `true`, which sends both checks into
    their `raise` branch (`Lemmas/PyEvalGeoRead.lean`, `check_test_true_raises`) — kinds of exceptions are not told apart.
  * method calls of the package go through `call` (`_check_raw_data` → the translated function, which calls the
    translated `_check_raw_feature`).  The class constants `FEATURE_KEYS`, `FEATURE_TYPES`, `TOP_LEVEL_TYPES`,
    `PROPERTY_TYPES` are read off the source (they are data, not code: not regenerated).
  * `set(feature) - set(cls.FEATURE_KEYS)` is iterated in member order (Python: unspecified; only WHICH keys are
    warned about is meaningful).  `print` appends the key to `Mem.log`.
  * `none` = a Python exception (TypeError / ValueError / AttributeError / KeyError) or an unsupported form.

  `Lemmas/PyEvalGeo.lean` (write) and `Lemmas/PyEvalGeoRead.lean` (checks, read, round trip) prove what these
  evaluations compute; `Proofs/EvalC18.lean` states it against
  `Model/GeoJSON.lean` and `Proofs/C18.lean`.
-/
import Model.PyCore
import Model.GeoJSON
import Model.Convert
import Generated.CodeC18

namespace DI.PyEvalGeo

open DI DI.Py DI.Geo DI.Convert

/-! ### JSON trees -/

inductive Json where
  | blob (v : String)                   -- a value kept as its JSON text
  | arr (xs : List Json)
  | obj (ms : List (String × Json))
  deriving Repr, Inhabited

mutual
def Json.decEq : (a b : Json) → Decidable (a = b)
  | .blob v, .blob w => if h : v = w then isTrue (h ▸ rfl) else isFalse (fun e => h (Json.blob.inj e))
  | .arr xs, .arr ys =>
    match Json.decEqList xs ys with
    | isTrue h => isTrue (h ▸ rfl)
    | isFalse h => isFalse (fun e => h (Json.arr.inj e))
  | .obj ms, .obj ns =>
    match Json.decEqMembers ms ns with
    | isTrue h => isTrue (h ▸ rfl)
    | isFalse h => isFalse (fun e => h (Json.obj.inj e))
  | .blob _, .arr _ => isFalse nofun
  | .blob _, .obj _ => isFalse nofun
  | .arr _, .blob _ => isFalse nofun
  | .arr _, .obj _ => isFalse nofun
  | .obj _, .blob _ => isFalse nofun
  | .obj _, .arr _ => isFalse nofun
def Json.decEqList : (a b : List Json) → Decidable (a = b)
  | [], [] => isTrue rfl
  | [], _ :: _ => isFalse nofun
  | _ :: _, [] => isFalse nofun
  | a :: as, b :: bs =>
    match Json.decEq a b, Json.decEqList as bs with
    | isTrue h, isTrue h' => isTrue (h ▸ h' ▸ rfl)
    | isFalse h, _ => isFalse (fun e => h (List.cons.inj e).1)
    | _, isFalse h => isFalse (fun e => h (List.cons.inj e).2)
def Json.decEqMembers : (a b : List (String × Json)) → Decidable (a = b)
  | [], [] => isTrue rfl
  | [], _ :: _ => isFalse nofun
  | _ :: _, [] => isFalse nofun
  | (k, v) :: as, (l, w) :: bs =>
    if hk : k = l then
      match Json.decEq v w, Json.decEqMembers as bs with
      | isTrue h, isTrue h' => isTrue (hk ▸ h ▸ h' ▸ rfl)
      | isFalse h, _ => isFalse (fun e => h (Prod.mk.inj (List.cons.inj e).1).2)
      | _, isFalse h => isFalse (fun e => h (List.cons.inj e).2)
    else isFalse (fun e => hk (Prod.mk.inj (List.cons.inj e).1).1)
end

instance : DecidableEq Json := Json.decEq

/-- the JSON text of `null` (Python `None`). -/
def nullText : String := "null"

/-- the JSON text of a plain string (no character that needs escaping). -/
def quote (s : String) : String := "\"" ++ s ++ "\""

/-- `d[k]` / `d.k` on a dict: the first member of that name (a dict has one). -/
def Json.get? : Json → String → Option Json
  | .obj ms, k => Read.lookup ms k
  | _, _ => none

def Json.isScalar : Json → Bool
  | .blob _ => true
  | _ => false

/-! ### dicts (insertion ordered) -/

abbrev Dict (α : Type) := List (String × α)

def Dict.has {α : Type} (d : Dict α) (k : String) : Bool := d.any (fun p => p.1 == k)

/-- `d[k] = v`: an existing key keeps its position, a new key goes last. -/
def Dict.set {α : Type} (d : Dict α) (k : String) (v : α) : Dict α :=
  if d.has k then d.map (fun p => if p.1 == k then (k, v) else p) else d ++ [(k, v)]

/-- `d.setdefault(k, v)`. -/
def Dict.setdefault {α : Type} (d : Dict α) (k : String) (v : α) : Dict α := if d.has k then d else d ++ [(k, v)]

/-- `del d[k]` (of a present key). -/
def Dict.del {α : Type} (d : Dict α) (k : String) : Dict α := d.filter (fun p => p.1 != k)

/-! ### the frame of `write`, the primitives, the arguments -/

structure Frame where
  cols : List (Col String)              -- the columns in dict order (the geometry column among them)
  metadata : List (String × Json)       -- `self.metadata`

def Frame.nrow (F : Frame) : Nat :=
  match F.cols with
  | [] => 0
  | c :: _ => c.2.length

/-- a cell as `json.dumps` sees it: a missing value is `None` = `null`. -/
def cellJson : Option String → Json
  | some v => .blob v
  | none => .blob nullText

/-- `self.to_list_of_dicts()`: the model's `toRecords`, every row a dict. -/
def Frame.rows (F : Frame) : List Json :=
  (toRecords F.cols F.nrow).map (fun r => Json.obj (r.map (fun p => (p.1, cellJson p.2))))

structure Ctx where
  dumps : Json → String                                        -- `json.dumps(value, **kwargs)`
  dumpsKey : String → String                                   -- `json.dumps(key, ensure_ascii=kwargs["ensure_ascii"])`
  cast : String → List (Option Json) → List (Option Json)      -- `DataFrameColumn(values, dtype)`
  frame : Frame                                                -- `self` (write)
  indent : Option Int                                          -- the caller's `indent=` (write); `none` = not given
  columns : List String                                        -- `columns=` (read)
  dtypes : List (String × String)                              -- `dtypes=` (read): column name ↦ dtype

/-! ### values -/

inductive Val where
  | none
  | int (i : Int)
  | bool (b : Bool)
  | str (cs : List Char)                 -- a str built from source literals (`'{\n'`, `' ' * n`)
  | key (s : String)                     -- a str that is data: a member / property / column / dtype name
  | name (s : String)                    -- `json.dumps(<key>, ensure_ascii=…)`: a JSON string token
  | blob (s : String)                    -- `json.dumps(<value>, **kwargs)`: a JSON value as text
  | toks (ts : List Tok)                 -- an f-string, lexed
  | json (j : Json)                      -- a dict / list / scalar / None that came from or goes to JSON
  | items (ps : List (String × Json))    -- `dict.items()`
  | sitems (ps : List (String × String)) -- `dtypes.items()`
  | enum (xs : List Json)                -- `enumerate(list)`
  | keys (ks : List String)              -- a list / set of names
  | texts (ts : List String)             -- a list of str, each by its JSON text (the class constants of types)
  | cells (xs : List (Option Json))      -- a list of cells (`none` = the `None` that `.get(key, None)` fell back to)
  | dtypes (ps : List (String × String))
  | data | warned | file | cls | self | kwargs | frame
  deriving Repr, Inhabited

abbrev Env := List (String × Val)

/-- everything but the local names. -/
structure Mem where
  raw : Json                              -- `raw = AttributeDict(json.load(f, **kwargs))`
  data : Dict (List (Option Json))        -- the local dict `data`
  warned : List String                    -- `warned_feature_keys`
  out : List Tok                          -- the text written to the file
  log : List String                       -- the keys `print` warned about
  metadata : Option (Dict Json)           -- `data.metadata = raw`
  deriving Repr

structure St where
  env : Env
  mem : Mem
  deriving Repr

def Mem.init (raw : Json) : Mem := { raw := raw, data := [], warned := [], out := [], log := [], metadata := none }

/-! ### source literals and the lexer -/

/-- the characters of a quoted literal body: `\n` is a newline; another backslash or a quote is not supported. -/
def unescape : List Char → Option (List Char)
  | [] => some []
  | '\\' :: 'n' :: r => (unescape r).map ('\n' :: ·)
  | '\\' :: _ => none
  | '\'' :: _ => none
  | c :: r => (unescape r).map (c :: ·)

/-- a quoted source literal `'…'`. -/
def literal? (x : String) : Option (List Char) :=
  match x.toList with
  | '\'' :: rest => if rest.getLast? = some '\'' then unescape rest.dropLast else none
  | _ => none

/-- the JSON tokens of a text the writer emits itself: structural characters, a quoted string without escapes (the
    quotes stay part of the token, as in `Tok.str`); spaces and newlines separate tokens.  State: `none` = between
    tokens, `some acc` = inside a string (characters so far, reversed). -/
def lexGo : Option (List Char) → List Char → Option (List Tok)
  | none, [] => some []
  | some _, [] => none
  | none, ' ' :: r => lexGo none r
  | none, '\n' :: r => lexGo none r
  | none, '{' :: r => (lexGo none r).map (Tok.lbrace :: ·)
  | none, '}' :: r => (lexGo none r).map (Tok.rbrace :: ·)
  | none, '[' :: r => (lexGo none r).map (Tok.lbrack :: ·)
  | none, ']' :: r => (lexGo none r).map (Tok.rbrack :: ·)
  | none, ':' :: r => (lexGo none r).map (Tok.colon :: ·)
  | none, ',' :: r => (lexGo none r).map (Tok.comma :: ·)
  | none, '"' :: r => lexGo (some []) r
  | none, _ :: _ => none
  | some acc, '"' :: r => (lexGo none r).map (Tok.str (String.ofList ('"' :: (acc.reverse ++ ['"']))) :: ·)
  | some _, '\\' :: _ => none
  | some acc, c :: r => lexGo (some (c :: acc)) r

def lex (cs : List Char) : Option (List Tok) := lexGo none cs

/-! ### helpers on values -/

def Val.asKey : Val → Option String
  | .key s => some s
  | .str cs => some (String.ofList cs)
  | _ => Option.none

def Val.asCell : Val → Option (Option Json)
  | .none => some Option.none
  | .json j => some (some j)
  | _ => Option.none

/-- a value as `json.dumps` sees it. -/
def Val.toJson : Val → Option Json
  | .json j => some j
  | .none => some (.blob nullText)
  | .str cs => some (.blob (quote (String.ofList cs)))
  | _ => Option.none

/-- what a value contributes to the text written: a lexed literal, one name token, one blob token. -/
def Val.toToks : Val → Option (List Tok)
  | .str cs => lex cs
  | .name s => some [Tok.str s]
  | .blob s => some [Tok.blob s]
  | .toks ts => some ts
  | _ => Option.none

def truthy : Val → Bool
  | .none => false
  | .int i => i != 0
  | .bool b => b
  | .str cs => !cs.isEmpty
  | .keys ks => !ks.isEmpty
  | .cells xs => !xs.isEmpty
  | _ => true

def attr (name : String) : Val → Option Val
  | .json j => (j.get? name).map Val.json
  | _ => Option.none

def itemsOf : Val → Option Val
  | .json (.obj ms) => some (.items ms)
  | .dtypes ps => some (.sitems ps)
  | _ => Option.none

/-- `a in b`. -/
def pyIn (ctx : Ctx) (m : Mem) : Val → Val → Option Bool
  | .json (.blob t), .texts ts => some (ts.contains t)
  | .json _, .texts _ => some false
  | a, .keys ks => a.asKey.map fun k => ks.contains k
  | a, .self => a.asKey.map fun k => Dict.has ctx.frame.cols k
  | a, .warned => a.asKey.map fun k => m.warned.contains k
  | _, _ => Option.none

/-- `f` on every element, all must succeed. -/
def allM {α β : Type} (f : α → Option β) : List α → Option (List β)
  | [] => some []
  | a :: as => (f a).bind (fun b => (allM f as).map (fun bs => b :: bs))

/-- what a `for x in …` iterates over. -/
def iterOf (m : Mem) : Val → Option (List Val)
  | .json (.arr xs) => some (xs.map Val.json)
  | .json (.obj ms) => some (ms.map (fun p => Val.key p.1))
  | .keys ks => some (ks.map Val.key)
  | .data => some (m.data.map (fun p => Val.key p.1))
  | _ => Option.none

def enumFrom (i : Nat) : List Json → List (Val × Val)
  | [] => []
  | x :: xs => (Val.int i, Val.json x) :: enumFrom (i + 1) xs

/-- what a `for a, b in …` iterates over. -/
def iterPairs : Val → Option (List (Val × Val))
  | .items ps => some (ps.map fun p => (Val.key p.1, Val.json p.2))
  | .sitems ps => some (ps.map fun p => (Val.key p.1, Val.key p.2))
  | .enum xs => some (enumFrom 0 xs)
  | _ => Option.none

/-- `s * n`. -/
def strMul (cs : List Char) (n : Int) : List Char := (List.replicate n.toNat cs).flatten

/-! ### expressions (no effect on the memory) -/

mutual
def evalE (ctx : Ctx) : Term → St → Option Val
  | .int i, _ => some (.int i)
  | .sym "None", _ => some .none
  | .sym "{}", _ => some .data
  | .sym "self", _ => some .self
  | .sym "cls", _ => some .cls
  | .sym "kwargs", _ => some .kwargs
  | .sym "columns", _ => some (.keys ctx.columns)
  | .sym "dtypes", _ => some (.dtypes ctx.dtypes)
  | .sym x, s => match literal? x with | some cs => some (.str cs) | Option.none => s.env.lookup x
  | .app "DictComp" _, _ => some .data
  | .app "with" _, _ => some .file
  | .app "list" [], _ => some (.cells [])
  | .app "AttributeDict" [.app "json.load" _], s => some (.json s.mem.raw)
  | .app ".features" [e], s => (evalE ctx e s).bind (attr "features")
  | .app ".properties" [e], s => (evalE ctx e s).bind (attr "properties")
  | .app ".geometry" [e], s => (evalE ctx e s).bind (attr "geometry")
  | .app ".type" [e], s => (evalE ctx e s).bind (attr "type")
  | .app ".metadata" [.sym "self"], _ => some (.json (.obj ctx.frame.metadata))
  | .app ".to_list_of_dicts" [.sym "self"], _ => some (.json (.arr ctx.frame.rows))
  | .app ".items" [e], s => (evalE ctx e s).bind itemsOf
  | .app "enumerate" [e], s =>
    (evalE ctx e s).bind fun v => match v with | .json (.arr xs) => some (.enum xs) | _ => Option.none
  | .app "len" [e], s =>
    (evalE ctx e s).bind fun v => match v with | .json (.arr xs) => some (.int xs.length) | _ => Option.none
  | .app "Sub" [a, b], s =>
    (evalE ctx a s).bind fun va => (evalE ctx b s).bind fun vb => match va, vb with
      | .int p, .int q => some (.int (p - q))
      | .keys p, .keys q => some (.keys (p.filter (fun k => !q.contains k)))
      | _, _ => Option.none
  | .app "Lt" [a, b], s =>
    (evalE ctx a s).bind fun va => (evalE ctx b s).bind fun vb => match va, vb with
      | .int p, .int q => some (.bool (decide (p < q)))
      | _, _ => Option.none
  | .app "Mult" [a, b], s =>
    (evalE ctx a s).bind fun va => (evalE ctx b s).bind fun vb => match va, vb with
      | .str p, .int q => some (.str (strMul p q))
      | _, _ => Option.none
  | .app "Or" [a, b], s => (evalE ctx a s).bind fun va => if truthy va then some va else evalE ctx b s
  | .app ".pop" [.sym "kwargs", .sym "'indent'", .int 2], _ => some (.int (ctx.indent.getD 2))
  | .app "ifexp" [c, a, b], s => (evalE ctx c s).bind fun vc => if truthy vc then evalE ctx a s else evalE ctx b s
  | .app "In" [a, b], s =>
    (evalE ctx a s).bind fun va => (evalE ctx b s).bind fun vb => (pyIn ctx s.mem va vb).map Val.bool
  | .app "NotIn" [a, b], s =>
    (evalE ctx a s).bind fun va => (evalE ctx b s).bind fun vb => (pyIn ctx s.mem va vb).map (fun r => Val.bool !r)
  | .app "format" [e, _, _], s => (evalE ctx e s).bind fun v => v.toToks.map Val.toks
  | .app "fstring" parts, s => (evalFmt ctx parts s).map Val.toks
  | .app "json.dumps" [e, .app "=**" [.sym "kwargs"]], s =>
    (evalE ctx e s).bind fun v => v.toJson.map fun j => .blob (ctx.dumps j)
  | .app "json.dumps" [e, .app "=ensure_ascii" _], s =>
    (evalE ctx e s).bind fun v => match v with | .key k => some (.name (ctx.dumpsKey k)) | _ => Option.none
  | .app "dict" pairs, s => (evalPairs ctx pairs s).map fun ms => .json (.obj ms)
  | .app ".get" [d, k, dflt], s =>
    (evalE ctx d s).bind fun vd => (evalE ctx k s).bind fun vk => (evalE ctx dflt s).bind fun vdf =>
      match vd, vk.asKey with
      | .json (.obj ms), some key => some (match Read.lookup ms key with | some j => .json j | Option.none => vdf)
      | _, _ => Option.none
  | .app "ListComp" [body, .app "in" [.sym x, it, .app "if" []]], s =>
    (evalE ctx it s).bind fun vi => (iterOf s.mem vi).bind fun vs =>
      (allM (fun v => (evalE ctx body { s with env := (x, v) :: s.env }).bind Val.asCell) vs).map Val.cells
  | .app "getitem" [d, k], s =>
    (evalE ctx d s).bind fun vd => (evalE ctx k s).bind fun vk => match vd, vk.asKey with
      | .data, some key => (Read.lookup s.mem.data key).map Val.cells
      | _, _ => Option.none
  | .app "set()" [e], s =>
    (evalE ctx e s).bind fun v => match v with
      | .json (.obj ms) => some (.keys (ms.map (·.1)))
      | .keys ks => some (.keys ks)
      | _ => Option.none
  | .app ".FEATURE_KEYS" [.sym "cls"], _ => some (.keys ["type", "properties", "geometry"])
  | .app ".FEATURE_TYPES" [.sym "cls"], _ => some (.texts [quote "Feature"])
  | .app ".TOP_LEVEL_TYPES" [.sym "cls"], _ => some (.texts [quote "FeatureCollection"])
  | .app "isinstance" [e, .app "tuple()" [.app ".PROPERTY_TYPES" [.sym "cls"]]], s =>
    (evalE ctx e s).bind fun v => match v with | .json j => some (.bool j.isScalar) | _ => Option.none
  | .app "DataFrameColumn" [c, d], s =>
    (evalE ctx c s).bind fun vc => (evalE ctx d s).bind fun vd => match vc, vd.asKey with
      | .cells xs, some dt => some (.cells (ctx.cast dt xs))
      | _, _ => Option.none
  | .app "cls" [.app "=**" [d]], s =>
    (evalE ctx d s).bind fun vd => match vd with | .data => some .frame | _ => Option.none
  | _, _ => Option.none
/-- the parts of an f-string, lexed and concatenated. -/
def evalFmt (ctx : Ctx) : List Term → St → Option (List Tok)
  | [], _ => some []
  | t :: ts, s => (evalE ctx t s).bind fun v => v.toToks.bind fun a => (evalFmt ctx ts s).map (a ++ ·)
/-- the members of a dict display. -/
def evalPairs (ctx : Ctx) : List Term → St → Option (List (String × Json))
  | [], _ => some []
  | .app "pair" [k, v] :: ts, s =>
    (evalE ctx k s).bind fun vk => vk.asKey.bind fun key => (evalE ctx v s).bind fun vv => vv.toJson.bind fun j =>
      (evalPairs ctx ts s).map ((key, j) :: ·)
  | _, _ => Option.none
end

/-! ### statements -/

/-- how a statement ended: normally, or with a `continue` that the enclosing loop consumes. -/
inductive Ctl where
  | normal
  | cont
  deriving DecidableEq, Repr

/-- the loop over already evaluated values: bind the target, run the body, next value. -/
def loopOver {α : Type} (body : St → Option (Ctl × St)) (bind : α → Env → Env) : List α → St → Option St
  | [], s => some s
  | v :: vs, s => (body { s with env := bind v s.env }).bind fun r => loopOver body bind vs r.2

def bind1 (x : String) (v : Val) (ρ : Env) : Env := (x, v) :: ρ
def bind2 (a b : String) (v : Val × Val) (ρ : Env) : Env := (b, v.2) :: (a, v.1) :: ρ

mutual
def evalS (ctx : Ctx) (call : String → List Val → Mem → Option Mem) : Term → St → Option (Ctl × St)
  | .app "block" ss, s => evalB ctx call ss s
  | .sym "continue", s => some (Ctl.cont, s)
  | .app "if" [c, a, b], s =>
    (evalE ctx c s).bind fun vc => if truthy vc then evalS ctx call a s else evalS ctx call b s
  | .app "for" [.sym x, it, body], s =>
    (evalE ctx it s).bind fun vi => (iterOf s.mem vi).bind fun vs =>
      (loopOver (evalS ctx call body) (bind1 x) vs s).map fun s' => (Ctl.normal, s')
  | .app "for" [.sym x, it, body, _], s =>
    (evalE ctx it s).bind fun vi => (iterOf s.mem vi).bind fun vs =>
      (loopOver (evalS ctx call body) (bind1 x) vs s).map fun s' => (Ctl.normal, s')
  | .app "for" [.app "tuple" [.sym a, .sym b], it, body], s =>
    (evalE ctx it s).bind fun vi => (iterPairs vi).bind fun vs =>
      (loopOver (evalS ctx call body) (bind2 a b) vs s).map fun s' => (Ctl.normal, s')
  | .app "for" [.app "tuple" [.sym a, .sym b], it, body, _], s =>
    (evalE ctx it s).bind fun vi => (iterPairs vi).bind fun vs =>
      (loopOver (evalS ctx call body) (bind2 a b) vs s).map fun s' => (Ctl.normal, s')
  | .app "assign" [.sym x, .app ".pop" [.sym d, k]], s =>          -- `x = d.pop(k)`: KeyError on a missing key
    (evalE ctx k s).bind fun vk => vk.asKey.bind fun key => match s.env.lookup d with
      | some (.json (.obj ms)) =>
        (Read.lookup ms key).map fun j =>
          (Ctl.normal, { s with env := (x, .json j) :: (d, .json (.obj (Dict.del ms key))) :: s.env })
      | _ => Option.none
  | .app "assign" [.sym x, e], s => (evalE ctx e s).map fun v => (Ctl.normal, { s with env := (x, v) :: s.env })
  | .app ".setdefault" [.sym "kwargs", _, _], s => some (Ctl.normal, s)       -- the keyword arguments live in `dumps`
  | .app ".setdefault" [d, k, .app "list" []], s =>
    (evalE ctx d s).bind fun vd => (evalE ctx k s).bind fun vk => match vd, vk.asKey with
      | .data, some key => some (Ctl.normal, { s with mem := { s.mem with data := Dict.setdefault s.mem.data key [] } })
      | _, _ => Option.none
  | .app ".append" [.app "getitem" [d, k], e], s =>
    (evalE ctx d s).bind fun vd => (evalE ctx k s).bind fun vk => (evalE ctx e s).bind fun ve =>
      match vd, vk.asKey, ve.asCell with
      | .data, some key, some c =>
        (Read.lookup s.mem.data key).map fun xs =>
          (Ctl.normal, { s with mem := { s.mem with data := Dict.set s.mem.data key (xs ++ [c]) } })
      | _, _, _ => Option.none
  | .app ".append" [.sym w, e], s =>
    (evalE ctx e s).bind fun ve => match s.env.lookup w, ve.asKey with
      | some .warned, some k => some (Ctl.normal, { s with mem := { s.mem with warned := s.mem.warned ++ [k] } })
      | _, _ => Option.none
  | .app "store" [.app "getitem" [d, k], e], s =>
    (evalE ctx d s).bind fun vd => (evalE ctx k s).bind fun vk => (evalE ctx e s).bind fun ve =>
      match vd, vk.asKey, ve with
      | .data, some key, .cells xs => some (Ctl.normal, { s with mem := { s.mem with data := Dict.set s.mem.data key xs } })
      | _, _, _ => Option.none
  | .app "del" [.app ".features" [r]], s =>                        -- `del raw.features`: AttributeError if there is none
    (evalE ctx r s).bind fun vr => match vr, s.mem.raw with
      | .json _, .obj ms =>
        if Dict.has ms "features" then some (Ctl.normal, { s with mem := { s.mem with raw := .obj (Dict.del ms "features") } })
        else Option.none
      | _, _ => Option.none
  | .app "setattr" [_, .sym "metadata", r], s =>
    (evalE ctx r s).bind fun vr => match vr with
      | .json (.obj ms) => some (Ctl.normal, { s with mem := { s.mem with metadata := some ms } })
      | _ => Option.none
  | .app "with" [.app "util.xopen" [_, .sym m, _]], s =>           -- a text mode "w…" truncates the file
    some (Ctl.normal, if m == "'wt'" then { s with mem := { s.mem with out := [] } } else s)
  | .app "util.makedirs_for_file" _, s => some (Ctl.normal, s)
  | .app ".write" [f, e], s =>
    (evalE ctx f s).bind fun vf => (evalE ctx e s).bind fun ve => match vf with
      | .file => ve.toToks.map fun ts => (Ctl.normal, { s with mem := { s.mem with out := s.mem.out ++ ts } })
      | _ => Option.none
  | .app "print" [.app "fstring" [_, .app "format" [e, _, _]]], s =>
    (evalE ctx e s).bind fun ve => ve.asKey.map fun k => (Ctl.normal, { s with mem := { s.mem with log := s.mem.log ++ [k] } })
  | .app "raise" _, _ => Option.none
  | .app f args, s =>                                               -- a method of the package
    (allM (fun t => evalE ctx t s) args).bind fun vs => (call f vs s.mem).map fun m => (Ctl.normal, { s with mem := m })
  | _, _ => Option.none
/-- a block: the statements in order; a `continue` skips the rest. -/
def evalB (ctx : Ctx) (call : String → List Val → Mem → Option Mem) : List Term → St → Option (Ctl × St)
  | [], s => some (Ctl.normal, s)
  | t :: ts, s => (evalS ctx call t s).bind fun r => match r.1 with | .normal => evalB ctx call ts r.2 | .cont => some r
end

/-! ### inlined comprehensions -/

mutual
/-- the first `DictComp` node of a term. -/
def findComp : Term → Option Term
  | .app "DictComp" args => some (.app "DictComp" args)
  | .app _ args => findCompList args
  | _ => Option.none
def findCompList : List Term → Option Term
  | [] => Option.none
  | t :: ts => match findComp t with | some c => some c | Option.none => findCompList ts
end

/-- `{ke: ve for k, v in data.items() if cond}` over the entries of `data`. -/
def compLoop (ctx : Ctx) (ke ve cond : Term) (k v : String) (s : St) :
    List (String × List (Option Json)) → Option (Dict (List (Option Json)))
  | [] => some []
  | p :: ps =>
    let s' : St := { s with env := (v, .cells p.2) :: (k, .key p.1) :: s.env }
    (evalE ctx cond s').bind fun vc => (compLoop ctx ke ve cond k v s ps).bind fun rest =>
      if truthy vc then
        (evalE ctx ke s').bind fun vk => vk.asKey.bind fun key => (evalE ctx ve s').bind fun vv =>
          match vv with | .cells xs => some ((key, xs) :: rest) | _ => Option.none
      else some rest

/-- `data = {k: v for k, v in data.items() if …}`. -/
def evalComp (ctx : Ctx) : Term → St → Option St
  | .app "DictComp" [.app "pair" [ke, ve], .app "in" [.app "tuple" [.sym k, .sym v], .app ".items" [src], .app "if" [cond]]], s =>
    (evalE ctx src s).bind fun vs => match vs with
      | .data => (compLoop ctx ke ve cond k v s s.mem.data).map fun d => { s with mem := { s.mem with data := d } }
      | _ => Option.none
  | _, _ => Option.none

/-- the effect statements of a translated function, in order (a `continue` cannot occur at this level); `done` = the
    inlined comprehension has been executed. -/
def evalEffs (ctx : Ctx) (call : String → List Val → Mem → Option Mem) : Bool → List Term → St → Option St
  | _, [], s => some s
  | done, t :: ts, s =>
    match (if done then Option.none else findComp t) with
    | some c => (evalComp ctx c s).bind fun s1 => (evalS ctx call t s1).bind fun r => evalEffs ctx call true ts r.2
    | Option.none => (evalS ctx call t s).bind fun r => evalEffs ctx call done ts r.2

/-! ### the four functions -/

/-- the answer to a test of a translated function in state `s` (a test that raises: `true`, see the header). -/
def truthOf (ctx : Ctx) (s : St) (t : Term) : Bool :=
  match evalE ctx t s with
  | some v => truthy v
  | Option.none => true

def noCall : String → List Val → Mem → Option Mem := fun _ _ _ => Option.none

/-- `cls._check_raw_feature(feature, warned_feature_keys)`. -/
def evalCheckFeature (ctx : Ctx) (feature : Json) (m : Mem) : Option Mem :=
  let s : St := ⟨[("feature", .json feature), ("warned_feature_keys", .warned)], m⟩
  match DI.Gen.GeoJSON_check_raw_feature (truthOf ctx s) with
  | .fall effs => (evalEffs ctx noCall false effs s).map (·.mem)
  | _ => Option.none

def callFeature (ctx : Ctx) : String → List Val → Mem → Option Mem
  | "._check_raw_feature", [.cls, .json f, _], m => evalCheckFeature ctx f m
  | _, _, _ => Option.none

/-- `cls._check_raw_data(data)`; `warned_feature_keys = []` is created here. -/
def evalCheckData (ctx : Ctx) (data : Json) (m : Mem) : Option Mem :=
  let s : St := ⟨[("data", .json data)], { m with warned := [] }⟩
  match DI.Gen.GeoJSON_check_raw_data (truthOf ctx s) with
  | .fall effs => (evalEffs ctx (callFeature ctx) false effs s).map (·.mem)
  | _ => Option.none

def callData (ctx : Ctx) : String → List Val → Mem → Option Mem
  | "._check_raw_data", [.cls, .json d], m => evalCheckData ctx d m
  | _, _, _ => Option.none

/-- what `GeoJSON.read` returns. -/
structure ReadResult where
  cols : Dict (List (Option Json))      -- `cls(**data)`: the columns in dict order, the geometry column among them
  metadata : Dict Json                  -- `data.metadata`
  log : List String                     -- the feature keys warned about
  deriving Repr, DecidableEq

/-- `GeoJSON.read(path, columns=…, dtypes=…)`, `file` being what `json.load(f, **kwargs)` returned (a dict, or
    `AttributeDict(…)` raises). -/
def evalRead (ctx : Ctx) (file : Json) : Option ReadResult :=
  match file with
  | .obj _ =>
    let s : St := ⟨[], Mem.init file⟩
    match DI.Gen.GeoJSON_read (truthOf ctx s) with
    | .ret effs t =>
      (evalEffs ctx (callData ctx) false effs s).bind fun s' => (evalE ctx t s').bind fun v =>
        match v with
        | .frame => s'.mem.metadata.map fun md => ⟨s'.mem.data, md, s'.mem.log⟩
        | _ => Option.none
    | _ => Option.none
  | _ => Option.none

/-- `self.write(path, **kwargs)`: the tokens of the text in the file. -/
def evalWrite (ctx : Ctx) : Option (List Tok) :=
  let s : St := ⟨[], Mem.init (.blob nullText)⟩
  match DI.Gen.GeoJSON_write (truthOf ctx s) with
  | .fall effs => (evalEffs ctx noCall false effs s).map (·.mem.out)
  | _ => Option.none

end DI.PyEvalGeo

/-
  Model/DtRegex.lean — element-wise lifting in dataiter/dt.py and dataiter/regex.py (C19).
  `datetime` / `re` functions are parameters `f`; `none` is NaT / the missing string.
-/
namespace DI.DtRe

/-- NumPy boolean-mask assignment `out[mask] = vals` on optional values. -/
def putMask {β : Type} : List Bool → List (Option β) → List β → List (Option β)
  | [], _, _ => []
  | _ :: _, [], _ => []
  | m :: ms, o :: os, vs =>
    match m, vs with
    | true, v :: vs' => some v :: putMask ms os vs'
    | true, [] => o :: putMask ms os []
    | false, _ => o :: putMask ms os vs

/-- `_pull_datetime` / `_pull_str` / the value part of `_pull_int`:
    `out = full(NA)`; `na = isnat(x)`; `if na.all(): return out`;
    `out[~na] = vectorize(f)(x[~na])`. -/
def pull {δ β : Type} (f : δ → β) (xs : List (Option δ)) : List (Option β) :=
  let out : List (Option β) := xs.map (fun _ => none)
  let na := xs.map (·.isNone)
  if na.all id then out
  else putMask (na.map (!·)) out ((xs.filterMap id).map f)

/-- `_pull_int`: `return out if na.any() else out.as_integer()` (after the `na.all()` early
    return, which hands back the float vector): is the result an integer vector? -/
def pullIntIsInteger {δ : Type} (xs : List (Option δ)) : Bool :=
  let na := xs.map (·.isNone)
  if na.all id then false else !na.any id

/-- `quarter`: `y = ceil(month(x) / 3)`; `return y if isnan(y).any() else y.astype(int)`. -/
def quarterIsInteger {δ : Type} (xs : List (Option δ)) : Bool :=
  !(xs.map (·.isNone)).any id

/-- one component of `dt.replace`: a scalar, or a vector with one value per element. -/
inductive Comp (γ : Type) where
  | scalar (v : γ)
  | vector (vs : List γ)

def Comp.at {γ : Type} [Inhabited γ] (c : Comp γ) (i : Nat) : γ :=
  match c with
  | .scalar v => v
  | .vector vs => vs[i]!

/-- `dt.replace`: all-scalar components go through `_pull_datetime`; otherwise the loop over
    `flatnonzero(~na)` picks the i-th value of every vector component. `repl y kw` stands for
    `y.replace(**kw)`. -/
def replace {δ γ : Type} [Inhabited γ] (repl : δ → List (String × γ) → δ) (xs : List (Option δ))
    (comps : List (String × Comp γ)) : List (Option δ) :=
  if comps.all (fun c => match c.2 with | .scalar _ => true | .vector _ => false) then
    pull (fun y => repl y (comps.map (fun c => (c.1, c.2.at 0)))) xs
  else
    xs.zipIdx.map (fun (x, i) => x.map (fun y => repl y (comps.map (fun c => (c.1, c.2.at i)))))

/-- regex functions: `out = full(default)`; `for i in flatnonzero(~na): out[i] = re.f(pattern, string[i])`. -/
def regexMap {β : Type} (f : String → β) (xs : List (Option String)) : List (Option β) :=
  xs.map (fun x => x.map f)

/-- `quarter`: `ceil(month / 3)` in exact arithmetic. -/
def quarterOf (month : Nat) : Nat := (month + 2) / 3

/-- scalar arguments: `x = Vector([x]); return f(x)[0]`. -/
def scalarCall {δ β : Type} (g : List (Option δ) → List (Option β)) (x : Option δ) : Option β :=
  ((g [x])[0]?).join

end DI.DtRe

/-
  Model/PyEvalRender.lean — a meaning for the table renderer `DataFrame.to_string` (C20) as the source translator
  `harness/py2lean.py` emits it (`Generated/CodeC20.lean`: `DataFrame_to_string`).

      if not self: return ""
      max_rows = max_rows or dataiter.PRINT_MAX_ROWS
      max_width = max_width or util.get_print_width()
      truncate_width = truncate_width or dataiter.PRINT_TRUNCATE_WIDTH
      n = min(self.nrow, max_rows)
      columns = {colname: util.upad([colname] + [str(column.dtype_label)] +
                    [str(x) for x in column[:n].to_strings(quote=False, pad=True, truncate_width=truncate_width)])
                 for colname, column in self.items()}
      for column in columns.values():
          column.insert(2, "─" * util.ulen(column[0]))
      row_numbers = [str(i) for i in range(n)]
      row_numbers = util.upad(["", "", ""] + row_numbers)
      rows_to_print = []
      while columns:
          first = next(iter(columns.keys()))
          batch_rows = [" ".join(x) for x in zip(row_numbers, columns.pop(first))]
          for colname, column in list(columns.items()):
              width = util.ulen(batch_rows[0] + column[0]) + 1
              if width > max_width: break
              for i in range(len(column)):
                  batch_rows[i] += " "
                  batch_rows[i] += column[i]
              del columns[colname]
          rows_to_print.append("" if rows_to_print else ".")
          rows_to_print += batch_rows
      rows_to_print.append(".")
      if max_rows < self.nrow:
          rows_to_print.append(f"... {self.nrow} rows total")
      return "\n".join(rows_to_print)

  INPUTS (the arguments `St.args`): `self` = a frame (`Val.frame nrow cols`, `cols : List Render.Col` = per column its
  name, `str(column.dtype_label)` and THE LIST OF ALREADY FORMATTED CELL STRINGS that
  `column[:n].to_strings(quote=False, pad=True, truncate_width=…)` returns for the actual `n` / truncate width — the
  per-dtype formatting is not evaluated here, as in `Model/Render.lean` and in the harness); `max_rows`, `max_width`,
  `truncate_width` (`None` or an integer); the module settings `dataiter.PRINT_MAX_ROWS`, `dataiter.PRINT_TRUNCATE_WIDTH`
  and the value of the call `util.get_print_width()` (bound under that text).  `w : Char → Int` is `wcwidth.wcwidth`.
  `util.ulen` / `util.upad` are CALLS of the translated helpers with the meaning of `Model/PyEvalWidth.lean`
  (`callUlen`, `evalUpad … "right"`).

  OBJECTS.  The translator inlines a local into its uses, so a local that holds a MUTABLE object occurs as the term that
  created it; such a term DENOTES THAT ONE OBJECT (the convention of `Model/PyEvalLoDAgg.lean`):
    * the `DictComp` term = the dict `columns` (`St.dict`; created by its first evaluation — `evalX` —, later occurrences
      are references `Val.dictRef`): an insertion-ordered association list name ↦ list of strings; `.pop`, `del d[k]`,
      `.keys`, `.items`, `.values`, truth value;
    * `list []` = the list `rows_to_print` (`St.rows`, initially empty, reference `Val.rowsRef`): `.append`, `+=` (in
      place), truth value, `"\n".join`.
  Everything else is a value (strings, lists of strings, integers): `row_numbers`, `n`, `max_width` are never mutated, so
  re-evaluating their terms gives the same value.  `batch_rows`, `column`, `first`, `colname`, `width`, `i`,
  `rows_to_print` are real names (`St.env`); `batch_rows[i] += …` is `store`.  `for column in columns.values()` binds
  `column` to an ALIAS of the entry's list: what the body does to it in place (`column.insert`) is written back to the
  entry (`valuesLoop`).  `for … in list(columns.items())` iterates a SNAPSHOT, so `del columns[colname]` in the body is
  harmless (as in Python).

  `while` is kept whole by the translator (`stmt [while [cond, body]]`): `whileLoop` gives it a FUELLED meaning (`none` when
  the fuel runs out); `Lemmas/PyEvalRender.lean` proves `number of columns + 1` always suffices (every iteration pops one).
  `none` = unsupported form or a Python exception (IndexError of `batch_rows[i]`, KeyError, StopIteration, TypeError).
  The two branch tests of the translated body (`not self`, `max_rows < self.nrow`) are answered by evaluating the test
  term on the arguments (`truthOf`).
-/
import Model.PyCore
import Model.Render
import Model.PyEvalWidth
import Generated.CodeC20

namespace DI.PyEvalRender

open DI DI.Py

abbrev Str := List Char

/-! ### values and state -/

inductive Val where
  | none
  | int (i : Int)
  | bool (b : Bool)
  | str (s : Str)
  | strs (xs : List Str)              -- a list / tuple of strings, by value
  | strss (xs : List (List Str))      -- `zip(...)`: a list of tuples of strings
  | ints (l : List Int)               -- a `range`
  | col (c : Render.Col)              -- a column vector of the frame: label + formatted cells
  | frame (nrow : Int) (cols : List Render.Col)
  | rowsRef                           -- the list object that `list []` denotes (`rows_to_print`)
  | dictRef                           -- the dict object that the `DictComp` term created (`columns`)
  deriving Inhabited

abbrev Env := List (String × Val)
abbrev Dict := List (Str × List Str)

structure St where
  args : Env                -- the arguments and module settings: never assigned
  env : Env                 -- the locals assigned by statements (latest binding first)
  dict : Option Dict        -- the dict `columns` (`none`: not created yet)
  rows : List Str           -- the list `rows_to_print`

/-- a name: an argument / module setting (these are never assigned in the translated body — the translator's
    single-assignment `let`s —, so they are looked up first) or a local. -/
def St.lookup (s : St) (x : String) : Option Val :=
  match s.args.lookup x with
  | some v => some v
  | Option.none => s.env.lookup x

def St.bind (s : St) (x : String) (v : Val) : St := { s with env := (x, v) :: s.env }

/-- Python truth value. -/
def truthy (v : Val) (s : St) : Bool :=
  match v with
  | .none => false
  | .int i => i != 0
  | .bool b => b
  | .str x => !x.isEmpty
  | .strs xs => !xs.isEmpty
  | .strss xs => !xs.isEmpty
  | .ints l => !l.isEmpty
  | .col _ => true
  | .frame _ cols => !cols.isEmpty          -- a DataFrame is a dict of its columns
  | .rowsRef => !s.rows.isEmpty
  | .dictRef => match s.dict with | some d => !d.isEmpty | Option.none => false

/-- `str(i)`. -/
def intStr (i : Int) : Str := if i < 0 then '-' :: Nat.toDigits 10 i.natAbs else Nat.toDigits 10 i.toNat

/-- `sep.join(xs)`. -/
def pyJoin (sep : Str) (xs : List Str) : Str := (xs.intersperse sep).flatten

/-- the position `seq[i]` reads (negative indices count from the end); IndexError = `none`. -/
def pyIdx (len : Nat) (i : Int) : Option Nat :=
  if 0 ≤ i then (if i < len then some i.toNat else Option.none)
  else (if 0 ≤ i + len then some (i + len).toNat else Option.none)

/-- `xs.insert(i, v)`: the index is clipped to the list. -/
def pyInsert (xs : List Str) (i : Int) (v : Str) : List Str :=
  let k : Nat := (if i < 0 then pmax (i + xs.length) 0 else i).toNat
  xs.take k ++ v :: xs.drop k

/-- `d[k] = v`: an existing key keeps its position. -/
def dictSet (d : Dict) (k : Str) (v : List Str) : Dict :=
  if d.any (fun p => p.1 == k) then d.map (fun p => if p.1 == k then (k, v) else p) else d ++ [(k, v)]

/-- `del d[k]`. -/
def eraseKey : Dict → Str → Dict
  | [], _ => []
  | p :: ps, k => if p.1 == k then ps else p :: eraseKey ps k

/-- what iterating over a value yields. -/
def iterOf : Val → Option (List Val)
  | .strs xs => some (xs.map Val.str)
  | .strss xs => some (xs.map Val.strs)
  | .ints l => some (l.map Val.int)
  | _ => Option.none

/-- `f` on every element; every result must be a string. -/
def allStr {α : Type} (f : α → Option Val) : List α → Option (List Str)
  | [] => some []
  | a :: as => (f a).bind fun v => match v with
    | .str x => (allStr f as).map (fun xs => x :: xs)
    | _ => Option.none

/-- `ulen(s)` / `upad(xs)`: the translated helpers, meaning of `Model/PyEvalWidth.lean`. -/
def callUlen (w : Char → Int) (s : Str) : Option Int := DI.PyEvalWidth.callUlen w s
def callUpad (w : Char → Int) (xs : List Str) : Option (List Str) :=
  DI.PyEvalWidth.evalUpad (fun _ => false) w xs ['r', 'i', 'g', 'h', 't']

/-! ### pure expressions (read the state, do not change it) -/

mutual
def evalP (w : Char → Int) : Term → St → Option Val
  | .int i, _ => some (.int i)
  | .sym "None", _ => some .none
  | .sym "True", _ => some (.bool true)
  | .sym "False", _ => some (.bool false)
  | .sym "'\\n'", _ => some (.str ['\n'])
  | .sym x, s => match DI.PyEvalWidth.literal? x with | some l => some (.str l) | Option.none => s.lookup x
  | .app "Or" [a, b], s => (evalP w a s).bind fun va => if truthy va s then some va else evalP w b s
  | .app "util.get_print_width" [], s => s.lookup "util.get_print_width()"
  | .app "min" [a, b], s =>
    (evalP w a s).bind fun va => (evalP w b s).bind fun vb => match va, vb with
      | .int p, .int q => some (.int (pmin p q)) | _, _ => Option.none
  | .app ".nrow" [e], s => (evalP w e s).bind fun v => match v with | .frame n _ => some (.int n) | _ => Option.none
  | .app ".dtype_label" [e], s =>
    (evalP w e s).bind fun v => match v with | .col c => some (.str c.label) | _ => Option.none
  | .app "str" [e], s =>
    (evalP w e s).bind fun v => match v with
      | .str x => some (.str x) | .int i => some (.str (intStr i)) | _ => Option.none
  | .app "format" [e, .sym "", _], s =>            -- `{e}` in an f-string, no format spec
    (evalP w e s).bind fun v => match v with
      | .str x => some (.str x) | .int i => some (.str (intStr i)) | _ => Option.none
  | .app "fstring" ps, s => (evalPs w ps s).map fun xs => .str xs.flatten
  | .app "list" [], _ => some .rowsRef
  | .app "list" (e :: es), s => (evalPs w (e :: es) s).map Val.strs
  | .app "DictComp" _, s => if s.dict.isSome then some .dictRef else Option.none
  | .app ".to_strings" [.app "getitem" [c, .app "slice" [.sym "None", n]], .app "=quote" [.sym "False"],
      .app "=pad" [.sym "True"], .app "=truncate_width" [t]], s =>
    (evalP w c s).bind fun vc => (evalP w n s).bind fun vn => (evalP w t s).bind fun vt => match vc, vn, vt with
      | .col c, .int _, .int _ => some (.strs c.cells) | _, _, _ => Option.none
  | .app "Add" [a, b], s =>
    (evalP w a s).bind fun va => (evalP w b s).bind fun vb => match va, vb with
      | .str p, .str q => some (.str (p ++ q)) | .strs p, .strs q => some (.strs (p ++ q))
      | .int p, .int q => some (.int (p + q)) | _, _ => Option.none
  | .app "Add=" [a, b], s =>
    (evalP w a s).bind fun va => (evalP w b s).bind fun vb => match va, vb with
      | .str p, .str q => some (.str (p ++ q)) | .int p, .int q => some (.int (p + q)) | _, _ => Option.none
  | .app "Mult" [a, b], s =>
    (evalP w a s).bind fun va => (evalP w b s).bind fun vb => match va, vb with
      | .str p, .int q => some (.str (DI.PyEvalWidth.strMul p q)) | _, _ => Option.none
  | .app "util.ulen" [e], s =>
    (evalP w e s).bind fun v => match v with | .str x => (callUlen w x).map Val.int | _ => Option.none
  | .app "util.upad" [e], s =>
    (evalP w e s).bind fun v => match v with | .strs xs => (callUpad w xs).map Val.strs | _ => Option.none
  | .app "getitem" [e, i], s =>
    (evalP w e s).bind fun ve => (evalP w i s).bind fun vi => match ve, vi with
      | .strs xs, .int k => (pyIdx xs.length k).bind fun j => xs[j]?.map Val.str
      | _, _ => Option.none
  | .app "range" [e], s => (evalP w e s).bind fun v => match v with | .int n => some (.ints (arange 0 n)) | _ => Option.none
  | .app "len" [e], s => (evalP w e s).bind fun v => match v with | .strs xs => some (.int xs.length) | _ => Option.none
  | .app "zip" [a, b], s =>
    (evalP w a s).bind fun va => (evalP w b s).bind fun vb => match va, vb with
      | .strs p, .strs q => some (.strss (List.zipWith (fun x y => [x, y]) p q)) | _, _ => Option.none
  | .app ".join" [sep, e], s =>
    (evalP w sep s).bind fun vs => (evalP w e s).bind fun ve => match vs, ve with
      | .str p, .strs xs => some (.str (pyJoin p xs))
      | .str p, .rowsRef => some (.str (pyJoin p s.rows))
      | _, _ => Option.none
  | .app "ListComp" [body, .app "in" [.sym x, it, .app "if" []]], s =>
    (evalP w it s).bind fun vi => (iterOf vi).bind fun vs =>
      (allStr (fun v => evalP w body (s.bind x v)) vs).map Val.strs
  | .app "ifexp" [c, a, b], s => (evalP w c s).bind fun vc => if truthy vc s then evalP w a s else evalP w b s
  | .app "Gt" [a, b], s =>
    (evalP w a s).bind fun va => (evalP w b s).bind fun vb => match va, vb with
      | .int p, .int q => some (.bool (decide (p > q))) | _, _ => Option.none
  | .app "Lt" [a, b], s =>
    (evalP w a s).bind fun va => (evalP w b s).bind fun vb => match va, vb with
      | .int p, .int q => some (.bool (decide (p < q))) | _, _ => Option.none
  | .app "value-after-loop" [.sym x, _], s => s.lookup x
  | .app ".keys" [d], s =>
    (evalP w d s).bind fun v => match v, s.dict with
      | .dictRef, some dd => some (.strs (dd.map (·.1))) | _, _ => Option.none
  | .app "iter" [e], s => evalP w e s
  | .app "next" [e], s =>
    (evalP w e s).bind fun v => match v with | .strs (x :: _) => some (.str x) | _ => Option.none   -- StopIteration
  | _, _ => Option.none
def evalPs (w : Char → Int) : List Term → St → Option (List Str)
  | [], _ => some []
  | t :: ts, s => (evalP w t s).bind fun v => match v with
    | .str x => (evalPs w ts s).map (fun xs => x :: xs)
    | _ => Option.none
end

/-! ### expressions with an effect: creating the dict, `.pop`, `+=` on the list object -/

/-- `{k: v for a, b in frame.items()}` entry by entry. -/
def buildDict (f : Render.Col → Option (Str × List Str)) : List Render.Col → Dict → Option Dict
  | [], d => some d
  | c :: cs, d => (f c).bind fun kv => buildDict f cs (dictSet d kv.1 kv.2)

def evalX (w : Char → Int) : Term → St → Option (Val × St)
  | .app "DictComp" [.app "pair" [k, v], .app "in" [.app "tuple" [.sym a, .sym b], .app ".items" [e], .app "if" []]], s =>
    match s.dict with
    | some _ => some (.dictRef, s)
    | Option.none =>
      (evalP w e s).bind fun ve => match ve with
        | .frame _ cols =>
          (buildDict (fun c =>
              let s' := (s.bind a (.str c.name)).bind b (.col c)
              (evalP w k s').bind fun vk => (evalP w v s').bind fun vv => match vk, vv with
                | .str kk, .strs xs => some (kk, xs) | _, _ => Option.none) cols []).map
            fun d => (Val.dictRef, { s with dict := some d })
        | _ => Option.none
  | .app ".pop" [d, k], s =>
    (evalX w d s).bind fun r => (evalP w k r.2).bind fun vk => match r.1, vk, r.2.dict with
      | .dictRef, .str kk, some dd =>
        (dd.lookup kk).map fun c => (Val.strs c, { r.2 with dict := some (eraseKey dd kk) })      -- KeyError
      | _, _, _ => Option.none
  | .app "zip" [a, b], s =>
    (evalX w a s).bind fun ra => (evalX w b ra.2).bind fun rb => match ra.1, rb.1 with
      | .strs p, .strs q => some (.strss (List.zipWith (fun x y => [x, y]) p q), rb.2) | _, _ => Option.none
  | .app "ListComp" [body, .app "in" [.sym x, it, .app "if" []]], s =>
    (evalX w it s).bind fun r => (iterOf r.1).bind fun vs =>
      (allStr (fun v => evalP w body (r.2.bind x v)) vs).map fun xs => (Val.strs xs, r.2)
  | .app "Add=" [a, b], s =>
    match evalP w a s with
    | some .rowsRef =>
      (evalP w b s).bind fun vb => match vb with
        | .strs xs => some (Val.rowsRef, { s with rows := s.rows ++ xs }) | _ => Option.none
    | _ => (evalP w (.app "Add=" [a, b]) s).map fun v => (v, s)
  | t, s => (evalP w t s).map fun v => (v, s)

/-! ### statements -/

/-- how a statement ended. -/
inductive Ctl where
  | normal
  | brk
  deriving DecidableEq, Repr

/-- `for x in <these values>: body`; `pre` binds the loop variable(s). -/
def loopOver {α : Type} (body : St → Option (Ctl × St)) (pre : α → St → St) : List α → St → Option St
  | [], s => some s
  | a :: as, s =>
    (body (pre a s)).bind fun r =>
      match r.1 with
      | .normal => loopOver body pre as r.2
      | .brk => some r.2

/-- `for v in d.values(): body`: `v` is an alias of the entry's list — the value `v` holds after the body is the entry's
    new content (`done` = the entries already visited). -/
def valuesLoop (body : St → Option (Ctl × St)) (v : String) : Dict → Dict → St → Option St
  | _, [], s => some s
  | done, (k, c) :: rest, s =>
    (body (s.bind v (.strs c))).bind fun r =>
      match r.2.env.lookup v with
      | some (.strs c') =>
        let s' : St := { r.2 with dict := some (done ++ (k, c') :: rest) }
        match r.1 with
        | .normal => valuesLoop body v (done ++ [(k, c')]) rest s'
        | .brk => some s'
      | _ => Option.none

/-- `while cond: body` with `fuel` iterations allowed; `none` when they do not suffice. -/
def whileLoop (cond : St → Option Bool) (body : St → Option (Ctl × St)) : Nat → St → Option St
  | 0, _ => Option.none
  | fuel + 1, s =>
    (cond s).bind fun b =>
      if b then
        (body s).bind fun r => match r.1 with
          | .normal => whileLoop cond body fuel r.2
          | .brk => some r.2
      else some s

mutual
def evalS (w : Char → Int) (fuel : Nat) : Term → St → Option (Ctl × St)
  | .sym "break", s => some (Ctl.brk, s)
  | .app "block" ss, s => evalB w fuel ss s
  | .app "stmt" [t], s => evalS w fuel t s
  | .app "if" [c, a, b], s =>
    (evalP w c s).bind fun vc => if truthy vc s then evalS w fuel a s else evalS w fuel b s
  | .app "for" [.sym v, .app ".values" [d], body], s =>
    (evalX w d s).bind fun r => match r.1, r.2.dict with
      | .dictRef, some dd => (valuesLoop (evalS w fuel body) v [] dd r.2).map fun s' => (Ctl.normal, s')
      | _, _ => Option.none
  | .app "for" [.app "tuple" [.sym a, .sym b], .app "list()" [.app ".items" [d]], body], s =>
    (evalP w d s).bind fun vd => match vd, s.dict with
      | .dictRef, some dd =>
        (loopOver (evalS w fuel body) (fun (p : Str × List Str) st => (st.bind a (.str p.1)).bind b (.strs p.2)) dd s).map
          fun s' => (Ctl.normal, s')
      | _, _ => Option.none
  | .app "for" [.sym v, it, body], s =>
    (evalP w it s).bind fun vi => (iterOf vi).bind fun vs =>
      (loopOver (evalS w fuel body) (fun x st => st.bind v x) vs s).map fun s' => (Ctl.normal, s')
  | .app "while" [c, body], s =>
    (whileLoop (fun st => (evalP w c st).map fun v => truthy v st) (evalS w fuel body) fuel s).map
      fun s' => (Ctl.normal, s')
  | .app "assign" [.sym x, e], s => (evalX w e s).map fun r => (Ctl.normal, r.2.bind x r.1)
  | .app "store" [.app "getitem" [.sym x, i], e], s =>
    (evalP w e s).bind fun ve => (evalP w i s).bind fun vi => match s.lookup x, vi, ve with
      | some (.strs xs), .int k, .str v =>
        (pyIdx xs.length k).map fun j => (Ctl.normal, s.bind x (.strs (xs.set j v)))      -- IndexError
      | _, _, _ => Option.none
  | .app ".insert" [.sym x, i, e], s =>
    (evalP w i s).bind fun vi => (evalP w e s).bind fun ve => match s.lookup x, vi, ve with
      | some (.strs xs), .int k, .str v => some (Ctl.normal, s.bind x (.strs (pyInsert xs k v)))
      | _, _, _ => Option.none
  | .app "del" [.app "getitem" [d, k]], s =>
    (evalP w d s).bind fun vd => (evalP w k s).bind fun vk => match vd, vk, s.dict with
      | .dictRef, .str kk, some dd =>
        (dd.lookup kk).map fun _ => (Ctl.normal, { s with dict := some (eraseKey dd kk) })   -- KeyError
      | _, _, _ => Option.none
  | .app ".append" [t, e], s =>
    (evalP w t s).bind fun vt => (evalP w e s).bind fun ve => match vt, ve with
      | .rowsRef, .str v => some (Ctl.normal, { s with rows := s.rows ++ [v] })
      | _, _ => Option.none
  | _, _ => Option.none
def evalB (w : Char → Int) (fuel : Nat) : List Term → St → Option (Ctl × St)
  | [], s => some (Ctl.normal, s)
  | t :: ts, s => (evalS w fuel t s).bind fun r => match r.1 with | .normal => evalB w fuel ts r.2 | .brk => some r
end

/-- the value a translated body returns. -/
def runOut (w : Char → Int) (fuel : Nat) : Out → St → Option Val
  | .ret effs t, s =>
    (evalB w fuel effs s).bind fun r => match r.1 with
      | .normal => evalP w t r.2
      | .brk => Option.none
  | _, _ => Option.none

/-- a branch test of the translated body, answered on the arguments. -/
def truthOf (w : Char → Int) (s : St) (t : Term) : Bool :=
  match evalP w t s with
  | some v => truthy v s
  | Option.none => false

/-! ### DataFrame.to_string -/

/-- `None` or an integer argument. -/
def optArg : Option Int → Val
  | Option.none => .none
  | some i => .int i

/-- the arguments of a call `self.to_string(max_rows=…, max_width=…, truncate_width=…)`; `dRows`, `dTrunc`, `dWidth` are
    `dataiter.PRINT_MAX_ROWS`, `dataiter.PRINT_TRUNCATE_WIDTH` and the value of `util.get_print_width()`. -/
def toStringArgs (nrow : Nat) (cols : List Render.Col) (maxRows maxWidth truncWidth : Option Int)
    (dRows dWidth dTrunc : Int) : Env :=
  [("self", .frame nrow cols), ("max_rows", optArg maxRows), ("max_width", optArg maxWidth),
   ("truncate_width", optArg truncWidth), ("dataiter.PRINT_MAX_ROWS", .int dRows),
   ("util.get_print_width()", .int dWidth), ("dataiter.PRINT_TRUNCATE_WIDTH", .int dTrunc)]

def initSt (args : Env) : St := { args := args, env := [], dict := Option.none, rows := [] }

/-- **`DataFrame.to_string`**: the regenerated body evaluated on the arguments, the block loop with `fuel` iterations. -/
def evalToString (w : Char → Int) (fuel : Nat) (args : Env) : Option Str :=
  match runOut w fuel (DI.Gen.DataFrame_to_string (truthOf w (initSt args))) (initSt args) with
  | some (.str r) => some r
  | _ => Option.none

end DI.PyEvalRender

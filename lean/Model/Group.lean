/-
  Model/Group.lean — grouping (C04) and joins (C05) of dataiter/data_frame.py at row-id level.
-/
import Model.Frame

namespace DI

/-! ### C04: grouping -/

/-- `np.split(arr, starts[1:])`: consecutive chunks of `arr` beginning at the given start
    positions (`starts` is increasing and begins with 0 when non-empty; an empty `starts`
    yields the single chunk `arr`). -/
def splitAt (arr : List Nat) (starts : List Nat) : List (List Nat) :=
  match starts with
  | [] => [arr]
  | _ :: rest =>
    let bounds := rest ++ [arr.length]
    let rec go (prev : Nat) : List Nat → List (List Nat)
      | [] => []
      | b :: bs => ((arr.drop prev).take (b - prev)) :: go b bs
    go 0 bounds

/-- group key columns sorted ascending: the `sort_key` of `dir = 1`. -/
def groupSortIdx (n : Nat) (keys : List (ColKind × List Cell)) : List Nat :=
  dfSortIdx n (keys.map (fun k => (k.1, false, k.2)))

/-- `aggregate` / `split`:
    `data = self.sort(keys asc)`; `stat = data.unique(keys)`; `np.split(index, starts[1:])`.
    Returns the groups as lists of *original* row ids. -/
def groupsOf (n : Nat) (keys : List (ColKind × List Cell)) : List (List Nat) :=
  let order := groupSortIdx n keys                         -- sorted frame: row j = original order[j]
  let sortedCols := keys.map (fun k => gather k.2 order)
  let starts := uniqueIdx n sortedCols                     -- first row of each key combination
  splitAt order starts

/-- grouped `modify`: `restore = argsort(concatenate(slices))`; the value computed for group g,
    position p, is placed at `concatenate(values)[restore]`.  We return for every original row
    the pair (group number, position within the group) it receives its value from. -/
def modifyPlan (n : Nat) (keys : List (ColKind × List Cell)) : List (Nat × Nat) :=
  let groups := groupsOf n keys
  let flat := groups.flatten
  let tags := (groups.zipIdx.map (fun (g, gi) => (List.range g.length).map (fun p => (gi, p)))).flatten
  let restore := argsort (fun (a b : Nat) => a ≤ b) flat
  gather tags restore

/-- contiguous-run scan of `yield_groups(x, group, drop_na)` (aggregate.py): chunks of positions
    with equal consecutive group ids. -/
def runsOf : List Nat → List (List Nat)
  | [] => []
  | g :: gs =>
    let rec go (cur : Nat) (acc : List Nat) (i : Nat) : List Nat → List (List Nat)
      | [] => [acc.reverse]
      | h :: t => if h = cur then go cur (i :: acc) (i + 1) t
                  else acc.reverse :: go h [i] (i + 1) t
    go g [0] 1 gs

/-! ### C05: joins -/

/-- `other.drop_na(*by2).unique(*by2)` as original right row ids. -/
def rightReduced (m : Nat) (rkeys : List (List Cell)) (dropNa : Bool) : List Nat :=
  let kept := if dropNa then dropNaIdx m rkeys else List.range m
  let cols := rkeys.map (fun c => gather c kept)
  gather kept (uniqueIdx kept.length cols)

/-- `_get_join_indices`: `other_by_id = {ids[i]: i}` (later index wins), `src = get(id, -1)`.
    Result: for every left row the *original* right row id it is joined with. -/
def joinSrc (n : Nat) (lkeys : List (List Cell)) (m : Nat) (rkeys : List (List Cell))
    (dropNa : Bool := true) : List (Option Nat) :=
  let red := rightReduced m rkeys dropNa
  let rrows := rowsOf red.length (rkeys.map (fun c => gather c red))
  let lrows := rowsOf n lkeys
  lrows.map (fun r =>
    -- dict built front to back: the last equal key wins
    match (rrows.zipIdx.reverse.find? (fun p => p.1 == r)) with
    | some p => some red[p.2]!
    | none => none)

def leftJoinPairs (n : Nat) (lkeys : List (List Cell)) (m : Nat) (rkeys : List (List Cell)) :
    List (Option Nat × Option Nat) :=
  (joinSrc n lkeys m rkeys).zipIdx.map (fun (s, i) => (some i, s))

def innerJoinPairs (n : Nat) (lkeys : List (List Cell)) (m : Nat) (rkeys : List (List Cell)) :
    List (Option Nat × Option Nat) :=
  (leftJoinPairs n lkeys m rkeys).filter (fun p => p.2.isSome)

def semiJoinIdx (n : Nat) (lkeys : List (List Cell)) (m : Nat) (rkeys : List (List Cell)) :
    List Nat :=
  ((joinSrc n lkeys m rkeys).zipIdx.filter (fun p => p.1.isSome)).map (·.2)

def antiJoinIdx (n : Nat) (lkeys : List (List Cell)) (m : Nat) (rkeys : List (List Cell)) :
    List Nat :=
  ((joinSrc n lkeys m rkeys).zipIdx.filter (fun p => p.1.isNone)).map (·.2)

/-- NA-last `≤` on optional row ids (the float `_aid_` / `_bid_` columns). -/
def leOptNat : Option Nat → Option Nat → Bool
  | _, none => true
  | none, some _ => false
  | some a, some b => a ≤ b

/-- `full_join` as written: left join `ab`; right rows whose `_bid_` does not occur in `ab`;
    if any, their reverse left join `ba`; `rbind`; `sort(_aid_=1, _bid_=1)`. -/
def fullJoinPairs (n : Nat) (lkeys : List (List Cell)) (m : Nat) (rkeys : List (List Cell)) :
    List (Option Nat × Option Nat) :=
  let ab := leftJoinPairs n lkeys m rkeys
  let used := ab.filterMap (·.2)
  let rest := (List.range m).filter (fun j => !used.contains j)
  if rest.isEmpty then ab else
  let restKeys := rkeys.map (fun c => gather c rest)
  let back := joinSrc rest.length restKeys n lkeys
  let ba := (back.zip rest).map (fun (a, j) => (a, some j))
  let all := ab ++ ba
  let order := argsort (fun (p q : Option Nat × Option Nat) =>
      if p.1 == q.1 then leOptNat p.2 q.2 else leOptNat p.1 q.1) all
  gather all order

end DI

/-
  Model/PyEvalKeys.lean — the evaluator of `Model/PyEvalFrame.lean` / `Model/PyEvalFrameJoin.lean` EXTENDED to the forms of the
  regenerated bodies of `DataFrame.drop_na`, `DataFrame.unique` (`Generated/CodeC02.lean`) and `DataFrame._get_join_indices`
  (`Generated/CodeC05.lean`) — the three functions whose meaning `Model/PyEvalFrameJoin.lean` (joins) and
  `Model/PyEvalSort.lean` (`split` / `aggregate`) take as PRIMITIVES (`dropNaFrame`, `uniqueFrame`, `joinIndices`).
  `Proofs/EvalC02b.lean` / `EvalC05b.lean` / `EvalC04b.lean` prove that evaluating the regenerated bodies gives exactly those
  primitives' values, so that the join / split theorems no longer rest on an assumption about them.

  Nothing existing is changed; this is a further evaluator of the same shape (statement forms `for` / `yield` / `assign` /
  `if` word for word; the list primitives are the same functions `DI.PyEval.npTake`, `normIdx`, `allSome`, `colOf?`, `nrow`).

  NEW here
  * a column value carries a dtype tag `DT` (kind + datetime unit), a frame value the dtype of each of its columns
    (`KVal.frame f dt`): `unique` asks `column.is_datetime() / is_float() / is_timedelta()`, `_get_join_indices` asks
    `key.is_datetime()` and compares `key1.dtype != key2.dtype`.  The CELLS are those of the model (`Option Key`, unit-free:
    a datetime cell is its instant, a float cell the order-isomorphic image of the double with `0.0` and `-0.0` the SAME
    cell, NaN / NaT / None / "" all `none`), so nothing a result says depends on the tags: the theorems hold for every `dt`.
  * OBJECTS.  The translator inlines an assigned local into its later uses, so the list `columns` of `unique` appears as its
    defining `ListComp` term at every use, also as the target of `columns[i] = …`; likewise `seen` is the term `set()`,
    `keep` the term `list []`, and `keys1` / `keys2` of `_get_join_indices` their `ListComp` terms.  As in
    `Model/PyEvalLift.lean` / `Model/PyEvalSort.lean` the store maps such a defining TERM to the current contents of the
    object it created (`Store.find`, latest binding first), and a term that is a key of the store denotes those contents
    (sound when no two objects of a body have the same defining term: true of the three bodies).  Objects are created by
    list comprehensions, `set()` and `[]` only (`objHeads`).  In ONE place the translator leaves a store target as the local
    NAME: `keys1[i], keys2[i] = new1, new2` of `_get_join_indices`; the call environment binds these two names to
    `KVal.ref <defining term> <initial contents>` (`joinIdxEnv`), which is what the name denotes.
  * statement forms `obj[i] = v`, `a[i], b[j] = x, y`, `seen.add(x)`, `keep.append(i)`, tuple targets in `for` / `=`;
    expression forms list comprehension of columns, dict comprehension, `map(lambda x: …, it)`, `a or b`, `a and b`,
    `value-after-loop`, `zip`, `range`, `np.where`, `np.fromiter`, …

  THE ONE DEFINITION RELIED ON (read it): **Python's equality / hashing of key tuples is equality of the model's cell
  lists** (`List Cell`, `==`): `rows[i] not in seen` is `!seen.contains r`, a dict key is found by `==` (`rdictInsert`,
  `rdictGet`).  In Python terms: two non-missing keys are equal iff they are the same value (`1 == 1.0`, `0.0 == -0.0`,
  equal strings, equal instants), `None == None` — a missing key is a key of its own, equal to every other missing key —
  and `unique` replaces NaN / NaT (which do NOT equal themselves) by `None` for exactly that reason: on cells that
  substitution `np.where(column.is_na(), None, column)` is computed here, cell by cell, and is the identity
  (`Lemmas.PyEvalKeys.naToNone_id`).  This is what the model's `uniqueIdx` / `joinSrc` do (`seen.contains`, `p.1 == r`).
  WHERE IT IS NOT EXACT: `_get_join_indices` does NOT make that substitution, so in Python a NaN / NaT key there equals
  nothing (a NaN left key does not match a NaN right key; `""` / `None` keys do match), while the model's one missing cell
  equals itself.  `Eval.C05.missing_key_convention_irrelevant` proves that both readings give the same `src` whenever no
  RIGHT key tuple has a missing cell — which `other.drop_na(*by2)` establishes before every call the library makes
  (`Eval.C05.reduced_frame_has_no_missing_key`); `Eval.C05.missing_key_conventions_differ` is the witness otherwise.
  For datetime keys of DIFFERENT units Python's hashes differ although the instants are equal; `_get_join_indices` casts
  both to the promoted unit (fix c09ead9) when the values fit.  Here `.astype` is the parameter `cast` of the evaluator
  and the theorems assume `CastSound cast`: a cast whose round trip gives the original column back denotes the same
  instants, i.e. is the identity on cells (which are unit-free).  When the values do NOT fit, Python leaves the columns
  in different units and equal instants do not match; that case is outside the model (cells have no unit).

  TRUSTED READINGS of primitives (section "primitives"): `is_na` per cell = the model's `isNa`; `zip(*columns)` = the
  tuples up to the shortest column, NO tuple for no column; `np.fromiter(it, int, count=n)` = the first `n` items,
  ValueError (`none`) if there are fewer; `np.where(mask)` = the positions of the true entries (Python returns the 1-tuple
  `(positions,)`, which indexes like `positions`; it is identified with it, as in `Model/PyEvalFrameJoin.lean`);
  `frame.filter_out(mask)` = `filterOutFrame` — what `Eval.C02.filter_out_mask_eval` PROVES the regenerated body of
  `filter_out` evaluates to (`Eval.C02.filter_out_primitive_justified`); `Vector.equal` = equal as cell lists (missing
  values equal); a set is the list of its elements, newest first (only membership is asked).
-/
import Model.PyEvalFrame
import Model.PyEvalFrameJoin
import Model.PyEvalLift

namespace DI.PyEvalKeys

open DI DI.Py
open DI.PyEval (Frame nrow ncol names colOf? normIdx allSome npTake Flow)

/-- what the bodies ask about a dtype. -/
inductive DKind where
  | float | datetime | timedelta | other
  deriving DecidableEq, Repr, Inhabited

/-- a dtype: its kind and (for datetimes) its unit, a finer unit being a larger number. -/
structure DT where
  kind : DKind
  unit : Nat
  deriving DecidableEq, Repr, Inhabited

/-- `object`. -/
def DT.object : DT := ⟨.other, 0⟩

/-- `np.promote_types` of two datetime dtypes: the finer unit. -/
def DT.promote (a b : DT) : DT := if b.unit ≤ a.unit then a else b

/-- a column with its dtype. -/
abbrev TCol := DT × List Cell

/-- Python values of the three bodies. -/
inductive KVal where
  | none
  | bool (b : Bool)
  | int (i : Int)
  | str (s : String)
  | dtype (d : DT)
  | col (d : DT) (c : List Cell)            -- a vector
  | cols (l : List TCol)                    -- a list of vectors (`columns`, `keys1`, `keys2`)
  | colpairs (l : List (TCol × TCol))       -- `zip(keys1, keys2)`
  | mask (m : List Bool)                    -- a Boolean vector
  | ints (l : List Int)                     -- an integer vector / list / iterator of integers
  | strs (l : List String)                  -- a tuple / list of names
  | row (r : List Cell)                     -- a tuple of cells (a key tuple)
  | rows (l : List (List Cell))             -- a list / iterator / set of key tuples
  | rdict (d : List (List Cell × Int))      -- a dict key tuple → int, in insertion order
  | frame (f : Frame) (dt : String → DT)    -- a data frame with the dtypes of its columns
  | items (v : KVal)                        -- `.items()` view
  | pair (a b : KVal)                       -- a 2-tuple / a keyword argument (name, value)
  | star (v : KVal)                         -- `*v` in an argument list
  | ref (t : Term) (init : KVal)            -- the object created by the term `t`, with the contents it was created with
  deriving Inhabited

abbrev Env := List (String × KVal)

def Env.get? (env : Env) (x : String) : Option KVal := (env.find? (fun p => p.1 == x)).map (·.2)

/-- the objects written to so far: defining term ↦ current contents, latest first. -/
abbrev Store := List (Term × KVal)

def Store.find : Store → Term → Option KVal
  | [], _ => none
  | (k, v) :: r, t => if (DI.PyEvalLift.termDecEq k t).decide then some v else Store.find r t

/-- the heads of the terms that create an object. -/
def objHeads : List String := ["ListComp", "set()", "list"]

/-! ### primitives (trusted part) -/

/-- `zip(*columns)`: the tuples up to the shortest column; no column, no tuple. -/
def zipCols : List (List Cell) → List (List Cell)
  | [] => []
  | c :: cs => (List.range (cs.foldl (fun m x => min m x.length) c.length)).map (fun i => (c :: cs).map (fun x => x[i]!))

/-- `np.where(na, None, column)` cell by cell. -/
def naToNone (m : List Bool) (c : List Cell) : List Cell := List.zipWith (fun b x => if b then none else x) m c

/-- `d[k] = v` on an insertion-ordered dict: an existing key (a tuple EQUAL to `k`) keeps its position and takes the new
    value. -/
def rdictInsert (d : List (List Cell × Int)) (k : List Cell) (v : Int) : List (List Cell × Int) :=
  if d.any (fun q => q.1 == k) then d.map (fun q => if q.1 == k then (k, v) else q) else d ++ [(k, v)]

/-- `d.get(k, default)`. -/
def rdictGet (d : List (List Cell × Int)) (k : List Cell) (dflt : Int) : Int :=
  match d.find? (fun q => q.1 == k) with
  | some q => q.2
  | none => dflt

/-- `frame.filter_out(mask)`: ValueError (`none`) unless the mask has one entry per row; then every column at
    `filterOutIdx mask` (`Eval.C02.filter_out_mask_eval`). -/
def filterOutFrame (f : Frame) (m : List Bool) : Option Frame :=
  if m.length = nrow f then some (f.map (fun p => (p.1, gather p.2 (filterOutIdx m)))) else none

/-- Python truthiness of the values `or` / `and` are applied to. -/
def truthy : KVal → Option Bool
  | .bool b => some b
  | .strs l => some (!l.isEmpty)
  | _ => none

/-- what iterating over a value yields. -/
def itemsOf : KVal → Option (List KVal)
  | .strs l => some (l.map KVal.str)
  | .ints l => some (l.map KVal.int)
  | .cols l => some (l.map (fun p => KVal.col p.1 p.2))
  | .colpairs l => some (l.map (fun p => KVal.pair (.col p.1.1 p.1.2) (.col p.2.1 p.2.2)))
  | .rows l => some (l.map KVal.row)
  | .items (.frame f dt) => some (f.map (fun p => KVal.pair (.str p.1) (.col (dt p.1) p.2)))
  | _ => none

/-- `enumerate(xs)`. -/
def enumerate (xs : List KVal) : List KVal := xs.zipIdx.map (fun p => KVal.pair (.int (p.2 : Nat)) p.1)

/-- calls with evaluated arguments; `cast from to cells` is `.astype`. -/
def prim (cast : DT → DT → List Cell → List Cell) : String → List KVal → Option KVal
  | "getitem", [.frame f dt, .str n] => (colOf? f n).map (KVal.col (dt n))
  | "getitem", [.col d c, .ints r] => (npTake c r).map (KVal.col d)
  | "getitem", [.rows l, .int i] => (normIdx l.length i).bind (fun k => l[k]?.map KVal.row)
  | ".copy", [.col d c] => some (.col d c)
  | ".items", [.frame f dt] => some (.items (.frame f dt))
  | ".colnames", [.frame f _] => some (.strs (names f))
  | ".nrow", [.frame f _] => some (.int (nrow f : Nat))
  | "tuple", [a, b] => some (.pair a b)
  | "*", [v] => some (.star v)
  | "set()", [] => some (.rows [])
  | "list", [] => some (.ints [])
  | "list", [.bool b] => some (.mask [b])
  | "list()", [.rows l] => some (.rows l)
  | "range", [.int n] => some (.ints (arange 0 n))
  | "zip", [.star (.cols l)] => some (.rows (zipCols (l.map (·.2))))
  | "zip", [.cols a, .cols b] => some (.colpairs (a.zip b))
  -- missing values
  | ".is_na", [.col _ c] => some (.mask (c.map isNa))
  | "BitOr", [.mask a, .mask b] => if a.length = b.length then some (.mask (List.zipWith (· || ·) a b)) else none
  | ".repeat", [.mask m, .int n] => if 0 ≤ n then some (.mask (m.flatMap (fun b => List.replicate n.toNat b))) else none
  | ".filter_out", [.frame f dt, .mask m] => (filterOutFrame f m).map (fun g => KVal.frame g dt)
  | "np.where", [.mask m, .none, .col _ c] => if m.length = c.length then some (.col DT.object (naToNone m c)) else none
  | "np.where", [.mask m] => some (.ints ((nonzero m).map (fun (k : Nat) => (k : Int))))
  -- dtypes
  | ".is_datetime", [.col d _] => some (.bool (d.kind == .datetime))
  | ".is_float", [.col d _] => some (.bool (d.kind == .float))
  | ".is_timedelta", [.col d _] => some (.bool (d.kind == .timedelta))
  | ".dtype", [.col d _] => some (.dtype d)
  | "NotEq", [.dtype a, .dtype b] => some (.bool (a != b))
  | "np.promote_types", [.dtype a, .dtype b] => some (.dtype (a.promote b))
  | ".astype", [.col d c, .dtype d'] => some (.col d' (cast d d' c))
  | ".equal", [.col _ a, .col _ b] => some (.bool (a == b))
  | ".all", [.bool b] => some (.bool b)
  -- key tuples
  | "NotIn", [.row r, .rows seen] => some (.bool (!seen.contains r))
  | ".get", [.rdict d, .row r, .int dflt] => some (.int (rdictGet d r dflt))
  | "=count", [v] => some (.pair (.str "count") v)
  | "np.fromiter", [.ints l, .str "int", .pair (.str "count") (.int n)] =>
      if 0 ≤ n ∧ n.toNat ≤ l.length then some (.ints (l.take n.toNat)) else none
  | "Gt", [.ints l, .int k] => some (.mask (l.map (fun x => decide (x > k))))
  | _, _ => none

/-- the names whose application is a special form of `evalK` (everything else: arguments, then `prim`). -/
def specialNames : List String := ["Vector.fast", "ListComp", "DictComp", "map", "value-after-loop", "Or", "And"]

/-- a name: the constants, the type names, else the binding of the environment. -/
def lookupSym (env : Env) : String → Option KVal
  | "True" => some (.bool true)
  | "False" => some (.bool false)
  | "None" => some .none
  | "int" => some (.str "int")
  | x => env.get? x

/-- bind a loop / assignment target (`x`, `(a, b)`, `(i, (a, b))`) to a value. -/
def bindPat (env : Env) : Term → KVal → Option Env
  | .sym x, v => some ((x, v) :: env)
  | .app "tuple" [p, q], .pair x y =>
    (match bindPat env p x with
     | none => none
     | some env' => bindPat env' q y)
  | _, _ => none

/-- run `step` over the items, threading the state; `none` as soon as a step fails. -/
def loop {σ : Type} (step : σ → KVal → Option σ) : σ → List KVal → Option σ
  | s, [] => some s
  | s, v :: vs => match step s v with
    | none => none
    | some s' => loop step s' vs

/-- a local NAME bound to an object (`KVal.ref`): the key of that object in the store and its current contents. -/
def refCur (st : Store) (env : Env) (x : String) : Option (Term × KVal) :=
  match env.get? x with
  | some (.ref (.app f args) init) =>
    if objHeads.contains f then some (.app f args, (st.find (.app f args)).getD init) else none
  | _ => none

/-! ### the evaluator -/

mutual

/-- expressions; `st`: the objects written to so far. -/
def evalK (cast : DT → DT → List Cell → List Cell) (st : Store) (env : Env) : Term → Option KVal
  | .int i => some (.int i)
  | .rows l => some (.ints l)
  | .slice _ _ => none
  | .sym s => lookupSym env s
  | .app f args =>
    match (if objHeads.contains f then st.find (.app f args) else none) with
    | some v => some v                          -- an object that was written to: its current contents
    | none =>
      let orv := fun (_ : Unit) => evalOrK cast st env args
      let andv := fun (_ : Unit) => evalAndK cast st env args
      let vs := fun (_ : Unit) => evalArgsK cast st env args
      if specialNames.contains f then
        match f, args with
        -- `Vector.fast(x, dtype)`: the identity on a vector that already has that dtype
        | "Vector.fast", [x, .sym _] => evalK cast st env x
        -- `[elem for pat in src]` of columns
        | "ListComp", [elem, .app "in" [pat, src, .app "if" []]] =>
          (match evalK cast st env src with
           | none => none
           | some s => match itemsOf s with
             | none => none
             | some xs =>
               (allSome (xs.map (fun x => match bindPat env pat x with
                 | none => none
                 | some env' => match evalK cast st env' elem with
                   | some (.col d c) => some (d, c)
                   | _ => none))).map KVal.cols)
        -- `{ke: ve for pat in src}` for a dict key tuple → int (an equal key again: the LATER value wins)
        | "DictComp", [.app "pair" [ke, ve], .app "in" [pat, src, .app "if" []]] =>
          (match evalK cast st env src with
           | none => none
           | some s => match itemsOf s with
             | none => none
             | some its =>
               (loop (fun d it => match bindPat env pat it with
                 | none => none
                 | some env' => match evalK cast st env' ke, evalK cast st env' ve with
                   | some (.row k), some (.int v) => some (rdictInsert d k v)
                   | _, _ => none) [] its).map KVal.rdict)
        -- `map(lambda x: body, src)` with integer results (the iterator is identified with the list of its items)
        | "map", [.app "lambda" [.app "params" [.sym x], body], src] =>
          (match evalK cast st env src with
           | none => none
           | some s => match itemsOf s with
             | none => none
             | some xs =>
               (allSome (xs.map (fun it => match evalK cast st ((x, it) :: env) body with
                 | some (.int i) => some i
                 | _ => none))).map KVal.ints)
        -- the value the variable `v` has after the loop statement `lp` has run
        | "value-after-loop", [.sym v, lp] =>
          (match execK cast st env [] lp with
           | none => none
           | some r => r.2.2.1.get? v)
        | "Or", _ => orv ()
        | "And", _ => andv ()
        | _, _ => none
      else
        match vs () with
        | none => none
        | some vs => prim cast f vs

def evalArgsK (cast : DT → DT → List Cell → List Cell) (st : Store) (env : Env) : List Term → Option (List KVal)
  | [] => some []
  | t :: ts => match evalK cast st env t, evalArgsK cast st env ts with
    | some v, some vs => some (v :: vs)
    | _, _ => none

/-- `a or b or …`: the first truthy operand, else the last one (operands after it are not evaluated). -/
def evalOrK (cast : DT → DT → List Cell → List Cell) (st : Store) (env : Env) : List Term → Option KVal
  | [] => none
  | [t] => evalK cast st env t
  | t :: ts => match evalK cast st env t with
    | none => none
    | some v => match truthy v with
      | none => none
      | some true => some v
      | some false => evalOrK cast st env ts

/-- `a and b and …`: the first falsy operand, else the last one. -/
def evalAndK (cast : DT → DT → List Cell → List Cell) (st : Store) (env : Env) : List Term → Option KVal
  | [] => none
  | [t] => evalK cast st env t
  | t :: ts => match evalK cast st env t with
    | none => none
    | some v => match truthy v with
      | none => none
      | some false => some v
      | some true => evalAndK cast st env ts

/-- statements: the store, the environment and the pairs yielded so far are threaded through. -/
def execK (cast : DT → DT → List Cell → List Cell) (st : Store) (env : Env) (out : Frame) :
    Term → Option (Flow × Store × Env × Frame)
  | .app "yield" [.app "tuple" [n, c]] =>
    match evalK cast st env n, evalK cast st env c with
    | some (.str n), some (.col _ c) => some (.next, st, env, out ++ [(n, c)])
    | _, _ => none
  -- `a[i], b[j] = x, y` for two local names bound to lists of columns: the right side first, then the two item
  -- stores, left to right
  | .app "assign" [.app "tuple" [.app "getitem" [.sym x1, i1], .app "getitem" [.sym x2, i2]], e] =>
    match evalK cast st env e with
    | some (.pair (.col d1 c1) (.col d2 c2)) =>
      (match refCur st env x1, evalK cast st env i1 with
       | some (t1, .cols l1), some (.int k1) =>
         (match normIdx l1.length k1 with
          | none => none
          | some n1 =>
            let st1 : Store := (t1, .cols (l1.set n1 (d1, c1))) :: st
            match refCur st1 env x2, evalK cast st1 env i2 with
            | some (t2, .cols l2), some (.int k2) =>
              (match normIdx l2.length k2 with
               | none => none
               | some n2 => some (.next, (t2, .cols (l2.set n2 (d2, c2))) :: st1, env, out))
            | _, _ => none)
       | _, _ => none)
    | _ => none
  -- `x = e`, `(a, b) = e`
  | .app "assign" [pat, e] =>
    match evalK cast st env e with
    | none => none
    | some v => match bindPat env pat v with
      | none => none
      | some env' => some (.next, st, env', out)
  -- `obj[i] = v` on a list of columns (the object is named by its defining term)
  | .app "store" [.app "getitem" [.app f args, ie], ve] =>
    if objHeads.contains f then
      match evalK cast st env (.app f args), evalK cast st env ie, evalK cast st env ve with
      | some (.cols l), some (.int k), some (.col d c) =>
        (match normIdx l.length k with
         | none => none
         | some n => some (.next, (.app f args, .cols (l.set n (d, c))) :: st, env, out))
      | _, _, _ => none
    else none
  -- `seen.add(x)` on a set of key tuples
  | .app ".add" [.app f args, e] =>
    if objHeads.contains f then
      match evalK cast st env (.app f args), evalK cast st env e with
      | some (.rows l), some (.row r) => some (.next, (.app f args, .rows (r :: l)) :: st, env, out)
      | _, _ => none
    else none
  -- `keep.append(i)` on a list of integers
  | .app ".append" [.app f args, e] =>
    if objHeads.contains f then
      match evalK cast st env (.app f args), evalK cast st env e with
      | some (.ints l), some (.int i) => some (.next, (.app f args, .ints (l ++ [i])) :: st, env, out)
      | _, _ => none
    else none
  | .app "if" [c, .app "block" a, .app "block" b] =>
    match evalK cast st env c with
    | some (.bool true) => blockK cast st env out a
    | some (.bool false) => blockK cast st env out b
    | _ => none
  | .app "for" (pat :: iter :: .app "block" body :: rest) =>
    let iterVal := fun (e0 : Env) => evalK cast st e0 iter
    -- an `init [x, e]` argument records the assignment `x = e` that precedes the loop
    let env0 : Option Env := match rest with
      | [] => some env
      | [.app "init" [.sym x, e]] => (match evalK cast st env e with | some v => some ((x, v) :: env) | none => none)
      | _ => none
    match env0 with
    | none => none
    | some env0 =>
      let its : Option (List KVal) := match iter with
        | .app "enumerate" [e] => (match evalK cast st env0 e with | some v => (itemsOf v).map enumerate | none => none)
        | _ => (match iterVal env0 with | some v => itemsOf v | none => none)
      match its with
      | none => none
      | some its =>
        match loop (fun (s : Store × Env × Frame) it => match bindPat s.2.1 pat it with
            | none => none
            | some env' => match blockK cast s.1 env' s.2.2 body with
              | none => none
              | some r => some (r.2.1, r.2.2.1, r.2.2.2)) (st, env0, out) its with
        | none => none
        | some s => some (.next, s.1, s.2.1, s.2.2)
  | _ => none

def blockK (cast : DT → DT → List Cell → List Cell) (st : Store) (env : Env) (out : Frame) :
    List Term → Option (Flow × Store × Env × Frame)
  | [] => some (.next, st, env, out)
  | s :: ss => match execK cast st env out s with
    | none => none
    | some (.cont, st', env', out') => some (.cont, st', env', out')
    | some (.next, st', env', out') => blockK cast st' env' out' ss

end

/-- the pairs a generator body yields, in order. -/
def runBody (cast : DT → DT → List Cell → List Cell) (env : Env) : Out → Option Frame
  | .fall effs => match blockK cast [] env [] effs with
    | some (.next, _, _, out) => some out
    | _ => none
  | _ => none

/-- the value a method body returns: its effects (loops) run in order, then the returned expression is evaluated in the
    store and environment they leave. -/
def runRet (cast : DT → DT → List Cell → List Cell) (env : Env) : Out → Option KVal
  | .ret effs t => match blockK cast [] env [] effs with
    | some (.next, st, env', _) => evalK cast st env' t
    | _ => none
  | _ => none

/-- the environment of a method call: the receiver (with the dtypes of its columns) and the named arguments. -/
def callEnv (self : Frame) (dt : String → DT) (args : List (String × KVal)) : Env := ("self", .frame self dt) :: args

/-- `[frame[x] for x in byv]` as the translator writes it. -/
def keysTerm (frame byv : String) : Term :=
  .app "ListComp" [.app "getitem" [.sym frame, .sym "x"], .app "in" [.sym "x", .sym byv, .app "if" []]]

/-- a local name for the object the term `t` creates in the environment `env`. -/
def refTo (cast : DT → DT → List Cell → List Cell) (env : Env) (t : Term) : KVal :=
  match evalK cast [] env t with
  | some v => .ref t v
  | none => .none

/-- the environment of `self._get_join_indices(other, by1, by2)`; the local names `keys1` / `keys2` (left as store targets
    by the translator) denote the two lists the comprehensions create. -/
def joinIdxEnv (cast : DT → DT → List Cell → List Cell) (self : Frame) (dtS : String → DT) (other : Frame)
    (dtO : String → DT) (by1 by2 : List String) : Env :=
  let base : Env := callEnv self dtS [("other", .frame other dtO), ("by1", .strs by1), ("by2", .strs by2)]
  ("keys1", refTo cast base (keysTerm "self" "by1")) :: ("keys2", refTo cast base (keysTerm "other" "by2")) :: base

/-- a cast whose round trip gives the original column back denotes the same instants: it is the identity on the model's
    (unit-free) cells. -/
def CastSound (cast : DT → DT → List Cell → List Cell) : Prop :=
  ∀ d d' c, cast d' d (cast d d' c) = c → cast d d' c = c

end DI.PyEvalKeys

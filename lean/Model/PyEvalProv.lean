/-
  Model/PyEvalProv.lean — the PROVENANCE of a value, read off the terms `harness/py2lean.py` regenerates (C06).

  `Generated/Sites.lean` (written by `harness/extract_sites.py`, an AST reader with its own rules) records, for every
  `yield` / `return` of a DataFrame / Vector method, a provenance class, and for every store the class of its target.
  This file derives the same information a second time, from the regenerated method BODIES (`Generated/CodeCxx.lean`),
  by a total classifier over `DI.Py.Term`; `Proofs/EvalC06.lean` proves that the two agree.

  ## The trusted reading of NumPy / Python — stated ONCE, here, as definitions

  A `Prov` describes the OBJECT an expression evaluates to:
    `fresh`       an object this call allocated (a new array buffer, a new list / dict / set, a literal);
    `receiver`    `self`, one of its columns, or a basic view of one (same memory as the receiver);
    `argument`    the same for a parameter — EVERY bare name that is not `self`, not a literal and not a local the
                  body assigned is read as a parameter (the conservative reading: such a name is never fresh);
    `delegate m`  the result of calling method `m` of the site table (fresh by induction over the table, `C06`);
    `unknown`     none of the rules applies (a user callable, a helper of another module, an element of a new container).
  The order is flat: `p ⊑ q` iff `p = q` or `q = unknown`; `join` is the least upper bound.

  R1 `allocHeads`   — a call with one of these heads allocates its result whatever the arguments (unless it is given a
                      `copy=` keyword other than `True`, `mayNotCopy`: then it is a view of its operand): `x.copy()`, `np.take`,
                      `np.delete`, `np.concatenate`, `np.where`, `np.zeros_like`, `x.astype(…)`, `np.repeat` / `x.repeat`,
                      `np.arange`, the sorting / searching functions, `x.tolist()`, `np.isnan` / `np.isnat` …
                      CAVEAT (`.copy`): the classifier is about the object; `frame.copy()` is a NEW dict over the same
                      column objects (documented shallow, `C06.copy_is_documented_shallow`).  That is why R5 never
                      calls an element pulled out of a fresh container fresh.
  R2 `elementwiseHeads` — comparison / arithmetic / bitwise operators on arrays compute a new array.
  R3 `containerHeads` — a list / tuple display, a comprehension, `list(…)`, `set()`, `sorted(…)` … is a new container.
  R4 `viewHeads0` / `viewHeads1` — `x.view(…)`, `np.asarray(x)`, `x.ravel()`, `x.reshape(…)` and the two helpers that may
                      hand their argument back (`x._optimize_for_argsort()`, `self._reconcile_column(x)`) are NOT
                      allocations: the result has the provenance of `x` (a view of a fresh array stays fresh, a view of
                      the receiver stays the receiver).
  R5 `getitem [x, i]` — with an index ARRAY or a mask (`isIndexArray i`: fancy indexing copies) it is fresh; otherwise
                      (a slice, a key, a scalar, a bare name) it is a view / an element: `receiver` / `argument` if `x`
                      is, and `unknown` in every other case (an element of a fresh or delegated container is not
                      decided — see the caveat of R1).
  R6 constructors   — `self.__class__(d, …)`, `Vector.fast(d, …)`, `x.fast(d, …)`, `Vector(d)`, `DataFrameColumn(d, …)`,
                      `DataFrameColumn.fast(d)`: the provenance of the data argument `d` (fresh for a fresh / literal /
                      new-container argument; NOT fresh for `self` or a parameter — the conservative reading, although
                      `np.array(object, dtype)` copies); for a dict comprehension `d` it is the provenance of the
                      VALUES (a frame built from a dict holds the dict's column objects: `_reconcile_column` returns a
                      column of the right length as it is).  No data argument = a new empty object.
  R7 delegation     — `x.m(…)` with `m` a method of the site table (`Generated/Sites.lean`) or `__copy__` /
                      `__deepcopy__` is `delegate m`.  R1 wins over R7 (`.copy`).
  R8 proxies        — `x.str.f(…)`, `x.dt.f(…)`, `x.re.f(…)` are NumPy / regex functions applied elementwise: fresh.
  R9 `ifexp`, `or`  — the join of the alternatives.
  Everything else (`call [f, …]` of a user callable, `util.…`, `value-after-loop`, tuple items) is `unknown`.

  ## Names

  The translator inlines straight-line assignments (`let` shadowing) and keeps the assignments made INSIDE loop bodies
  as `assign [sym x, e]` statements; the walker `walkS` therefore threads an environment name ↦ `Prov`:
  `assign` binds, `for` binds every name of its target to "an element of the iterated object" (`elemProv`: an element
  of the receiver is `receiver`, of a parameter `argument`, of a comprehension the provenance of its element
  expression, otherwise `unknown`), `if` reads both branches from the same environment and joins the results.
  A loop body is read up to three times: from the entry environment; from the join of that with the environment the
  first reading ends in; and, should that still not be stable (`Env.le`), with every name `unknown`.  The sites
  reported are those of the last reading, so they are upper bounds for every iteration.

  ## What is collected (`collect`)

  Result sites: `yield (name, t)` / `yield t` anywhere in the effects (inside `for` / `perColumn` bodies, `if`s, blocks),
  and the returned term of `Out.ret`.  Store sites: `store [getitem [x, …], v]`, `setattr [x, …]`, `del [getitem [x, …]]`,
  the `getitem` components of a tuple-target `assign`, and a call of a mutating container method on `x`
  (`mutatorHeads`) — each with the provenance of the ROOT object `x` that is written into.
-/
import Model.PyCore
import Generated.Sites
import Model.Heap

namespace DI.PyEvalProv

open DI.Py

inductive Prov where
  | fresh
  | receiver
  | argument
  | delegate (m : String)
  | unknown
  deriving DecidableEq, Repr, Inhabited

abbrev Env := List (String × Prov)

/-! ### the rules -/

/-- R1: heads whose result is newly allocated whatever the arguments. -/
def allocHeads : List String :=
  [".copy", "np.take", "np.delete", "np.concatenate", "np.where", "np.zeros_like", ".astype",
   "np.repeat", ".repeat", "np.arange", "np.argsort", ".argsort", "np.lexsort", "np.nonzero", "np.flatnonzero", "np.sort",
   "np.unique", "np.fromiter", "np.bincount", ".cumsum", "np.isnan", "np.isnat", "np.random.choice", ".tolist",
   "np.full_like", "np.zeros", "np.ones", "np.full", "np.array"]

/-- R1, the exception: NumPy's `copy=` keyword (`x.astype(dtype, copy=False)`, `np.array(x, copy=False)`) makes the call
    return its operand itself when nothing has to be converted.  An allocating head keeps rule R1 only if no `copy=` keyword is
    given or it is literally `True`; otherwise the result has the provenance of argument 0. -/
def mayNotCopy : List Term → Bool
  | [] => false
  | .app "=copy" [.sym "True"] :: rest => mayNotCopy rest
  | .app "=copy" _ :: _ => true
  | _ :: rest => mayNotCopy rest

/-- R2: elementwise operators on arrays. -/
def elementwiseHeads : List String :=
  ["Eq", "NotEq", "Lt", "Gt", "LtE", "GtE", "Add", "Sub", "Mult", "Div", "BitAnd", "BitOr", "~", "neg"]

/-- R3: new Python containers. -/
def containerHeads : List String :=
  ["list", "tuple", "ListComp", "GeneratorExp", "DictComp", "SetComp", "list()", "tuple()", "set()", "dict()", "sorted",
   "zip", "map", "enumerate", "range"]

/-- R4: not an allocation — the provenance of argument 0 (`x.view(…)`, `np.asarray(x)` …). -/
def viewHeads0 : List String := [".view", "np.asarray", "np.asanyarray", ".ravel", ".reshape", ".squeeze", "._optimize_for_argsort"]

/-- R4: not an allocation — the provenance of argument 1 (`self._reconcile_column(x)`). -/
def viewHeads1 : List String := ["._reconcile_column"]

/-- R5: heads of an index ARRAY / a mask (fancy indexing with one of these copies). -/
def indexHeads : List String :=
  ["np.arange", "np.argsort", ".argsort", "np.lexsort", "np.nonzero", "np.flatnonzero", "np.where", "np.sort", "np.random.choice",
   "~", ".is_na", "Vector.fast", "BitAnd", "BitOr", "Eq", "NotEq", "Lt", "Gt", "LtE", "GtE", "list", "ListComp"]

def isIndexArray : Term → Bool
  | .rows _ => true
  | .app f _ => indexHeads.contains f
  | _ => false

/-- R6: constructors whose data argument is argument 0. -/
def ctorHeads0 : List String := ["Vector.fast", "Vector", "DataFrameColumn", "DataFrameColumn.fast", "DataFrame"]

/-- R6: constructors written as a method call (`self.__class__(d)`, `x.fast(d)`): the data argument is argument 1. -/
def ctorHeads1 : List String := [".__class__", ".fast"]

/-- R7: methods of the site table, and the two copy protocols. -/
def isTableMethod (m : String) : Bool :=
  DI.Gen.resultSites.any (fun s => s.2.1 == m) || m == "__copy__" || m == "__deepcopy__"

/-- R8: proxies. -/
def proxyHeads : List String := [".str", ".dt", ".re"]

/-- mutating container methods: the object written into is argument 0. -/
def mutatorHeads : List String :=
  [".update", ".pop", ".popitem", ".clear", ".setdefault", ".append", ".add", ".extend", ".insert", "dict.update",
   ".fill", ".put", ".itemset", ".resize", "np.place", "np.put", "np.putmask", "np.copyto"]

/-- literals. -/
def isLiteral (s : String) : Bool :=
  s == "None" || s == "True" || s == "False" || s == "" || s.front == '\'' || s.front == '"'

/-! ### the order -/

def join (p q : Prov) : Prov := if p = q then p else .unknown

def Prov.le (p q : Prov) : Bool := p == q || q == .unknown

/-- a bare name outside every binding. -/
def symDefault (s : String) : Prov :=
  if s == "self" then .receiver else if isLiteral s then .fresh else .argument

def Env.get (env : Env) (s : String) : Prov := (env.lookup s).getD (symDefault s)

/-- pointwise join, on the names either side binds. -/
def Env.merge (a b : Env) : Env :=
  (a ++ b).map (fun x => (x.1, join (Env.get a x.1) (Env.get b x.1)))

/-- `a ⊑ b` on the names `a` binds, the names in `skip` aside. -/
def Env.le (skip : List String) (a b : Env) : Bool :=
  a.all (fun x => skip.contains x.1 || (Env.get a x.1).le (Env.get b x.1))

/-- every bound name ↦ `unknown`. -/
def Env.top (a : Env) : Env := a.map (fun x => (x.1, Prov.unknown))

/-- the names of a loop / assignment target (`x`, `(x, y)`, `(i, (a, b))`). -/
def targetNames : Term → List String
  | .sym x => [x]
  | .app "tuple" [a] => targetNames a
  | .app "tuple" [a, b] => targetNames a ++ targetNames b
  | .app "tuple" [a, b, c] => targetNames a ++ targetNames b ++ targetNames c
  | _ => []

def bindAll (names : List String) (p : Prov) (env : Env) : Env := names.map (fun n => (n, p)) ++ env

/-- an element of an object of provenance `p`. -/
def elemOf : Prov → Prov
  | .receiver => .receiver
  | .argument => .argument
  | _ => .unknown

/-! ### expressions -/

/-- how an expression is read: as the object it evaluates to, as the data argument of a constructor (R6), or as the
    iterable whose ELEMENTS are asked for. -/
inductive Mode where
  | obj
  | data
  | elem
  deriving DecidableEq, Repr

def wrap : Mode → Prov → Prov
  | .elem, p => elemOf p
  | _, p => p

/-- R8: is the receiver of this method call a `.str` / `.dt` / `.re` proxy? -/
def headIsProxy : List Term → Bool
  | .app g _ :: _ => proxyHeads.contains g
  | _ => false

mutual
/-- the provenance of the object the expression evaluates to (`Mode.obj`), of what a constructor takes over from it
    (`Mode.data`: the VALUES of a dict comprehension, otherwise the object), of one of its elements (`Mode.elem`). -/
def provM (env : Env) : Mode → Term → Prov
  | m, .int _ => wrap m .fresh
  | m, .rows _ => wrap m .fresh
  | m, .slice _ _ => wrap m .fresh
  | m, .sym s => wrap m (Env.get env s)
  | .data, .app "DictComp" [.app "pair" [_, v], .app "in" (tgt :: it :: _)] =>
    provM (bindAll (targetNames tgt) (provM env .elem it) env) .obj v
  | .data, .app "=nrow" _ => .fresh
  | .elem, .app ".items" [x] => provM env .elem x
  | .elem, .app ".values" [x] => provM env .elem x
  | .elem, .app "enumerate" [x] => provM env .elem x
  | .elem, .app "reversed" [x] => provM env .elem x
  | .elem, .app "ListComp" [e, .app "in" (tgt :: it :: _)] =>
    provM (bindAll (targetNames tgt) (provM env .elem it) env) .obj e
  | .elem, .app "GeneratorExp" [e, .app "in" (tgt :: it :: _)] =>
    provM (bindAll (targetNames tgt) (provM env .elem it) env) .obj e
  | .elem, .app "list" [a] => provM env .obj a
  | m, .app "getitem" [x, i] => wrap m (if isIndexArray i then .fresh else elemOf (provM env .obj x))
  | m, .app "ifexp" [_, a, b] => wrap m (join (provM env .obj a) (provM env .obj b))
  | m, .app "Or" [a, b] => wrap m (join (provM env .obj a) (provM env .obj b))
  | m, .app f args =>
    wrap m (
      if allocHeads.contains f && mayNotCopy args then provArg env 0 args
      else if allocHeads.contains f then .fresh
      else if elementwiseHeads.contains f then .fresh
      else if containerHeads.contains f then .fresh
      else if viewHeads0.contains f then provArg env 0 args
      else if viewHeads1.contains f then provArg env 1 args
      else if ctorHeads0.contains f then dataArg env 0 args
      else if ctorHeads1.contains f then dataArg env 1 args
      else if isTableMethod (f.drop 1).toString && f.front == '.' then .delegate (f.drop 1).toString
      else if headIsProxy args then .fresh
      else .unknown)
/-- the provenance of argument `n` (`unknown` if there is none). -/
def provArg (env : Env) : Nat → List Term → Prov
  | _, [] => .unknown
  | 0, t :: _ => provM env .obj t
  | n + 1, _ :: ts => provArg env n ts
/-- R6: the data argument `n` of a constructor; none = a new empty object. -/
def dataArg (env : Env) : Nat → List Term → Prov
  | _, [] => .fresh
  | 0, t :: _ => provM env .data t
  | n + 1, _ :: ts => dataArg env n ts
end

def provIn (env : Env) (t : Term) : Prov := provM env .obj t

def elemProv (env : Env) (t : Term) : Prov := provM env .elem t

/-- **the classifier**: the provenance of a closed term (no local bound). -/
def prov (t : Term) : Prov := provIn [] t

/-! ### statements -/

/-- a result (`yield` / `return`) or a store, with the term and its provenance (for a store: of the object written into). -/
structure Site where
  isResult : Bool
  term : Term
  prov : Prov
  deriving Repr

structure Acc where
  env : Env
  sites : List Site

/-- the `init [x, e]` markers of a translated loop: what the loop-carried names hold on entry. -/
def bindInits (env0 : Env) : List Term → Env → Env
  | [], env => env
  | .app "init" [.sym x, e] :: rest, env => bindInits env0 rest ((x, provIn env0 e) :: env)
  | _ :: rest, env => bindInits env0 rest env

/-- the stores of a tuple-target assignment (`a[i], b[j] = x, y`). -/
def targetStores (env : Env) : Term → List Site
  | .app "getitem" (x :: _) => [{ isResult := false, term := x, prov := provIn env x }]
  | .app "tuple" [a] => targetStores env a
  | .app "tuple" [a, b] => targetStores env a ++ targetStores env b
  | .app "tuple" [a, b, c] => targetStores env a ++ targetStores env b ++ targetStores env c
  | _ => []

mutual
/-- one statement: extend the environment, collect the sites. -/
def walkS (st : Acc) : Term → Acc
  | .app "block" ss => walkB st ss
  | .app "if" [_, a, b] =>
    let ra := walkS st a
    let rb := walkS { env := st.env, sites := ra.sites } b
    { env := Env.merge ra.env rb.env, sites := rb.sites }
  | .app "for" (tgt :: it :: body :: inits) =>
    let names := targetNames tgt
    let el := elemProv st.env it
    let env0 := bindInits st.env inits st.env
    let r1 := walkS { env := bindAll names el env0, sites := [] } body
    let entry2 := Env.merge env0 r1.env
    let r2 := walkS { env := bindAll names el entry2, sites := [] } body
    if Env.le names r2.env entry2 then { env := entry2, sites := st.sites ++ r2.sites }
    else
      let entry3 := Env.top r2.env
      let r3 := walkS { env := bindAll names el entry3, sites := [] } body
      { env := Env.top r3.env, sites := st.sites ++ r3.sites }
  | .app "assign" [.sym x, e] => { st with env := (x, provIn st.env e) :: st.env }
  | .app "assign" [tgt, _] =>
    { env := bindAll (targetNames tgt) .unknown st.env, sites := st.sites ++ targetStores st.env tgt }
  | .app "store" [.app "getitem" (x :: _), _] =>
    { st with sites := st.sites ++ [{ isResult := false, term := x, prov := provIn st.env x }] }
  | .app "store" [t, _] => { st with sites := st.sites ++ [{ isResult := false, term := t, prov := .unknown }] }
  | .app "setattr" (x :: _) => { st with sites := st.sites ++ [{ isResult := false, term := x, prov := provIn st.env x }] }
  | .app "del" [.app "getitem" (x :: _)] =>
    { st with sites := st.sites ++ [{ isResult := false, term := x, prov := provIn st.env x }] }
  | .app "yield" [.app "tuple" [_, v]] => { st with sites := st.sites ++ [{ isResult := true, term := v, prov := provIn st.env v }] }
  | .app "yield" [v] => { st with sites := st.sites ++ [{ isResult := true, term := v, prov := provIn st.env v }] }
  | .app f (x :: _) =>
    if mutatorHeads.contains f then { st with sites := st.sites ++ [{ isResult := false, term := x, prov := provIn st.env x }] }
    else st
  | _ => st
def walkB (st : Acc) : List Term → Acc
  | [] => st
  | t :: ts => walkB (walkS st t) ts
end

/-- every result and store site of an outcome: its effects in order, then the returned term. -/
def collect (o : Out) : List Site :=
  let st := walkB { env := [], sites := [] } o.effs
  match o with
  | .ret _ t => st.sites ++ [{ isResult := true, term := t, prov := provIn st.env t }]
  | _ => st.sites

/-- the provenances of the yielded / returned terms, in order. -/
def resultProvs (o : Out) : List Prov := ((collect o).filter (·.isResult)).map (·.prov)

/-- the provenances of the objects the body writes into, in order. -/
def storeProvs (o : Out) : List Prov := ((collect o).filter (fun s => !s.isResult)).map (·.prov)

/-- the written objects themselves (for reports). -/
def storeTerms (o : Out) : List Term := ((collect o).filter (fun s => !s.isResult)).map (·.term)

def resultTerms (o : Out) : List Term := ((collect o).filter (·.isResult)).map (·.term)

/-! ### against the table -/

/-- a store target the method owns: allocated by it, or the result of a method of the table. -/
def Prov.isLocal : Prov → Bool
  | .fresh => true
  | .delegate _ => true
  | _ => false

/-- the classes the table records for the result sites of a method. -/
def tableClasses (cls m : String) : List String :=
  (DI.Gen.resultSites.filter (fun s => s.1 == cls && s.2.1 == m)).map (·.2.2.2.2)

/-- the classes the table records for the stores of a method. -/
def tableStores (cls m : String) : List String :=
  (DI.Gen.storeSites.filter (fun s => s.1 == cls && s.2.1 == m)).map (·.2.2.2)

/-- the table has the method and calls every one of its results fresh. -/
def allFreshInTable (cls m : String) : Bool :=
  !(tableClasses cls m).isEmpty && (tableClasses cls m).all (· == "fresh")

/-- a provenance read off the code against a class of the table.  `delegate m` matches "delegate", and also "fresh" when
    the table itself calls every result of `m` fresh (the extractor does not name same-class delegation for vectors:
    `Vector.sort` ends in `….concat(…)`); "shallow" is the receiver's columns under a new dict. -/
def agrees (cls : String) (p : Prov) (c : String) : Bool :=
  match p with
  | .fresh => c == "fresh"
  | .delegate m => c == "delegate" || (c == "fresh" && allFreshInTable cls m) || (c == "shallow" && m == "__copy__")
  | .receiver => c == "receiver" || c == "shallow"
  | _ => false

/-- some site the table records for the method has a class the code's provenance agrees with. -/
def agreesWithTable (cls m : String) (p : Prov) : Bool := (tableClasses cls m).any (agrees cls p)

/-- a store target against the table: a local target needs nothing of the table; a target on the receiver must be one the
    table records for that method as a store on `self` (group_by's mark). -/
def storeAgrees (cls m : String) (p : Prov) : Bool :=
  p.isLocal || (p == .receiver && (tableStores cls m).any (fun c => c != "local" && c != "operand" && c != "unknown"))

end DI.PyEvalProv

/-! ### into the heap model of `Model/Heap.lean` -/

namespace DI.PyEvalProv

open DI.Heap

/-- where the heap model takes a result buffer of this provenance from (position `i` of the operand for an input). -/
def srcOf (i : Nat) : Prov → Src
  | .fresh => .fresh i
  | .delegate _ => .fresh i
  | .receiver => .recv i
  | .argument => .arg i
  | .unknown => .recv i

/-- the write the heap model performs for a store into an object of this provenance. -/
def wrOf (p : Prov) : Wr := if p.isLocal then .localBuf else if p == .argument then .arg 0 0 else .recv 0 0

/-- the effect of a regenerated body: one write per store site, one result column per result site, each with the
    provenance READ OFF THE CODE (the counterpart of `Heap.effectOf`, which takes them from the site table). -/
def codeEffect (o : DI.Py.Out) : Effect :=
  { writes := (storeProvs o).map wrOf,
    outs := (resultProvs o).zipIdx.map (fun x => ("", srcOf x.2 x.1)),
    group := [] }

end DI.PyEvalProv

/-
  Model/Bind.lean — combining and reshaping columns (C09): rbind, cbind, update, modify,
  select, unselect, rename at the level of "where does every output cell come from".
-/
namespace DI.Bind

/-- a frame: its row count and its column names in dict order. -/
structure Frame where
  nrow : Nat
  names : List String
  deriving Repr, DecidableEq, Inhabited

/-- provenance of an output cell. -/
inductive Src where
  | cell (frame : Nat) (col : String) (row : Nat)   -- a cell of input frame `frame`
  | na                                               -- a synthesised missing value
  | value (key : String) (row : Nat)                 -- row `row` of the value given for `key`
  deriving Repr, DecidableEq, Inhabited

abbrev OutCol := String × List Src

/-- `util.unique_keys`: first-seen order. -/
def uniqueKeys (ks : List String) : List String :=
  ks.foldl (fun acc k => if acc.contains k then acc else acc ++ [k]) []

def colCells (f : Nat) (c : String) (n : Nat) : List Src := (List.range n).map (fun r => Src.cell f c r)

/-- `rbind`: union of names in first-seen order; for every name the parts of all frames in
    argument order — the frame's own column, or `nrow` missing values. -/
def rbind (frames : List Frame) : List OutCol :=
  let names := uniqueKeys (frames.flatMap (·.names))
  names.map (fun c =>
    (c, (frames.zipIdx.map (fun (f, i) =>
      if f.names.contains c then colCells i c f.nrow else List.replicate f.nrow Src.na)).flatten))

/-- `_reconcile_column(column)` against a frame with `nrow` rows: a column of that length is
    taken as is, a length-one column is broadcast; anything else is rejected. -/
def reconcile (i : Nat) (c : String) (len nrow : Nat) (empty : Bool) : Option (List Src) :=
  if len = nrow || empty then some (colCells i c len)
  else if len = 1 ∧ 1 ≤ nrow then some (List.replicate nrow (Src.cell i c 0))
  else none

/-- the constructor's `dict(pairs)`: a repeated name keeps its first position, last value. -/
def dictOf (ps : List OutCol) : List OutCol :=
  ps.foldl (fun d p => if d.any (fun q => q.1 == p.1) then d.map (fun q => if q.1 == p.1 then p else q)
                       else d ++ [p]) []

/-- `cbind(self, *others)`: the first of duplicate names, every column reconciled to self.nrow. -/
def cbind (frames : List Frame) : Option (List OutCol) :=
  match frames with
  | [] => some []
  | self :: _ =>
    let cands := frames.zipIdx.flatMap (fun (f, i) => f.names.map (fun c => (c, i, f.nrow)))
    let firsts := cands.foldl (fun acc p => if acc.any (fun q => q.1 == p.1) then acc else acc ++ [p]) []
    firsts.mapM (fun (c, i, len) => (reconcile i c len self.nrow self.names.isEmpty).map (fun s => (c, s)))

/-- `update(self, other)`: self's columns not in other, then all of other's (reconciled). -/
def update (self other : Frame) : Option (List OutCol) :=
  let keep := (self.names.filter (fun c => !other.names.contains c)).map (fun c => (c, colCells 0 c self.nrow))
  (other.names.mapM (fun c => (reconcile 1 c other.nrow self.nrow self.names.isEmpty).map (fun s => (c, s)))).map
    (fun o => keep ++ o)

/-- ungrouped `modify(**kv)`: all columns of self, then the values (length `len`, reconciled);
    the constructor keeps the first position of a repeated name and takes the last value. -/
def modify (self : Frame) (kvs : List (String × Nat)) : Option (List OutCol) :=
  let own := self.names.map (fun c => (c, colCells 0 c self.nrow))
  (kvs.mapM (fun (k, len) =>
      (if len = self.nrow || self.names.isEmpty then some ((List.range len).map (fun r => Src.value k r))
       else if len = 1 ∧ 1 ≤ self.nrow then some (List.replicate self.nrow (Src.value k 0))
       else none).map (fun s => (k, s)))).map (fun vs => dictOf (own ++ vs))

/-- `select(*names)`: the named columns in the requested order. -/
def select (self : Frame) (cols : List String) : Option (List OutCol) :=
  if cols.all (fun c => self.names.contains c) then
    some (dictOf (cols.map (fun c => (c, colCells 0 c self.nrow))))
  else none

/-- `unselect(*names)`. -/
def unselect (self : Frame) (cols : List String) : List OutCol :=
  (self.names.filter (fun c => !cols.contains c)).map (fun c => (c, colCells 0 c self.nrow))

/-- `rename(**to_from)`: `from_to = {v: k}` (later wins), every column under its new name. -/
def rename (self : Frame) (toFrom : List (String × String)) : List OutCol :=
  let fromTo : List (String × String) := toFrom.foldl (fun acc p =>
      if acc.any (fun q => q.1 == p.2) then acc.map (fun q => if q.1 == p.2 then (p.2, p.1) else q)
      else acc ++ [(p.2, p.1)]) []
  dictOf (self.names.map (fun c =>
    (((fromTo.find? (fun q => q.1 == c)).map (·.2)).getD c, colCells 0 c self.nrow)))

end DI.Bind

/-
  Model/Heap.lean — buffers, frames as handle lists, and the effect of a method call (C06).
  A buffer is identified by its index in the heap; its content is an abstract value (`Nat`).
  What a method does is summarised by an `Effect`: the in-place writes it performs and, per result
  column, where the buffer it hands out comes from.
-/
namespace DI.Heap

abbrev Heap := List Nat

structure Frame where
  cols : List (String × Nat)        -- column name ↦ buffer id
  group : List String
  deriving DecidableEq, Repr

/-- where a result column's buffer comes from. -/
inductive Src where
  | fresh (content : Nat)           -- newly allocated (.copy(), np.take, fancy indexing, astype, …)
  | recv (i : Nat)                  -- the receiver's i-th column buffer itself (same object / a view)
  | arg (i : Nat)                   -- the argument's i-th column buffer itself
  deriving DecidableEq, Repr

/-- an in-place write performed while the method runs. -/
inductive Wr where
  | localBuf                        -- into a buffer the method allocated itself
  | recv (i : Nat) (v : Nat)        -- into the receiver's i-th column
  | arg (i : Nat) (v : Nat)         -- into the argument's i-th column
  deriving DecidableEq, Repr

structure Effect where
  writes : List Wr
  outs : List (String × Src)
  group : List String
  deriving Repr

def colId (f : Frame) (i : Nat) : Option Nat := (f.cols[i]?).map (·.2)

def applyWrite (recv arg : Frame) (h : Heap) : Wr → Heap
  | .localBuf => h
  | .recv i v => match colId recv i with | some id => h.set id v | none => h
  | .arg i v => match colId arg i with | some id => h.set id v | none => h

/-- allocate / alias the result columns left to right. -/
def allocOuts (recv arg : Frame) : Heap → List (String × Src) → Heap × List (String × Nat)
  | h, [] => (h, [])
  | h, (nm, .fresh c) :: rest =>
    let r := allocOuts recv arg (h ++ [c]) rest
    (r.1, (nm, h.length) :: r.2)
  | h, (nm, .recv i) :: rest =>
    let r := allocOuts recv arg h rest
    (r.1, (nm, (colId recv i).getD 0) :: r.2)
  | h, (nm, .arg i) :: rest =>
    let r := allocOuts recv arg h rest
    (r.1, (nm, (colId arg i).getD 0) :: r.2)

/-- run a method: its writes, then its result columns. -/
def exec (h : Heap) (recv arg : Frame) (e : Effect) : Heap × Frame :=
  let h1 := e.writes.foldl (applyWrite recv arg) h
  let r := allocOuts recv arg h1 e.outs
  (r.1, { cols := r.2, group := e.group })

/-- the property's shape for one call: no write outside the method's own buffers, every result buffer fresh. -/
def Effect.clean (e : Effect) : Prop :=
  (∀ w ∈ e.writes, w = Wr.localBuf) ∧ (∀ o ∈ e.outs, ∃ c, o.2 = Src.fresh c)

/-- what an observer sees of a frame: names, order, contents, grouping. -/
def view (h : Heap) (f : Frame) : List (String × Option Nat) × List String :=
  (f.cols.map (fun c => (c.1, h[c.2]?)), f.group)

/-- a later in-place edit through column `j` of frame `f`. -/
def poke (h : Heap) (f : Frame) (j v : Nat) : Heap :=
  match colId f j with
  | some id => h.set id v
  | none => h

/-! ### the documented exceptions -/

/-- `DataFrame.copy`: a new dict over the receiver's own column buffers. -/
def copyEffect (recv : Frame) : Effect :=
  { writes := [], outs := (List.range recv.cols.length).map (fun i => ((recv.cols[i]?.map (·.1)).getD "", Src.recv i)), group := [] }

/-- `group_by`: marks and returns the receiver. -/
def groupBy (f : Frame) (names : List String) : Frame := { f with group := names }

/-- dict-style edits: they change which buffers the receiver names, never a buffer. -/
def setItem (h : Heap) (f : Frame) (name : String) (content : Nat) : Heap × Frame :=
  let id := h.length
  (h ++ [content],
   if f.cols.any (·.1 == name) then { f with cols := f.cols.map (fun c => if c.1 == name then (name, id) else c) }
   else { f with cols := f.cols ++ [(name, id)] })

def delItem (f : Frame) (name : String) : Frame := { f with cols := f.cols.filter (·.1 != name) }

def setColnames (f : Frame) (names : List String) : Frame :=
  { f with cols := List.zipWith (fun n c => (n, c.2)) names f.cols }

/-! ### call sequences over a pool of live objects -/

structure Call where
  recv : Nat
  arg : Nat
  eff : Effect

def emptyFrame : Frame := { cols := [], group := [] }

/-- one step: run the call on the pool's objects and add the result to the pool. -/
def stepCall (s : Heap × List Frame) (c : Call) : Heap × List Frame :=
  let r := exec s.1 (s.2[c.recv]?.getD emptyFrame) (s.2[c.arg]?.getD emptyFrame) c.eff
  (r.1, s.2 ++ [r.2])

def runCalls (s : Heap × List Frame) (cs : List Call) : Heap × List Frame := cs.foldl stepCall s

end DI.Heap

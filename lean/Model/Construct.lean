/-
  Model/Construct.lean — `Vector.__new__` / `_std_to_np` / `_std_to_np_na_value` / `_np_array`
  and the missing-value predicates (dataiter/vector.py, C10), over element *kinds*.

  An element is abstracted to the Python / NumPy class it belongs to (plus, for strings, whether
  it is the empty string); the result is the dtype class and the `is_na` mask.
-/
namespace DI.Construct

inductive Kind where
  | none | nan                                   -- None, float('nan') / np.float64('nan')
  | bool | int | float | str (empty : Bool) | date | datetime | timedelta | bytes | obj
  | datesub                                      -- an instance of a proper subclass of date / datetime (pandas.Timestamp …)
  | npbool | npint | npfloat | npdt | npstr
  deriving Repr, DecidableEq, Inhabited

inductive DClass where
  | bool | int | float | str | ustr | date | datetime | timedelta | bytes | object
  deriving Repr, DecidableEq, Inhabited

/-- the value substituted for a missing element. -/
inductive NaVal where
  | pyNone | nan | emptyStr | nat
  deriving Repr, DecidableEq

def Kind.missing : Kind → Bool
  | .none | .nan => true
  | _ => false

/-- `util.unique_types`: classes of the non-missing elements. -/
def types (xs : List Kind) : List Kind :=
  (xs.filter (fun k => !k.missing)).map (fun k => match k with | .str _ => .str false | k => k) |>.eraseDups

def isNumpyKind : Kind → Bool
  | .npbool | .npint | .npfloat | .npdt | .npstr => true
  | _ => false

/-- `Vector.fast([], dtype).na_value`. -/
def naOfClass : DClass → NaVal
  | .float | .int => .nan
  | .str | .ustr => .emptyStr
  | .date | .datetime | .timedelta => .nat
  | _ => .pyNone

/-- `_std_to_np_na_value(types)`. -/
def naOfTypes (ts : List Kind) : NaVal :=
  if ts.isEmpty then .pyNone
  else if ts.contains (.str false) then .emptyStr
  else if ts.all (fun k => k == .float || k == .int || k == .npfloat || k == .npint) then .nan
  else if ts.all (fun k => k == .date || k == .datetime || k == .npdt) then .nat
  else .pyNone

/-- what one element looks like to `np.array` after the substitution. -/
inductive Elem where
  | pyNone | nanF | emptyS | natV | k (kind : Kind)
  deriving Repr, DecidableEq

def subst (na : NaVal) (x : Kind) : Elem :=
  if x.missing then (match na with | .pyNone => .pyNone | .nan => .nanF | .emptyStr => .emptyS | .nat => .natV)
  else .k x

/-- NumPy's dtype inference for a list of scalars (stand-in, see DESIGN.md): result class, or
    `none` when the combination is outside the table. -/
def npInfer (es : List Elem) : Option DClass :=
  let isStr (e : Elem) := match e with | .emptyS | .k (.str _) | .k .npstr => true | _ => false
  let isNone (e : Elem) := e == .pyNone
  let isNum (e : Elem) := match e with
    | .nanF | .k .bool | .k .int | .k .float | .k .npbool | .k .npint | .k .npfloat => true | _ => false
  let isFloat (e : Elem) := match e with | .nanF | .k .float | .k .npfloat => true | _ => false
  let isInt (e : Elem) := match e with | .k .int | .k .npint => true | _ => false
  let isDt64 (e : Elem) := match e with | .natV | .k .npdt => true | _ => false
  if es.isEmpty then some .float
  else if es.any isStr then
    (if es.all (fun e => isStr e || isNum e) then some .str else none)
  else if es.any isNone then some .object
  else if es.all isNum then
    (if es.any isFloat then some .float else if es.any isInt then some .int else some .bool)
  else if es.all isDt64 then (if es.all (· == .natV) then some .datetime else some .date)
  else if es.all (fun e => isDt64 e || e == .k .date || e == .k .datetime) then some .object
  else if es.all (· == .k .timedelta) then some .object
  else if es.all (· == .k .bytes) then some .bytes
  else if es.all (fun e => match e with
      | .k .obj | .k .datesub | .k .date | .k .datetime | .k .timedelta | .k .bool | .k .int | .k .float => true | _ => false)
      && es.any (fun e => e == .k .obj || e == .k .datesub) then some .object
  else none

/-- `is_na` on the stored element. -/
def isNaElem (c : DClass) (e : Elem) : Bool :=
  match c with
  | .float => e == .nanF
  | .str | .ustr => (match e with | .emptyS | .k (.str true) => true | _ => false)
  | .date | .datetime | .timedelta => e == .natV
  | .object => e == .pyNone
  | _ => false

structure Result where
  dclass : DClass
  na : List Bool
  deriving Repr, DecidableEq

/-- inferred dtype (no explicit `dtype`): the three branches of `_std_to_np`. -/
def construct (xs : List Kind) : Option Result :=
  let ts := types xs
  match ts with
  | [t] =>
    if isNumpyKind t then
      -- a list of NumPy scalars of one type: dtype = that scalar type
      let c : DClass := match t with
        | .npbool => .bool | .npint => .int | .npfloat => .float | .npdt => .date | _ => .ustr
      let na := naOfClass c
      let c' := if c == .int && xs.any (·.missing) then DClass.float else c      -- upcast integer to float
      -- np.array(seq, bool) turns None into False: the missing value cannot be held
      some { dclass := c', na := xs.map (fun x => isNaElem c' (subst na x)) }
    else
      let na := naOfTypes ts
      let es := xs.map (subst na)
      let c := if t == .date then some DClass.date else if t == .datetime then some DClass.datetime else npInfer es
      c.map (fun c => { dclass := c, na := es.map (isNaElem c) })
  | _ =>
    let na := naOfTypes ts
    let es := xs.map (subst na)
    -- np.datetime64 is discarded from the types before TYPE_CONVERSIONS
    let ts' := ts.filter (· != .npdt)
    let c := if ts' == [.date] then some DClass.date else if ts' == [.datetime] then some DClass.datetime else npInfer es
    c.map (fun c => { dclass := c, na := es.map (isNaElem c) })

/-- is every element of a kind that the explicit dtype stores as itself? -/
def fits (c : DClass) (x : Kind) : Bool :=
  x.missing || (match c, x with
    | .bool, .bool | .bool, .npbool => true
    | .int, .int | .int, .npint | .int, .bool => true
    | .float, .float | .float, .npfloat | .float, .int | .float, .npint => true
    | .str, .str _ => true
    | .date, .date | .date, .npdt | .date, .datesub => true
    | .datetime, .datetime | .datetime, .date | .datetime, .npdt | .datetime, .datesub => true
    | .timedelta, .timedelta => true
    | .object, _ => true
    | _, _ => false)

/-- explicit dtype: `na = Vector.fast([], dtype).na_value`; integers are upcast to float when a
    missing value is present; `none` when an element is not of the dtype's own kind. -/
def constructWith (c : DClass) (xs : List Kind) : Option Result :=
  if xs.all (fits c) then
    let na := naOfClass c
    let c' := if c == .int && xs.any (·.missing) then DClass.float else c
    some { dclass := c', na := xs.map (fun x => isNaElem c' (subst na x)) }
  else none

end DI.Construct

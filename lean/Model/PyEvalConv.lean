/-
  Model/PyEvalConv.lean — a small total evaluator (denotational semantics) for the terms that the source translator
  `harness/py2lean.py` emits for the conversions between a data frame and a list of dicts / JSON
  (`Generated/CodeC13.lean`: `DataFrame.to_list_of_dicts`, `DataFrame.to_json`, `ListOfDicts._to_columns`,
  `ListOfDicts.to_data_frame`, `ListOfDicts.to_json`, `Vector.tolist`).

  `Proofs/TieC13.lean` shows what the regenerated bodies ARE (normal forms); this file says what they MEAN;
  `Proofs/EvalC13.lean` proves that the meaning is the model of `Model/Convert.lean` (`toRecords`, `toColumns`).

  * a data frame is `DI.PyEval.Frame` (`Model/PyEvalFrame.lean`): (name, cells) in dict order, a cell `none` = the
    column's missing value; a record (one dict of a list of dicts) is the model's own `Rec Cell`
    (`Model/ReadRestrict.lean`): (key, value) in insertion order, a value `none` = Python's `None`;
  * values `Val`: `None`, bools, ints, strings (names / keys), one Python scalar `cell c`, a column (a `Vector`) `col c`,
    a plain object array `arr l` (what `np.where(…, None, …)` gives), a Python list of scalars `list l`, a tuple of
    names, `range n`, a frame, one dict of scalars `dict r`, a list of dicts `dicts l` (also a `ListOfDicts`: the
    bookkeeping of C17 is not repeated here), a dict name → list `cols d`, keyword arguments `kwargs k` (name ↦ a literal:
    `Opt`), `**x` (`kwstar`), a JSON text, 2-tuples.  The empty dict literal `{}` is `dict []`; `DataFrame(**x)` accepts it
    like `cols []`;
  * dict semantics: `d[k] = v` (`dictSet`) keeps the position of an existing key and appends a new one; iterating a
    dict yields its keys in order; `x.get(k, default)` (`recGet`);
  * `[{} for i in range(n)]` creates `n` DISTINCT empty dicts: lists of records are by value here, which is right for a
    comprehension (it would be wrong for `[{}] * n`);
  * the translator inlines an assigned local into its later uses (`let` shadowing), so the list `data = [{} for …]`
    appears as its defining comprehension at every use, also as the target of `data[i][colname] = value`.  As in
    `Model/PyEvalArr.lean`, the store therefore maps such a TERM to the current contents of the object it created: the
    item assignment records the new contents under that key, and an expression that is a key of the store denotes its
    current contents;
  * **primitives — the trusted part** (`prim`): `self.nrow`, `self.colnames`, `range(n)`, `self[name]` (KeyError = `none`),
    `data[i]` (IndexError = `none`), `v.is_na()` of a column (the `none` cells — evaluated from its own body in
    `Model/PyEvalNa.lean`), `np.where(m, None, v)`, `.tolist()` of that array, `pluck(key)`
    (`[x.get(key, None) for x in self]`), `ListOfDicts(data)`, `DataFrame(**columns)` (each list becomes a column, `None` ↦
    the missing value; which dtype the constructor infers is `C13.dtype_comes_back_general`; the lists must have one
    length — broadcasting of length-1 columns never arises here), and
    **`json.dumps(records, **kwargs)` / `json.loads` stay PARAMETERS (`Json`)**: the only thing the theorems use about them is
    `Json.Faithful` — `loads (dumps recs kw) = some recs` on JSON-able records (`JsonAble`: distinct keys, values None /
    bool / int / str) — stated as a hypothesis where it is used.  That is the trusted link to the `json` module;
  * method calls (`self.to_list_of_dicts()`, `x.to_json(**kw)`, `self._to_columns()`, `column.tolist()`) go through a method
    table `Methods`; `M1` / `M2` interpret them by RUNNING the regenerated bodies of `Generated/CodeC13.lean`;
  * statements: `for` (over a tuple of names, a list, `enumerate(list)`, `range`), `data[i][k] = v`,
    `kwargs.setdefault(k, literal)`; `runRet` = the value a body returns after its statements ran from the empty store;
  * `none` = unsupported form or Python exception.
-/
import Model.Basic
import Model.PyCore
import Model.PyEvalFrame
import Model.PyEvalLift
import Model.Convert
import Generated.CodeC13

namespace DI.PyEvalConv

open DI DI.Py DI.Read

/-- decidable equality of terms (the keys of the store): the one of `Model/PyEvalLift.lean`. -/
scoped instance : DecidableEq Term := DI.PyEvalLift.termDecEq

abbrev Frame := DI.PyEval.Frame

/-- one dict of a list of dicts: (key, value) in insertion order; the value `none` is `None`. -/
abbrev Record := Rec Cell

/-- a literal keyword value (`default=str`, `ensure_ascii=False`, `indent=2`). -/
inductive Opt where
  | name (s : String)
  | bool (b : Bool)
  | int (i : Int)
  deriving DecidableEq, Repr, Inhabited

/-- the `json` module: `dumps(records, **kwargs)` and `loads(text)`. -/
structure Json where
  dumps : List Record → List (String × Opt) → String
  loads : String → Option (List Record)

/-- a JSON-able scalar: None, a bool, an int, a str (an opaque object is written with `default=str`: not invertible). -/
def jsonCell : Cell → Bool
  | none => true
  | some (.b _) => true
  | some (.i _) => true
  | some (.s _) => true
  | some (.o _) => false

/-- JSON-able records: real dicts (distinct keys) of JSON-able scalars. -/
def JsonAble (recs : List Record) : Prop :=
  ∀ r ∈ recs, (r.map (·.1)).Nodup ∧ ∀ p ∈ r, jsonCell p.2 = true

/-- the trusted link: `json.loads` inverts `json.dumps` on JSON-able records, whatever the formatting options. -/
def Json.Faithful (J : Json) : Prop :=
  ∀ (recs : List Record) (kw : List (String × Opt)), JsonAble recs → J.loads (J.dumps recs kw) = some recs

/-! ### values -/

inductive Val where
  | none
  | bool (b : Bool)
  | int (i : Int)
  | str (s : String)                              -- a column name / a key
  | name (s : String)                             -- an opaque object or a literal, by its source text
  | cell (c : Cell)                               -- one Python scalar; `none` = None
  | col (c : List Cell)                           -- a column (Vector); `none` = its missing value
  | arr (l : List Cell)                           -- a plain object array; `none` = None
  | mask (m : List Bool)
  | list (l : List Cell)                          -- a Python list of scalars; `none` = None
  | strs (l : List String)
  | range (n : Nat)
  | frame (f : Frame)
  | dict (r : Record)
  | dicts (l : List Record)                       -- a list of dicts / a ListOfDicts
  | cols (d : List (String × List Cell))          -- a dict name → list
  | kwargs (k : List (String × Opt))
  | kwstar (v : Val)                              -- `**v`
  | text (s : String)                             -- a JSON text
  | pair (a b : Val)
  deriving DecidableEq, Repr, Inhabited

abbrev Env := List (String × Val)

/-- the objects written so far: defining term ↦ current contents. -/
abbrev Store := List (Term × Val)

abbrev Methods := String → List Val → Option Val

def Env.get? (env : Env) (x : String) : Option Val := (env.find? (fun p => p.1 == x)).map (·.2)

def Store.find : Store → Term → Option Val
  | [], _ => none
  | (k, v) :: r, t => if k = t then some v else Store.find r t

/-- record the new contents of the object created by term `k`. -/
def Store.set : Store → Term → Val → Store
  | [], k, v => [(k, v)]
  | (k', v') :: r, k, v => if k' = k then (k, v) :: r else (k', v') :: Store.set r k v

/-- a name: the constants, else the binding of the environment, else an object known by its source text. -/
def lookupSym (env : Env) : String → Val
  | "True" => .bool true
  | "False" => .bool false
  | "None" => .none
  | "{}" => .dict []
  | s => match env.get? s with
    | some v => v
    | none => .name s

/-! ### primitives (trusted part) -/

/-- `d[k] = v` on an insertion-ordered dict: an existing key keeps its position and takes the new value. -/
def dictSet {β : Type} (d : List (String × β)) (k : String) (v : β) : List (String × β) :=
  if d.any (fun q => q.1 == k) then d.map (fun q => if q.1 == k then (k, v) else q) else d ++ [(k, v)]

/-- `x.get(k, default)`. -/
def recGet (r : Record) (k : String) (dflt : Cell) : Cell :=
  match lookup r k with
  | some v => v
  | none => dflt

/-- `kwargs.setdefault(k, v)`. -/
def kwSetDefault (kw : List (String × Opt)) (k : String) (v : Opt) : List (String × Opt) :=
  if kw.any (fun q => q.1 == k) then kw else kw ++ [(k, v)]

/-- all results, or `none` if one failed. -/
def allSome {α : Type} : List (Option α) → Option (List α)
  | [] => some []
  | none :: _ => none
  | some a :: t => match allSome t with
    | none => none
    | some l => some (a :: l)

/-- a list display of dicts. -/
def collectDicts : List Val → Option (List Record)
  | [] => some []
  | .dict r :: t => match collectDicts t with
    | none => none
    | some l => some (r :: l)
  | _ :: _ => none

/-- what iterating over a value yields. -/
def itemsOf : Val → Option (List Val)
  | .strs l => some (l.map Val.str)
  | .list l => some (l.map Val.cell)
  | .range n => some ((List.range n).map (fun (k : Nat) => Val.int k))
  | .dict r => some (r.map (fun p => Val.str p.1))          -- iterating a dict: its keys
  | _ => none

/-- `enumerate(xs)`. -/
def enumerate (xs : List Val) : List Val := xs.zipIdx.map (fun p => Val.pair (.int (p.2 : Nat)) p.1)

def toOpt : Val → Option Opt
  | .name s => some (.name s)
  | .bool b => some (.bool b)
  | .int i => some (.int i)
  | _ => none

/-- Python truthiness of the values these bodies test. -/
def truthy : Val → Bool
  | .bool b => b
  | .dicts l => !l.isEmpty
  | .none => false
  | _ => true

/-- calls with evaluated arguments. -/
def prim (J : Json) : String → List Val → Option Val
  | ".nrow", [.frame f] => some (.int (DI.PyEval.nrow f : Nat))
  | ".colnames", [.frame f] => some (.strs (DI.PyEval.names f))
  | "range", [.int n] => some (.range n.toNat)
  | "getitem", [.frame f, .str n] => (DI.PyEval.colOf? f n).map Val.col
  | "getitem", [.dicts l, .int i] =>
    match DI.PyEval.normIdx l.length i with
    | none => none
    | some k => (l[k]?).map Val.dict
  | ".is_na", [.col c] => some (.mask (c.map (·.isNone)))
  | "np.where", [.mask m, .none, .col c] =>
    if m.length = c.length then some (.arr (List.zipWith (fun b x => if b then (none : Cell) else x) m c)) else none
  | ".tolist", [.arr l] => some (.list l)
  | ".pluck", [.dicts l, .str k] => some (.list (l.map (fun r => recGet r k none)))
  | "=**", [v] => some (.kwstar v)
  | "ListOfDicts", [.dicts l] => some (.dicts l)
  | "DataFrame", [.kwstar (.cols d)] =>
    (match d with
     | [] => some (.frame [])
     | p :: t => if t.all (fun q => q.2.length == p.2.length) then some (.frame (p :: t)) else none)
  | "DataFrame", [.kwstar (.dict [])] => some (.frame [])
  | "json.dumps", [.dicts l, .kwstar (.kwargs k)] => some (.text (J.dumps l k))
  | _, _ => none

/-- the calls interpreted by the method table (by running a regenerated body). -/
def isMethod : String → List Val → Bool
  | ".tolist", [.col _] => true
  | ".to_list_of_dicts", _ => true
  | ".to_json", _ => true
  | "._to_columns", _ => true
  | ".to_data_frame", _ => true
  | _, _ => false

/-- bind a loop target (`x` or `(a, b)`) to an item. -/
def bindPat (env : Env) : Term → Val → Option Env
  | .sym x, v => some ((x, v) :: env)
  | .app "tuple" [.sym a, .sym b], .pair x y => some ((b, y) :: (a, x) :: env)
  | _, _ => none

/-- run `step` over the items, threading the state; `none` as soon as a step fails. -/
def loop {σ : Type} (step : σ → Val → Option σ) : σ → List Val → Option σ
  | s, [] => some s
  | s, v :: vs => match step s v with
    | none => none
    | some s' => loop step s' vs

/-! ### the evaluator -/

mutual

/-- expressions (no effect on the store). -/
def evalExpr (J : Json) (M : Methods) (σ : Store) (env : Env) : Term → Option Val
  | .int i => some (.int i)
  | .rows _ => none
  | .slice _ _ => none
  | .sym s => some (lookupSym env s)
  | .app g args =>
    let vs := evalArgs J M σ env args
    -- an object that has been written: its current contents
    match σ.find (.app g args) with
    | some v => some v
    | none =>
      match g, args with
      -- `[elem for pat in src]`, the elements being dicts
      | "ListComp", [elem, .app "in" [pat, src, .app "if" []]] =>
        match evalExpr J M σ env src with
        | none => none
        | some s => match itemsOf s with
          | none => none
          | some its =>
            match allSome (its.map (fun it => match bindPat env pat it with
                | none => none
                | some env' => evalExpr J M σ env' elem)) with
            | none => none
            | some vs => (collectDicts vs).map Val.dicts
      -- `{ke: ve for pat in src}`, the keys being names and the values lists
      | "DictComp", [.app "pair" [ke, ve], .app "in" [pat, src, .app "if" []]] =>
        match evalExpr J M σ env src with
        | none => none
        | some s => match itemsOf s with
          | none => none
          | some its =>
            (loop (fun d it => match bindPat env pat it with
              | none => none
              | some env' => match evalExpr J M σ env' ke, evalExpr J M σ env' ve with
                | some (.str k), some (.list l) => some (dictSet d k l)
                | _, _ => none) [] its).map Val.cols
      | _, _ =>
        match vs with
        | none => none
        | some vs => if isMethod g vs then M g vs else prim J g vs

def evalArgs (J : Json) (M : Methods) (σ : Store) (env : Env) : List Term → Option (List Val)
  | [] => some []
  | t :: ts => match evalExpr J M σ env t, evalArgs J M σ env ts with
    | some v, some vs => some (v :: vs)
    | _, _ => none

/-- statements: the environment and the store are threaded through. -/
def execStmt (J : Json) (M : Methods) (env : Env) (σ : Store) : Term → Option (Env × Store)
  | .app "for" [pat, iter, .app "block" body] =>
    let its : Option (List Val) := match iter with
      | .app "enumerate" [e] => (match evalExpr J M σ env e with | some v => (itemsOf v).map enumerate | none => none)
      | _ => (match evalExpr J M σ env iter with | some v => itemsOf v | none => none)
    match its with
    | none => none
    | some its =>
      loop (fun (st : Env × Store) it => match bindPat st.1 pat it with
        | none => none
        | some env' => execBlock J M env' st.2 body) (env, σ) its
  -- `obj[i][k] = e`: the value first, then the target
  | .app "store" [.app "getitem" [.app "getitem" [obj, i], k], e] =>
    match evalExpr J M σ env e, evalExpr J M σ env obj, evalExpr J M σ env i, evalExpr J M σ env k with
    | some (.cell v), some (.dicts l), some (.int i), some (.str k) =>
      (match DI.PyEval.normIdx l.length i with
       | none => none
       | some j => some (env, σ.set obj (.dicts (l.modify j (fun r => dictSet r k v)))))
    | _, _, _, _ => none
  -- `d.setdefault(key, literal)` on the keyword dict bound to the name `d`
  | .app ".setdefault" [.sym d, key, val] =>
    match env.get? d, evalExpr J M σ env key, evalExpr J M σ env val with
    | some (.kwargs kw), some (.name k), some v =>
      (match toOpt v with
       | none => none
       | some o => some ((d, .kwargs (kwSetDefault kw k o)) :: env, σ))
    | _, _, _ => none
  | _ => none

def execBlock (J : Json) (M : Methods) (env : Env) (σ : Store) : List Term → Option (Env × Store)
  | [] => some (env, σ)
  | s :: ss => match execStmt J M env σ s with
    | none => none
    | some (env', σ') => execBlock J M env' σ' ss

end

/-- the value a translated body returns: its statements (`Out.effs`) run in order from the empty store, then the returned
    expression is evaluated (`none`: it raises or falls through). -/
def runRet (J : Json) (M : Methods) (env : Env) : Out → Option Val
  | .ret effs t => match execBlock J M env [] effs with
    | some (env', σ) => evalExpr J M σ env' t
    | none => none
  | _ => none

/-- the answer of the evaluator to a symbolic test: the truthiness of its value. -/
def truthOf (J : Json) (M : Methods) (env : Env) (t : Term) : Bool :=
  match evalExpr J M [] env t with
  | some v => truthy v
  | none => false

/-- run a regenerated body, its tests answered by the evaluator. -/
def run (J : Json) (M : Methods) (env : Env) (body : (Term → Bool) → Out) : Option Val :=
  runRet J M env (body (truthOf J M env))

/-! ### the method table: the regenerated bodies, run -/

def M0 : Methods := fun _ _ => none

/-- `column.tolist()`, `self._to_columns()`, `ListOfDicts.to_json(**kwargs)`: bodies that call primitives only. -/
def M1 (J : Json) : Methods
  | ".tolist", [.col c] => run J M0 [("self", .col c)] DI.Gen.Vector_tolist13
  | "._to_columns", [.dicts l] => run J M0 [("self", .dicts l)] DI.Gen.ListOfDicts_to_columns
  | ".to_json", [.dicts l, .kwstar (.kwargs k)] =>
    run J M0 [("self", .dicts l), ("kwargs", .kwargs k)] DI.Gen.ListOfDicts_to_json
  | _, _ => none

/-- `DataFrame.to_list_of_dicts()` (calls `tolist`), `ListOfDicts.to_data_frame()` (calls `_to_columns`). -/
def M2 (J : Json) : Methods
  | ".to_list_of_dicts", [.frame f] => run J (M1 J) [("self", .frame f)] DI.Gen.DataFrame_to_list_of_dicts
  | ".to_data_frame", [.dicts l] => run J (M1 J) [("self", .dicts l)] DI.Gen.ListOfDicts_to_data_frame
  | f, vs => M1 J f vs

/-- `frame.to_list_of_dicts()`. -/
def toListOfDictsRun (J : Json) (self : Frame) : Option Val := M2 J ".to_list_of_dicts" [.frame self]

/-- `records.to_data_frame()`. -/
def toDataFrameRun (J : Json) (recs : List Record) : Option Val := M2 J ".to_data_frame" [.dicts recs]

/-- `frame.to_json(**kwargs)` (calls `to_list_of_dicts` and `ListOfDicts.to_json`). -/
def toJsonRun (J : Json) (self : Frame) (kw : List (String × Opt)) : Option Val :=
  run J (M2 J) [("self", .frame self), ("kwargs", .kwargs kw)] DI.Gen.DataFrame_to_json

/-- `frame.to_list_of_dicts().to_data_frame()`. -/
def roundtripRun (J : Json) (self : Frame) : Option Val :=
  match toListOfDictsRun J self with
  | some (.dicts recs) => toDataFrameRun J recs
  | _ => none

/-- the keyword arguments `ListOfDicts.to_json` hands to `json.dumps`: the caller's, then the three defaults. -/
def jsonDefaults (kw : List (String × Opt)) : List (String × Opt) :=
  kwSetDefault (kwSetDefault (kwSetDefault kw "'default'" (.name "str")) "'ensure_ascii'" (.bool false)) "'indent'" (.int 2)

end DI.PyEvalConv

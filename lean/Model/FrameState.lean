/-
  Model/FrameState.lean — DataFrame as a state machine over its public dict/attribute
  surface (C01): which columns exist, their lengths, and which instance attributes hold the
  column placeholder.  Values are abstracted to their shape.
-/
namespace DI.FS

/-- the shape of a value handed to the constructor / to an assignment. -/
inductive Shape where
  | scalar                 -- util.is_scalar: broadcastable, `util.length` = 1
  | seq (len : Nat)        -- one-dimensional sequence / array / vector of that length
  | nd                     -- array with ndim ≠ 1: `Vector._check_dimensions` rejects it
  deriving Repr, DecidableEq, Inhabited

def Shape.length : Shape → Nat
  | .scalar => 1
  | .seq n => n
  | .nd => 2               -- `len()` of a 2-d array (the harness uses 2 × k arrays)

structure State where
  cols : List (String × Nat)      -- dict order: name, column length
  attrs : List String             -- instance attributes holding COLUMN_PLACEHOLDER
  deriving Repr, DecidableEq, Inhabited

/-- static facts about names, computed by Python: `str.isidentifier()` and
    `name in dir(DataFrame())` (class attributes / methods / properties). -/
structure Names where
  ident : String → Bool
  classAttr : String → Bool

def State.names (s : State) : List String := s.cols.map (·.1)
def State.has (s : State) (k : String) : Bool := s.cols.any (fun c => c.1 == k)
def State.nrow (s : State) : Nat := match s.cols with | [] => 0 | c :: _ => c.2

/-- `DataFrameColumn(value, nrow=nrow)`: one-dimensional, broadcast iff length 1 and nrow ≥ 1. -/
def column (v : Shape) (nrow : Option Nat) : Option Nat :=
  match v with
  | .nd => none
  | _ =>
    let len := v.length
    match nrow with
    | none => some len
    | some n => if n = len then some len else if len ≠ 1 ∨ n < 1 then none else some n

/-- `dict(pairs)`: a repeated key keeps its first position and takes the last value. -/
def dictOf (ps : List (String × Shape)) : List (String × Shape) :=
  ps.foldl (fun d p => if d.any (fun q => q.1 == p.1) then d.map (fun q => if q.1 == p.1 then p else q)
                       else d ++ [p]) []

/-- does `__hasattr(name)` hold: an attribute that exists and is not a column? -/
def hasNonColumnAttr (nm : Names) (s : State) (k : String) : Bool :=
  if nm.classAttr k then true
  else if s.attrs.contains k then !s.has k      -- a placeholder is swapped for the column
  else false

def addPlaceholder (nm : Names) (s : State) (k : String) : State :=
  if !hasNonColumnAttr nm s k && nm.ident k && !s.attrs.contains k then { s with attrs := s.attrs ++ [k] } else s

/-- `DataFrame.__init__`: `dict(pairs)`; `nrow = max(map(util.length, values), default=0)`;
    every value becomes `DataFrameColumn(value, nrow=nrow)` (which has `nrow` elements whenever it
    is accepted); every identifier key that is not otherwise an attribute gets the placeholder. -/
def new (nm : Names) (ps : List (String × Shape)) : Option State :=
  let d := dictOf ps
  let nrow := (d.map (fun p => p.2.length)).foldl max 0
  if d.all (fun p => (column p.2 (some nrow)).isSome) then
    some { cols := d.map (fun p => (p.1, nrow)),
           attrs := (d.map (·.1)).filter (fun k => nm.ident k && !nm.classAttr k) }
  else none

/-- `_reconcile_column` + `__setitem__`. -/
def setitem (nm : Names) (s : State) (k : String) (v : Shape) : Option State :=
  let nrow := if s.cols.isEmpty then none else some s.nrow
  match column v nrow with
  | none => none
  | some n =>
    let s1 := addPlaceholder nm s k
    some (if s1.has k then { s1 with cols := s1.cols.map (fun c => if c.1 == k then (k, n) else c) }
          else { s1 with cols := s1.cols ++ [(k, n)] })

/-- clean-up shared by `__delitem__`, `pop`, `popitem`. -/
def dropAttr (nm : Names) (s : State) (k : String) : State :=
  if !nm.classAttr k then { s with attrs := s.attrs.filter (· != k) } else s

def delitem (nm : Names) (s : State) (k : String) : Option State :=
  if s.has k then some (dropAttr nm { s with cols := s.cols.filter (fun c => c.1 != k) } k) else none

/-- `columns = [self.pop(fm) for fm, to in pairs]` of the `colnames` setter. -/
def popAll (nm : Names) : State → List String → Option (State × List Nat)
  | s, [] => some (s, [])
  | s, k :: ks =>
    match s.cols.find? (fun c => c.1 == k) with
    | none => none
    | some c =>
      match delitem nm s k with
      | none => none
      | some s' => (popAll nm s' ks).map (fun r => (r.1, c.2 :: r.2))

/-- `for (fm, to), column in zip(pairs, columns): self[to] = column`. -/
def assignAll (nm : Names) : State → List (String × Nat) → Option State
  | s, [] => some s
  | s, (k, n) :: rest =>
    match setitem nm s k (.seq n) with
    | none => none
    | some s' => assignAll nm s' rest

inductive Op where
  | setitem (k : String) (v : Shape)
  | setattr (k : String) (v : Shape)
  | delitem (k : String)
  | delattr (k : String)
  | pop (k : String)
  | popitem
  | colnames (ns : List String)
  | rebuild (ps : List (String × Shape))     -- any transforming method: `self._new(generator)`
  deriving Repr, DecidableEq

/-- one public operation; `none` = rejected with an exception, the state is unchanged. -/
def step (nm : Names) (s : State) : Op → Option State
  | .setitem k v => setitem nm s k v
  | .setattr k v => setitem nm s k v          -- `k` is never one of ATTRIBUTES in the harness
  | .delitem k => delitem nm s k
  | .delattr k => delitem nm s k              -- `name in self`; otherwise AttributeError
  | .pop k => delitem nm s k
  | .popitem =>
    match s.cols.getLast? with
    | none => none
    | some c => delitem nm s c.1
  | .colnames ns =>
    -- pairs = zip(old, new); pop all renamed columns, then assign them one by one
    let pairs := s.names.zip ns
    match popAll nm s (pairs.map (·.1)) with
    | none => none
    | some (st, lens) => assignAll nm st ((pairs.map (·.2)).zip lens)
  | .rebuild ps => new nm ps

/-- what `getattr(data, name)` gives. -/
inductive Attr where
  | column | builtin | placeholderLeak | attributeError
  deriving Repr, DecidableEq

def lookupAttr (nm : Names) (s : State) (k : String) : Attr :=
  if s.attrs.contains k then (if s.has k then .column else .placeholderLeak)
  else if nm.classAttr k then .builtin
  else if s.has k then .column
  else .attributeError

/-- the well-formedness invariant of C01. -/
def Inv (nm : Names) (s : State) : Prop :=
  s.names.Nodup ∧ (∀ c ∈ s.cols, c.2 = s.nrow) ∧
  (∀ k, k ∈ s.attrs ↔ (k ∈ s.names ∧ nm.ident k = true ∧ nm.classAttr k = false))

end DI.FS

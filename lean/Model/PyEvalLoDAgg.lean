/-
  Model/PyEvalLoDAgg.lean — the evaluator of `Model/PyEval.lean` / `Model/PyEvalLoDJoin.lean` extended (additively: NEW
  evaluators that fall back on `evalJE` / `evalJS` for every form they do not list) to the remaining bodies of
  `ListOfDicts`: `sort`, `head`, `tail`, `extend`, `__getitem__` (`Generated/CodeC15.lean`, normal forms in
  `Proofs/TieC15.lean`) and `group_by`, `_split_join_by`, `aggregate`, `full_join` (`Generated/CodeC16.lean`,
  `Proofs/TieC16.lean`).  Same values (`PVal`), store, environment as before.  THE TRUSTED READING:

  **`sorted(xs, key=f, reverse=r)`** (`sortedBy`): the keys `f(x)` are computed first, for every element in list order
  (the key function is a local `def`; its body is evaluated with the parameter bound on top of the environment AT THE
  CALL — the closure reads `key` / `dir` of the iteration in which it was defined, which is the iteration in which it is
  called).  The keys must be PAIRWISE comparable (`pyLt` defined for every pair: bool with bool, int with int, str with
  str, tuples of those lexicographically with `==` deciding where they first differ — so `(True, None)` against
  `(True, None)` never compares the `None`s); otherwise `none` (CPython raises TypeError as soon as a comparison it makes
  fails; a list whose keys are pairwise comparable never raises).  The result is THE stable sort by `a ≤ b := ¬ (b < a)`;
  with `reverse=True` every comparison is flipped and ties still keep their original order (`argsortPy` of `Model/Basic`).
  It is computed by stable insertion (`isort`) so that the kernel can evaluate it; `Lemmas/PyEvalLoDAgg.lean`
  (`isort_eq_mergeSort`) proves it equal to `List.mergeSort` — the stable merge sort — for every total preorder.
  `itertools.groupby` does not occur in these bodies: `aggregate` buckets the items in a dict of lists
  (`items_by_group.setdefault(id, []).append(item)`), which is read as such (below).

  **allocation**.  `Store.fresh σ` is an id larger than every id of `σ`; `Store.alloc` appends the new object.
  `deepcopy` allocates one copy per POSITION (`map(copy.deepcopy, self)`: an object listed twice is copied twice).
  `ListOfDicts(xs)` / `self.__class__(xs)` (no `as_is`) wrap every element in a NEW `AttributeDict` (a shallow copy).  A
  generator method decorated `new_from_generator` returns the list of the yielded values; a dict yielded BY VALUE (what
  `AttributeDict(…)` is in `Model/PyEvalLoDJoin.lean`) becomes a new object of the store at that moment (`materialize`).

  **method calls** (`evalAM`).  A ListOfDicts is the tuple of its item references.  `x.unique(*ks)`, `x.select(*ks)`,
  `x.left_join(y, *by)`, `x.anti_join(y, *by)`, `x.fill_missing_keys(k=v)`, `x.unselect(*ks)`, `x + y`, `x.sort(**pairs)` are
  evaluated BY RUNNING THE BODY OF THAT METHOD — the record `Bodies` holds the regenerated statement terms; `Proofs/`
  instantiates it with `Generated/CodeC15.lean` / `CodeC16.lean` — in the environment that binds its parameters (`self`,
  `other`, `keys` / `by` = the tuple of the positional arguments with `*e` spliced, `key_value_pairs` / `key_dir_pairs` =
  the keyword dict), with the evaluator that gives that body its meaning elsewhere (`run` for fill_missing_keys / unselect /
  `+`, `runJ` for unique / select / left_join / anti_join, `retA` below for sort).  `_new` keeps the yielded objects.  List
  attributes other than the receiver's `_group_keys` (`_predecessor`, the obsolete flag, `_group_keys` of derived lists) are
  not modelled.
  * keyword arguments: `=_aid_ [e]` / `=_bid_ [e]` (the only keyword names in these bodies) and `=** [e]` (a dict spliced);
    the keyword dict is `dict(pairs)` (`aofPairs`: a repeated key keeps its first position and takes the last value — so
    `dict.fromkeys(by, 1)` lists a group key given twice once).
  * **sharing**: the translator inlines locals into their uses (`a`, `b`, `ab`, … of `full_join` occur several times as
    the same sub-term).  A method-call term that has already been evaluated in the current expression is NOT evaluated
    again: its value is remembered (`memo`, keyed by the term, `Term.beq`) — every syntactically identical call denotes the
    one local it was inlined from (no call is written twice in these sources).
  * **the counters** of `full_join`: `acounter` / `bcounter` are inlined to the same term
    `itertools.count(start=1)`; an occurrence `next(<that term>)` under the keyword `_aid_` / `_bid_` denotes the counter of
    that name (in the source each counter is used only under its own keyword); the state of the counters is `ctr`.
    `x.modify(k=lambda x: next(counter))` is read directly: the items of `x`, in order, get `item[k] = next(counter)`.
  * `len(x)`, `a == b` with effectful operands; everything else is a pure expression (`evalAE`).

  **pure expressions** `evalAE` (new forms; the rest is `evalJE`): the string literals `'_aid_'` / `'_bid_'`;
  `self._group_keys` (kept in the environment under the reserved name `groupKeysName`); `value-after-loop [x, loop]` (the
  local `x` after the loop = its current binding); `._new [self, e]`; `x[a:b]` (`Term.slice`, positions `Py.sliceIdx`),
  `list(x)[::-1]`; `super().__getitem__(index)` (an int: the element, IndexError = `none`; a slice object, encoded
  `sliceVal a b`: the sub-list); `x is None` / `is not None`, `<` / `>` on ints, `isinstance(x, str)` /
  `isinstance(x, (list, tuple))`, `reversed(x)`, the call `tuple(x)`, tuple displays, conditional expressions, list comprehensions
  without condition, `itemgetter(*ks)(x)`, `dict.fromkeys`, `itertools.chain`, `self.__class__(xs)` (new dicts by value);
  `items_by_group[k]` — the translator inlines the initialiser of the local `items_by_group = {}`, so in
  `.setdefault [{} , k, list []]` and `getitem [{}, k]` the term `{}` DENOTES THAT LOCAL; its contents (a dict value:
  key ↦ tuple of items) are kept in the environment under the reserved name `bucketsName`.

  **statements**: `evalAS` (state `ASt` = `St` + the local `def`s) for the bodies without method calls: `for … init [x, e]`
  (the translator's record of the value of the loop-carried local `x` before the loop: bound if it has a value), `def`,
  `raise` (= `none`), `assign` (also of `sorted(…)`), `yield`, `yield-from`, `setattr [self, _group_keys, e]`; `retA` = run
  the effects, then evaluate the returned expression.  `evalGS` (state `St`) for `aggregate`: `for` / `assign` whose
  expression may contain method calls (each evaluated with an empty memo), `….setdefault(k, []).append(v)`; `runG`.
  `retM` = the value of a returned expression with method calls (`full_join`).  `none` = unsupported term or Python raises.
-/
import Model.PyEvalLoDJoin

namespace DI.PyEvalLoD

open DI DI.Py DI.LoD

/-! ### 1. `sorted`: list semantics -/

/-- `==` between components of sort keys. -/
def keyEq : PVal → PVal → Option Bool
  | .bool a, .bool b => some (a == b)
  | .atom a, .atom b => some (a == b)
  | _, _ => none

/-- `<` between components of sort keys: bools, ints, strs; anything else (None included) is a TypeError. -/
def cmpLt : PVal → PVal → Option Bool
  | .bool a, .bool b => some (!a && b)
  | .atom (.i a), .atom (.i b) => some (decide (a < b))
  | .atom (.s a), .atom (.s b) => some (decide (a < b))
  | _, _ => none

/-- `<` between tuples: the first position where they differ (`==`) decides. -/
def lexLt : List PVal → List PVal → Option Bool
  | [], [] => some false
  | [], _ :: _ => some true
  | _ :: _, [] => some false
  | a :: as, b :: bs => (keyEq a b).bind fun e => if e then lexLt as bs else cmpLt a b

/-- Python's `<` on sort keys. -/
def pyLt : PVal → PVal → Option Bool
  | .tuple as, .tuple bs => lexLt as bs
  | a, b => cmpLt a b

/-- every two keys can be compared. -/
def comparable (ks : List PVal) : Bool := ks.all fun a => ks.all fun b => (pyLt a b).isSome

/-- the comparison `sorted` sorts by: `a ≤ b := ¬ (b < a)`, flipped under `reverse`. -/
def keyLeP (rev : Bool) (a b : PVal) : Bool :=
  if rev then !((pyLt a b).getD false) else !((pyLt b a).getD false)

/-- stable insertion: `a` (which preceded all of `l` in the input) goes before the first element it is `≤`. -/
def insertBy {α : Type} (le : α → α → Bool) (a : α) : List α → List α
  | [] => [a]
  | b :: l => if le a b then a :: b :: l else b :: insertBy le a l

/-- the stable sort by `le` (= `List.mergeSort le` for a total preorder: `isort_eq_mergeSort`). -/
def isort {α : Type} (le : α → α → Bool) : List α → List α
  | [] => []
  | a :: l => insertBy le a (isort le l)

/-- `sorted(xs, key=…, reverse=rev)` given the keys of the elements, in order. -/
def sortedBy {α : Type} (ks : List PVal) (xs : List α) (rev : Bool) : Option (List α) :=
  if ks.length == xs.length && comparable ks then
    some ((isort (fun p q => keyLeP rev p.1 q.1) (ks.zip xs)).map (·.2))
  else none

/-! ### 2. allocation -/

/-- an id larger than every id of the store. -/
def Store.fresh (σ : Store) : Nat := σ.foldr (fun p m => max (p.1 + 1) m) 0

/-- a new object with contents `d`: its id and the extended store. -/
def Store.alloc (σ : Store) (d : LoD.Dict) : Nat × Store := (σ.fresh, σ ++ [(σ.fresh, d)])

/-- new objects, one per dict, in order. -/
def allocAll : Store → List LoD.Dict → List Nat × Store
  | σ, [] => ([], σ)
  | σ, d :: ds => let r := allocAll (σ.alloc d).2 ds; ((σ.alloc d).1 :: r.1, r.2)

/-- the values a generator yielded, as objects: a reference stays, a dict by value becomes a new object. -/
def materialize : Store → List PVal → Option (List Nat × Store)
  | σ, [] => some ([], σ)
  | σ, .ref n :: vs => (materialize σ vs).map fun r => (n :: r.1, r.2)
  | σ, v :: vs => v.asKvs.bind fun d => (materialize (σ.alloc d).2 vs).map fun r => ((σ.alloc d).1 :: r.1, r.2)

/-- a list of references as a value. -/
def refsV (rs : List Nat) : PVal := .tuple (rs.map PVal.ref)

/-- a value that is a list of references. -/
def PVal.asRefs (v : PVal) : Option (List Nat) := v.asTuple.bind (allM PVal.asRef)

/-! ### 3. pure expressions -/

/-- reserved names (not Python identifiers): the receiver's `_group_keys`, the local `items_by_group`. -/
def groupKeysName : String := "self._group_keys"
def bucketsName : String := "{}"

/-- a slice object `slice(a, b)` as a value. -/
def optI : Option Int → PVal | none => .atom .none | some i => .atom (.i i)
def sliceVal (a b : Option Int) : PVal := .tuple [optI a, optI b]

def PVal.asOptI : PVal → Option (Option Int)
  | .atom .none => some none
  | .atom (.i i) => some (some i)
  | _ => none

/-- `xs[a:b]`. -/
def sliceOf {α : Type} (l : List α) (a b : Option Int) : List α :=
  (sliceIdx l.length a b).filterMap fun i => l[i.toNat]?

/-- `list.__getitem__(index)`: an int or a slice object. -/
def listGetitem (σ : Store) (vs : PVal) : PVal → Option PVal
  | .atom (.i i) => getItem σ vs (.atom (.i i))
  | .tuple [a, b] => vs.asTuple.bind fun l => a.asOptI.bind fun a => b.asOptI.map fun b => .tuple (sliceOf l a b)
  | _ => none

/-- `AttributeDict(x)`: a new dict (by value) with the entries of a dict object or of a dict value. -/
def copyVal (σ : Store) : PVal → Option PVal
  | .ref n => (σ.lookup n).map dictVal
  | v => v.asKvs.map fun d => dictVal (Dict.ofPairs d)

/-- the contents of the local `items_by_group`. -/
def bucketsOf (ρ : Env) : Option (List (PVal × PVal)) := ((ρ.lookup bucketsName).getD (.tuple [])).asPairs

mutual
/-- the value of a pure expression. -/
def evalAE (F : Funs) : Term → Env → Store → Option PVal
  | .sym "'_aid_'", _, _ => some (PVal.str "_aid_")
  | .sym "'_bid_'", _, _ => some (PVal.str "_bid_")
  | .app "._group_keys" [.sym "self"], ρ, _ => ρ.lookup groupKeysName
  | .app "value-after-loop" [.sym x, _], ρ, _ => ρ.lookup x
  | .app "._new" [_, e], ρ, σ => (evalAE F e ρ σ).bind fun v => v.asTuple.map .tuple
  | .app "getitem" [x, .slice a b], ρ, σ => (evalAE F x ρ σ).bind fun v => v.asTuple.map fun l => .tuple (sliceOf l a b)
  | .app "getitem" [x, .app "slice" [.sym "None", .sym "None", .int i]], ρ, σ =>
    (evalAE F x ρ σ).bind fun v => v.asTuple.bind fun l => if i = -1 then some (.tuple l.reverse) else none
  | .app "getitem" [.sym "{}", k], ρ, σ =>
    (bucketsOf ρ).bind fun d => (evalAE F k ρ σ).bind fun vk => (dictGet d vk).bind id
  | .app "list()" [x], ρ, σ => (evalAE F x ρ σ).bind fun v => v.asTuple.map .tuple
  | .app "super().__getitem__" [e], ρ, σ =>
    (ρ.lookup "self").bind fun vs => (evalAE F e ρ σ).bind fun vi => listGetitem σ vs vi
  | .app "Is" [x, .sym "None"], ρ, σ => (evalAE F x ρ σ).map fun v => .bool (decide (v = .atom .none))
  | .app "IsNot" [x, .sym "None"], ρ, σ => (evalAE F x ρ σ).map fun v => .bool (!decide (v = .atom .none))
  | .app "Gt" [a, b], ρ, σ =>
    (evalAE F a ρ σ).bind fun va => (evalAE F b ρ σ).bind fun vb => va.asInt.bind fun x => vb.asInt.map fun y => .bool (decide (y < x))
  | .app "Lt" [a, b], ρ, σ =>
    (evalAE F a ρ σ).bind fun va => (evalAE F b ρ σ).bind fun vb => va.asInt.bind fun x => vb.asInt.map fun y => .bool (decide (x < y))
  | .app "isinstance" [x, .sym "str"], ρ, σ => (evalAE F x ρ σ).map fun v => .bool v.asStr.isSome
  | .app "isinstance" [x, .app "tuple" [.sym "list", .sym "tuple"]], ρ, σ => (evalAE F x ρ σ).map fun v => .bool v.asTuple.isSome
  | .app "reversed" [x], ρ, σ => (evalAE F x ρ σ).bind fun v => v.asTuple.map fun l => .tuple l.reverse
  | .app "tuple()" [x], ρ, σ => (evalAE F x ρ σ).bind fun v => v.asTuple.map .tuple
  | .app "tuple" args, ρ, σ => (evalAEs F args ρ σ).map .tuple
  | .app "ifexp" [c, a, b], ρ, σ =>
    (evalAE F c ρ σ).bind fun vc => (truthy σ vc).bind fun t => if t then evalAE F a ρ σ else evalAE F b ρ σ
  | .app "ListComp" [e, .app "in" [tgt, it, .app "if" []]], ρ, σ =>
    (evalAE F it ρ σ).bind fun vi => vi.asTuple.bind fun vs =>
      (compLoop (bindTarget tgt) (fun _ => some true) (fun ρ1 => evalAE F e ρ1 σ) ρ vs).map .tuple
  | .app "call" [.app "operator.itemgetter" [.app "*" [ks]], x], ρ, σ =>
    (evalAE F ks ρ σ).bind fun vks => (evalAE F x ρ σ).bind fun vx => itemgetter σ vks vx
  | .app "dict.fromkeys" [ks, v], ρ, σ =>
    (evalAE F ks ρ σ).bind fun vks => (evalAE F v ρ σ).bind fun vv =>
      vks.asTuple.map fun l => .tuple (l.map (fun k => .tuple [k, vv]))
  | .app "itertools.chain" [a, b], ρ, σ =>
    (evalAE F a ρ σ).bind fun va => (evalAE F b ρ σ).bind fun vb =>
      va.asTuple.bind fun la => vb.asTuple.map fun lb => .tuple (la ++ lb)
  | .app ".__class__" [.sym "self", e], ρ, σ =>
    (evalAE F e ρ σ).bind fun v => v.asTuple.bind fun l => (allM (copyVal σ) l).map .tuple
  | t, ρ, σ => evalJE F t ρ σ
def evalAEs (F : Funs) : List Term → Env → Store → Option (List PVal)
  | [], _, _ => some []
  | t :: ts, ρ, σ => (evalAE F t ρ σ).bind fun v => (evalAEs F ts ρ σ).map fun vs => v :: vs
end

/-- positional arguments: `*e` is spliced. -/
def evalStar (F : Funs) : List Term → Env → Store → Option (List PVal)
  | [], _, _ => some []
  | .app "*" [e] :: ts, ρ, σ =>
    (evalAE F e ρ σ).bind fun v => v.asTuple.bind fun l => (evalStar F ts ρ σ).map fun vs => l ++ vs
  | t :: ts, ρ, σ => (evalAE F t ρ σ).bind fun v => (evalStar F ts ρ σ).map fun vs => v :: vs

/-- the keyword names that occur in these bodies. -/
def kwName : String → Option String
  | "=_aid_" => some "_aid_"
  | "=_bid_" => some "_bid_"
  | _ => none

/-- keyword arguments with pure values: `k=e`, `**e`; the pairs in argument order. -/
def evalKwargs (F : Funs) : List Term → Env → Store → Option (List (PVal × PVal))
  | [], _, _ => some []
  | .app "=**" [e] :: ts, ρ, σ =>
    (evalAE F e ρ σ).bind fun v => v.asPairs.bind fun ps => (evalKwargs F ts ρ σ).map fun qs => ps ++ qs
  | .app kw [e] :: ts, ρ, σ =>
    (kwName kw).bind fun k => (evalAE F e ρ σ).bind fun v => (evalKwargs F ts ρ σ).map fun qs => (PVal.str k, v) :: qs
  | _, _, _ => none

/-! ### 4. statements without method calls (`sort`, `extend`, `group_by`, the `ret` bodies) -/

/-- the state: `St` and the local function definitions `name ↦ (parameter, returned expression)`. -/
structure ASt where
  env : Env
  store : Store
  out : List PVal
  defs : List (String × String × Term)

/-- an expression that may call a local function through `sorted`. -/
def evalAX (F : Funs) (defs : List (String × String × Term)) : Term → Env → Store → Option PVal
  | .app "sorted" [x, .app "=key" [.sym f], .app "=reverse" [r]], ρ, σ =>
    (evalAE F x ρ σ).bind fun vx => vx.asTuple.bind fun l => (evalAE F r ρ σ).bind fun vr => (truthy σ vr).bind fun rev =>
      (defs.lookup f).bind fun pb => (allM (fun v => evalAE F pb.2 ((pb.1, v) :: ρ) σ) l).bind fun ks =>
        (sortedBy ks l rev).map .tuple
  | t, ρ, σ => evalAE F t ρ σ

def loopOverA (body : ASt → Option (Ctl × ASt)) (bind : PVal → Env → Option Env) : List PVal → ASt → Option ASt
  | [], s => some s
  | v :: vs, s =>
    (bind v s.env).bind fun ρ => (body { s with env := ρ }).bind fun r => loopOverA body bind vs r.2

/-- `init [x, e]`: the loop-carried local `x` has the value of `e` before the loop, if `e` has a value. -/
def initEnv (F : Funs) (x : String) (e : Term) (ρ : Env) (σ : Store) : Env :=
  match evalAE F e ρ σ with
  | some v => (x, v) :: ρ
  | none => ρ

mutual
def evalAS (F : Funs) : Term → ASt → Option (Ctl × ASt)
  | .app "block" ss, s => evalAB F ss s
  | .app "if" [c, a, b], s =>
    (evalAE F c s.env s.store).bind fun vc => (truthy s.store vc).bind fun t => if t then evalAS F a s else evalAS F b s
  | .app "for" [tgt, it, body], s =>
    (evalAE F it s.env s.store).bind fun vi => vi.asTuple.bind fun vs =>
      (loopOverA (evalAS F body) (bindTarget tgt) vs s).map fun s' => (Ctl.normal, s')
  | .app "for" [tgt, it, body, .app "init" [.sym x, e]], s =>
    (evalAE F it s.env s.store).bind fun vi => vi.asTuple.bind fun vs =>
      (loopOverA (evalAS F body) (bindTarget tgt) vs { s with env := initEnv F x e s.env s.store }).map fun s' =>
        (Ctl.normal, s')
  | .app "def" [.sym f, .app "params" [.sym p], .app "block" [.app "return" [e]]], s =>
    some (Ctl.normal, { s with defs := (f, p, e) :: s.defs })
  | .app "raise" _, _ => none
  | .app "assign" [.sym x, e], s =>
    (evalAX F s.defs e s.env s.store).map fun v => (Ctl.normal, { s with env := (x, v) :: s.env })
  | .app "yield" [e], s =>
    (evalAE F e s.env s.store).map fun v => (Ctl.normal, { s with out := s.out ++ [v] })
  | .app "yield-from" [e], s =>
    (evalAE F e s.env s.store).bind fun v => v.asTuple.map fun vs => (Ctl.normal, { s with out := s.out ++ vs })
  | .app "setattr" [.sym "self", .sym "_group_keys", e], s =>
    (evalAE F e s.env s.store).map fun v => (Ctl.normal, { s with env := (groupKeysName, v) :: s.env })
  | t, s =>
    (evalJS F t ⟨s.env, s.store, s.out⟩).map fun r => (r.1, { env := r.2.env, store := r.2.store, out := r.2.out, defs := s.defs })
def evalAB (F : Funs) : List Term → ASt → Option (Ctl × ASt)
  | [], s => some (Ctl.normal, s)
  | t :: ts, s => (evalAS F t s).bind fun r => match r.1 with | .normal => evalAB F ts r.2 | .cont => some r
end

/-- run effects: the final state. -/
def runA (F : Funs) (effs : List Term) (ρ : Env) (σ : Store) : Option ASt :=
  (evalAB F effs { env := ρ, store := σ, out := [], defs := [] }).map (·.2)

/-- a generator body: the yielded values and the final store. -/
def runAY (F : Funs) (effs : List Term) (ρ : Env) (σ : Store) : Option (List PVal × Store) :=
  (runA F effs ρ σ).map fun s => (s.out, s.store)

/-- a body that returns: its effects, then the returned expression in the final environment: the value, the final
    environment and the final store. -/
def retA (F : Funs) (o : Out) (ρ : Env) (σ : Store) : Option (PVal × Env × Store) :=
  match o with
  | .ret effs t => (runA F effs ρ σ).bind fun s => (evalAE F t s.env s.store).map fun v => (v, s.env, s.store)
  | _ => none

/-! ### 5. method calls -/

/-- the statement terms of the methods that the bodies call (instantiated in `Proofs/` with the regenerated code). -/
structure Bodies where
  unique : List Term      -- meaning: `runJ`
  select : List Term      -- `runJ`
  leftJoin : List Term    -- `runJ`
  antiJoin : List Term    -- `runJ`
  fill : List Term        -- `run`
  unselect : List Term    -- `run`
  add : List Term         -- `run`
  sort : Out              -- `retA`

mutual
def Term.beq : Term → Term → Bool
  | .int a, .int b => a == b
  | .rows a, .rows b => a == b
  | .slice a b, .slice c d => a == c && b == d
  | .sym a, .sym b => a == b
  | .app f as, .app g bs => f == g && Term.beqList as bs
  | _, _ => false
def Term.beqList : List Term → List Term → Bool
  | [], [] => true
  | a :: as, b :: bs => Term.beq a b && Term.beqList as bs
  | _, _ => false
end

/-- the state of an expression with method calls. -/
structure MSt where
  env : Env
  store : Store
  memo : List (Term × PVal)      -- the calls already evaluated
  ctr : List (String × Int)      -- the counters: name ↦ next value

def memoGet (m : List (Term × PVal)) (t : Term) : Option PVal := (m.find? fun p => Term.beq p.1 t).map (·.2)

/-- evaluate `t` once. -/
def memoized (t : Term) (s : MSt) (k : MSt → Option (PVal × MSt)) : Option (PVal × MSt) :=
  match memoGet s.memo t with
  | some v => some (v, s)
  | none => (k s).map fun r => (r.1, { r.2 with memo := (t, r.1) :: r.2.memo })

/-- `next(itertools.count(start=s))`: the start value of the inlined counter. -/
def counterT? : Term → Option Int
  | .app "next" [.app "itertools.count" [.app "=start" [.int s]]] => some s
  | _ => none

/-- the next value of counter `k` (starting at `start` when it has not been used). -/
def ctrGet (c : List (String × Int)) (k : String) (start : Int) : Int := (c.lookup k).getD start

/-- the value of a keyword argument `k=e`: `next(counter)` advances the counter `k`. -/
def evalKwVal (F : Funs) (k : String) (e : Term) (s : MSt) : Option (PVal × MSt) :=
  match counterT? e with
  | some st => some (.atom (.i (ctrGet s.ctr k st)), { s with ctr := (k, ctrGet s.ctr k st + 1) :: s.ctr })
  | none => (evalAE F e s.env s.store).map fun v => (v, s)

/-- `for item in rs: item[key] = next(counter)`, the counter standing at `c`. -/
def tagLoop (key : String) : List Nat → Int → Store → Option Store
  | [], _, σ => some σ
  | r :: rs, c, σ => (σ.setKey r key (.i c)).bind (tagLoop key rs (c + 1))

/-- call a generator method decorated `new_from_generator`: run the body, collect the yielded objects. -/
def callGen (runner : List Term → Env → Store → Option (List PVal × Store)) (effs : List Term) (ρ : Env) (s : MSt) :
    Option (PVal × MSt) :=
  (runner effs ρ s.store).bind fun r => (materialize r.2 r.1).map fun m => (refsV m.1, { s with store := m.2 })

/-- the value of an expression with method calls. -/
def evalAM (F : Funs) (B : Bodies) : Term → MSt → Option (PVal × MSt)
  | .app ".deepcopy" [x], s => memoized (.app ".deepcopy" [x]) s fun s =>
    (evalAM F B x s).bind fun r => r.1.asRefs.bind fun rs => (Store.view r.2.store rs).map fun xs =>
      (refsV (allocAll r.2.store (xs.map (·.kv))).1, { r.2 with store := (allocAll r.2.store (xs.map (·.kv))).2 })
  | .app ".modify" [x, .app kw [.app "lambda" [.app "params" [p], body]]], s =>
    memoized (.app ".modify" [x, .app kw [.app "lambda" [.app "params" [p], body]]]) s fun s =>
      (kwName kw).bind fun k => (counterT? body).bind fun st => (evalAM F B x s).bind fun r => r.1.asRefs.bind fun rs =>
        (tagLoop k rs (ctrGet r.2.ctr k st) r.2.store).map fun σ' =>
          (refsV rs, { r.2 with store := σ', ctr := (k, ctrGet r.2.ctr k st + rs.length) :: r.2.ctr })
  | .app ".left_join" (x :: y :: args), s => memoized (.app ".left_join" (x :: y :: args)) s fun s =>
    (evalAM F B x s).bind fun rx => (evalAM F B y rx.2).bind fun ry => (evalStar F args ry.2.env ry.2.store).bind fun vb =>
      callGen (runJ F) B.leftJoin [("self", rx.1), ("other", ry.1), ("by", .tuple vb)] ry.2
  | .app ".anti_join" (x :: y :: args), s => memoized (.app ".anti_join" (x :: y :: args)) s fun s =>
    (evalAM F B x s).bind fun rx => (evalAM F B y rx.2).bind fun ry => (evalStar F args ry.2.env ry.2.store).bind fun vb =>
      callGen (runJ F) B.antiJoin [("self", rx.1), ("other", ry.1), ("by", .tuple vb)] ry.2
  | .app ".fill_missing_keys" [x, .app kw [e]], s => memoized (.app ".fill_missing_keys" [x, .app kw [e]]) s fun s =>
    (kwName kw).bind fun k => (evalAM F B x s).bind fun rx => (evalKwVal F k e rx.2).bind fun rv =>
      callGen (run F) B.fill [("self", rx.1), ("key_value_pairs", .tuple [.tuple [PVal.str k, rv.1]])] rv.2
  | .app ".unselect" (x :: args), s => memoized (.app ".unselect" (x :: args)) s fun s =>
    (evalAM F B x s).bind fun rx => (evalStar F args rx.2.env rx.2.store).bind fun ks =>
      callGen (run F) B.unselect [("self", rx.1), ("keys", .tuple ks)] rx.2
  | .app ".unique" (x :: args), s => memoized (.app ".unique" (x :: args)) s fun s =>
    (evalAM F B x s).bind fun rx => (evalStar F args rx.2.env rx.2.store).bind fun ks =>
      callGen (runJ F) B.unique [("self", rx.1), ("keys", .tuple ks)] rx.2
  | .app ".select" (x :: args), s => memoized (.app ".select" (x :: args)) s fun s =>
    (evalAM F B x s).bind fun rx => (evalStar F args rx.2.env rx.2.store).bind fun ks =>
      callGen (runJ F) B.select [("self", rx.1), ("keys", .tuple ks)] rx.2
  | .app ".sort" (x :: kws), s => memoized (.app ".sort" (x :: kws)) s fun s =>
    (evalAM F B x s).bind fun rx => (evalKwargs F kws rx.2.env rx.2.store).bind fun ps =>
      (retA F B.sort [("self", rx.1), ("key_dir_pairs", dictValP (aofPairs ps))] rx.2.store).map fun r =>
        (r.1, { rx.2 with store := r.2.2 })
  | .app "Add" [x, y], s => memoized (.app "Add" [x, y]) s fun s =>
    (evalAM F B x s).bind fun rx => (evalAM F B y rx.2).bind fun ry =>
      callGen (run F) B.add [("self", rx.1), ("other", ry.1)] ry.2
  | .app "ListOfDicts" [e], s =>
    (evalAE F e s.env s.store).bind fun v => v.asRefs.bind fun rs => (Store.view s.store rs).map fun xs =>
      (refsV (allocAll s.store (xs.map (·.kv))).1, { s with store := (allocAll s.store (xs.map (·.kv))).2 })
  | .app "len" [x], s =>
    (evalAM F B x s).bind fun rx => rx.1.asTuple.map fun l => (.atom (.i l.length), rx.2)
  | .app "Eq" [a, b], s =>
    (evalAM F B a s).bind fun ra => (evalAM F B b ra.2).bind fun rb => (pyEq ra.1 rb.1).map fun e => (.bool e, rb.2)
  | t, s => (evalAE F t s.env s.store).map fun v => (v, s)

/-- an expression with method calls, evaluated on its own (empty memo, unused counters): value and store. -/
def evalM1 (F : Funs) (B : Bodies) (t : Term) (ρ : Env) (σ : Store) : Option (PVal × Store) :=
  (evalAM F B t { env := ρ, store := σ, memo := [], ctr := [] }).map fun r => (r.1, r.2.store)

/-- a body that returns an expression with method calls (no effects before it): `full_join`. -/
def retM (F : Funs) (B : Bodies) (o : Out) (ρ : Env) (σ : Store) : Option (PVal × Store) :=
  match o with
  | .ret [] t => evalM1 F B t ρ σ
  | _ => none

/-! ### 6. statements with method calls (`aggregate`) -/

/-- `buckets.setdefault(k, []).append(v)`. -/
def bucketAdd (d : List (PVal × PVal)) (k v : PVal) : Option (List (PVal × PVal)) :=
  if k.plain then
    match aget d k with
    | some (.tuple l) => some (aset d k (.tuple (l ++ [v])))
    | some _ => none
    | none => some (aset d k (.tuple [v]))
  else none

mutual
def evalGS (F : Funs) (B : Bodies) : Term → St → Option (Ctl × St)
  | .app "block" ss, s => evalGB F B ss s
  | .app "for" [tgt, it, body], s =>
    (evalM1 F B it s.env s.store).bind fun r => r.1.asTuple.bind fun vs =>
      (loopOver (evalGS F B body) (bindTarget tgt) vs { s with store := r.2 }).map fun s' => (Ctl.normal, s')
  | .app "for" [tgt, it, body, .app "init" [.sym x, e]], s =>
    (evalM1 F B it s.env s.store).bind fun r => r.1.asTuple.bind fun vs =>
      (loopOver (evalGS F B body) (bindTarget tgt) vs
        { s with env := initEnv F x e s.env s.store, store := r.2 }).map fun s' => (Ctl.normal, s')
  | .app "assign" [.sym x, e], s =>
    (evalM1 F B e s.env s.store).map fun r => (Ctl.normal, { s with env := (x, r.1) :: s.env, store := r.2 })
  | .app ".append" [.app ".setdefault" [.sym "{}", k, .app "list" []], v], s =>
    (bucketsOf s.env).bind fun d => (evalAE F k s.env s.store).bind fun vk => (evalAE F v s.env s.store).bind fun vv =>
      (bucketAdd d vk vv).map fun d' => (Ctl.normal, { s with env := (bucketsName, dictValP d') :: s.env })
  | t, s => evalJS F t s
def evalGB (F : Funs) (B : Bodies) : List Term → St → Option (Ctl × St)
  | [], s => some (Ctl.normal, s)
  | t :: ts, s => (evalGS F B t s).bind fun r => match r.1 with | .normal => evalGB F B ts r.2 | .cont => some r
end

/-- run the effects of a generator body with method calls: the yielded values in order and the final store. -/
def runG (F : Funs) (B : Bodies) (effs : List Term) (ρ : Env) (σ : Store) : Option (List PVal × Store) :=
  (evalGB F B effs { env := ρ, store := σ, out := [] }).map fun r => (r.2.out, r.2.store)

end DI.PyEvalLoD

/-
  Model/PyEvalLift.lean — a small total evaluator (denotational semantics) for the bodies that the source translator
  `harness/py2lean.py` emits for the element-wise lifting helpers of `dataiter/regex.py` (`_prep`, `findall`, `fullmatch`,
  `match`, `search`, `split`, `sub`, `subn`) and `dataiter/dt.py` (`_pull_int`, `_pull_str`): `Generated/CodeC19.lean`.

  `Proofs/TieC19.lean` shows that every regenerated body EQUALS one normal form (`lifted …` / `liftRe …` / `pull …`).
  This file says what such a term MEANS; `Proofs/EvalC19.lean` proves that the meaning is the element-wise map of the
  hand-written model (`DtRe.regexMap`, `DtRe.pull` of `Model/DtRegex.lean`).

  * A vector is a list of optional elements: `none` is the missing marker of the dtype at hand (the blank string of
    `dtypes.string`, NaT, NaN in a float vector, None in an object vector).  Output arrays (`np.full_like(…)`) are lists of
    optional results in the same way.  An integer vector (`.as_integer()`) has no missing marker: `iout`.
  * The stdlib function is a PARAMETER `f : ε → ρ` (`Ctx.f`); nothing about its behaviour is modelled.  For the regex
    functions it is the call named `Ctx.std` (`re.findall`, …) with all arguments but the string closed over — those
    arguments (`pattern`, `repl`, `flags=flags`, …) are *opaque* values, the same at every iteration; the call is defined
    only when exactly one argument is a NON-missing element (`subject`): applying `re.f` to the missing marker is `none`
    (an error), so a `some` result of the evaluator also says that the stdlib function never sees a missing value.
    For the `_pull_*` helpers `f` is the Python callable bound to the name `function` (`Val.fn`).
  * Names: a name bound in the environment has that value; the missing markers `None`, `dtypes.string.na_object`,
    `np.nan` denote `Val.na`; every other free name (`object`, `dtypes.string`, `np.ndarray`, `pattern`, `flags`, …) is an
    object the semantics does not look into (`Val.opaque`).
  * The translator inlines an assigned local into its later uses (`let` shadowing), so the output array `out` appears as
    its defining expression (`item0(_prep(…))`, `Vector.fast(np.full_like(…), dtype)`) at every use, also as the target of
    `out[i] = …`.  The store therefore maps such a TERM to the current contents of the array it created: an item /
    mask assignment `store [getitem [obj, ix], v]` records the new contents under the key `obj`, and an expression that
    is a key of the store denotes its current contents (`Store.find`, latest binding first).  Expressions have no effect.
  * Other functions of the module (`_prep`; `_pull_int` / `_pull_str` called by their own scalar branch) are a parameter
    `Ctx.calls`; `runFn` is the meaning of a translated function body as such a callee: parameters bound in order, the
    symbolic tests `truth` answered by the evaluator itself (`truthOf`).
  * primitives (section "primitives": the trusted part — read it): `np.full_like`, `==` with the missing marker, `np.isnat`,
    `~`, `np.flatnonzero`, `.all()`, `.any()`, `x[i]`, `x[mask]`, `.astype(object)`, `np.vectorize(function)(values)`,
    `Vector.fast`, `.as_string()`, `.as_integer()`, `util.is_scalar`, `isinstance` / `np.issubdtype` of the asserted dtype,
    tuples, `Vector([x], dtype)`.
  * statements: `assert`, `store [getitem [obj, i], v]` (list update), `store [getitem [obj, mask], values]` (masked
    assignment: `DtRe.putMask`), `for i in <positions>: block`.
  * `none` = unsupported form or Python exception (IndexError, a stdlib call on a missing value, a mask of the wrong
    length, `as_integer` of a vector with missing values …).
-/
import Model.PyCore
import Model.DtRegex

namespace DI.PyEvalLift

open DI DI.Py

/-! ### decidable equality of terms (the keys of the store) -/

mutual
def termDecEq : (a b : Term) → Decidable (a = b)
  | .int v, .int w => if h : v = w then isTrue (h ▸ rfl) else isFalse (fun e => h (Term.int.inj e))
  | .rows v, .rows w => if h : v = w then isTrue (h ▸ rfl) else isFalse (fun e => h (Term.rows.inj e))
  | .slice a b, .slice c d =>
    if h : a = c ∧ b = d then isTrue (h.1 ▸ h.2 ▸ rfl) else isFalse (fun e => h ⟨(Term.slice.inj e).1, (Term.slice.inj e).2⟩)
  | .sym v, .sym w => if h : v = w then isTrue (h ▸ rfl) else isFalse (fun e => h (Term.sym.inj e))
  | .app f as, .app g bs =>
    if h : f = g then
      match termListDecEq as bs with
      | isTrue h' => isTrue (h ▸ h' ▸ rfl)
      | isFalse h' => isFalse (fun e => h' (Term.app.inj e).2)
    else isFalse (fun e => h (Term.app.inj e).1)
  | .int _, .rows _ => isFalse nofun
  | .int _, .slice _ _ => isFalse nofun
  | .int _, .sym _ => isFalse nofun
  | .int _, .app _ _ => isFalse nofun
  | .rows _, .int _ => isFalse nofun
  | .rows _, .slice _ _ => isFalse nofun
  | .rows _, .sym _ => isFalse nofun
  | .rows _, .app _ _ => isFalse nofun
  | .slice _ _, .int _ => isFalse nofun
  | .slice _ _, .rows _ => isFalse nofun
  | .slice _ _, .sym _ => isFalse nofun
  | .slice _ _, .app _ _ => isFalse nofun
  | .sym _, .int _ => isFalse nofun
  | .sym _, .rows _ => isFalse nofun
  | .sym _, .slice _ _ => isFalse nofun
  | .sym _, .app _ _ => isFalse nofun
  | .app _ _, .int _ => isFalse nofun
  | .app _ _, .rows _ => isFalse nofun
  | .app _ _, .slice _ _ => isFalse nofun
  | .app _ _, .sym _ => isFalse nofun
def termListDecEq : (a b : List Term) → Decidable (a = b)
  | [], [] => isTrue rfl
  | [], _ :: _ => isFalse nofun
  | _ :: _, [] => isFalse nofun
  | a :: as, b :: bs =>
    match termDecEq a b, termListDecEq as bs with
    | isTrue h, isTrue h' => isTrue (h ▸ h' ▸ rfl)
    | isFalse h, _ => isFalse (fun e => h (List.cons.inj e).1)
    | _, isFalse h => isFalse (fun e => h (List.cons.inj e).2)
end

scoped instance : DecidableEq Term := termDecEq

/-! ### values -/

/-- Python values of this family; `ε` = element type of the input vector, `ρ` = result type of the stdlib function. -/
inductive Val (ε ρ : Type) where
  | na                                  -- the missing marker (`None`, `dtypes.string.na_object`, `np.nan`)
  | bool (b : Bool)
  | nat (k : Nat)                       -- a position
  | opaque (s : String)                 -- an object the semantics does not look into, by its name
  | elem (x : Option ε)                 -- one element of the input (`none` = the missing marker)
  | res (r : Option ρ)                  -- one element of an output array (`none` = the missing marker)
  | vec (xs : List (Option ε))          -- the input vector
  | out (l : List (Option ρ))           -- an output array
  | iout (l : List ρ)                   -- an integer vector: no missing marker
  | vals (l : List ρ)                   -- the values a vectorised call returns
  | mask (m : List Bool)                -- a Boolean vector
  | idx (l : List Nat)                  -- a vector of positions
  | pair (a b : Val ε ρ)                -- a 2-tuple
  | fn                                  -- the callable bound to `function` (denotes `Ctx.f`)
  | vfn                                 -- `np.vectorize(function)`
  deriving DecidableEq, Repr, Inhabited

abbrev Env (ε ρ : Type) := List (String × Val ε ρ)

/-- the arrays written so far: defining term ↦ current contents, latest binding first. -/
abbrev Store (ε ρ : Type) := List (Term × Val ε ρ)

/-- the stdlib function and the other functions of the module. -/
structure Ctx (ε ρ : Type) where
  std : String                                                    -- name of the stdlib call that `f` interprets
  f : ε → ρ                                                       -- the stdlib function, the string / datetime being its one argument
  calls : String → Option (List (Val ε ρ) → Option (Val ε ρ))     -- other functions of the module, on evaluated arguments

variable {ε ρ : Type}

def Env.get? (env : Env ε ρ) (x : String) : Option (Val ε ρ) := (env.find? (fun p => p.1 == x)).map (·.2)

def Store.find : Store ε ρ → Term → Option (Val ε ρ)
  | [], _ => none
  | (k, v) :: r, t => if k = t then some v else Store.find r t

/-- the names of the missing markers. -/
def naSyms : List String := ["None", "dtypes.string.na_object", "np.nan"]

/-- a name: a missing marker, else the binding of the environment, else an opaque module-level object. -/
def lookupSym (env : Env ε ρ) (s : String) : Val ε ρ :=
  if naSyms.contains s then .na else
    match env.get? s with
    | some v => v
    | none => .opaque s

/-! ### primitives (trusted part) -/

/-- `np.flatnonzero(m)`: the positions of the true entries, in increasing order (`k` = position of the head). -/
def flatnonzeroFrom : Nat → List Bool → List Nat
  | _, [] => []
  | k, true :: m => k :: flatnonzeroFrom (k + 1) m
  | k, false :: m => flatnonzeroFrom (k + 1) m

def flatnonzero (m : List Bool) : List Nat := flatnonzeroFrom 0 m

/-- `x[m]` for a Boolean mask of the same length: the elements at the true entries, in order. -/
def select {α : Type} : List Bool → List α → List α
  | true :: m, x :: xs => x :: select m xs
  | false :: m, _ :: xs => select m xs
  | _, _ => []

/-- all values, or `none` if one is the missing marker. -/
def allSome {α : Type} : List (Option α) → Option (List α)
  | [] => some []
  | none :: _ => none
  | some a :: t => match allSome t with
    | none => none
    | some l => some (a :: l)

/-- the element a fill value puts into an output array. -/
def fillOf : Val ε ρ → Option (Option ρ)
  | .na => some none
  | .res r => some r
  | _ => none

def isOpaque : Val ε ρ → Bool
  | .opaque _ => true
  | _ => false

/-- the string argument of a stdlib call: the one argument that is an element, a non-missing one, all the others being
    opaque (closed over by `Ctx.f`). -/
def subject : List (Val ε ρ) → Option ε
  | [] => none
  | .elem (some s) :: rest => if rest.all isOpaque then some s else none
  | .opaque _ :: rest => subject rest
  | _ :: _ => none

/-- calls with evaluated arguments. -/
def prim (f : ε → ρ) : String → List (Val ε ρ) → Option (Val ε ρ)
  | "tuple", [a, b] => some (.pair a b)
  | "item0", [.pair a _] => some a
  | "item1", [.pair _ b] => some b
  -- `np.full_like(x, fill, dtype)`: `fill` at every position of `x`
  | "np.full_like", [.vec xs, fill, _] => (fillOf fill).map (fun d => .out (xs.map (fun _ => d)))
  | "Vector.fast", [.out l, _] => some (.out l)
  -- `x == <missing marker>` / `np.isnat(x)`: true exactly at the missing elements
  | "Eq", [.vec xs, .na] => some (.mask (xs.map (·.isNone)))
  | "np.isnat", [.vec xs] => some (.mask (xs.map (·.isNone)))
  | "~", [.mask m] => some (.mask (m.map (!·)))
  | "np.flatnonzero", [.mask m] => some (.idx (flatnonzero m))
  | ".all", [.mask m] => some (.bool (m.all id))
  | ".any", [.mask m] => some (.bool (m.any id))
  | "getitem", [.vec xs, .nat i] => xs[i]?.map Val.elem
  | "getitem", [.vec xs, .mask m] => if m.length = xs.length then some (.vec (select m xs)) else none
  | "getitem", [.out l, .nat i] => l[i]?.map Val.res
  | "getitem", [.iout l, .nat i] => l[i]?.map (fun r => Val.res (some r))
  -- `.astype(object)`: the same elements as Python objects
  | ".astype", [.vec xs, .opaque "object"] => some (.vec xs)
  | "np.vectorize", [.fn] => some .vfn
  -- `np.vectorize(function)(values)`: `function` on every value; a missing value among them is an error
  | "call", [.vfn, .vec xs] => (allSome xs).map (fun l => .vals (l.map f))
  | ".as_string", [.out l] => some (.out l)
  -- an integer vector cannot hold the missing marker
  | ".as_integer", [.out l] => (allSome l).map Val.iout
  | "util.is_scalar", [.elem _] => some (.bool true)
  | "util.is_scalar", [.vec _] => some (.bool false)
  -- the input is assumed to be an array of the dtype the function asserts
  | "isinstance", [.vec _, .opaque "np.ndarray"] => some (.bool true)
  | ".dtype", [.vec _] => some (.opaque ".dtype")
  | "isinstance", [.opaque ".dtype", .opaque "StringDType"] => some (.bool true)
  | "np.issubdtype", [.opaque ".dtype", .opaque "np.datetime64"] => some (.bool true)
  -- keyword arguments `name=value`
  | "=flags", [v] => some v
  | "=count", [v] => some v
  | "=maxsplit", [v] => some v
  -- `Vector([x], dtype)`: the one-element vector
  | "list", [.elem x] => some (.vec [x])
  | "Vector", [.vec xs, .opaque _] => some (.vec xs)
  | _, _ => none

/-- the names `prim` interprets. -/
def primNames : List String :=
  ["tuple", "item0", "item1", "np.full_like", "Vector.fast", "Eq", "np.isnat", "~", "np.flatnonzero", ".all", ".any",
   "getitem", ".astype", "np.vectorize", "call", ".as_string", ".as_integer", "util.is_scalar", "isinstance", ".dtype",
   "np.issubdtype", "=flags", "=count", "=maxsplit", "list", "Vector"]

/-- a call: a primitive, else another function of the module, else the stdlib function on its subject. -/
def applyFn (C : Ctx ε ρ) (g : String) (vs : List (Val ε ρ)) : Option (Val ε ρ) :=
  if primNames.contains g then prim C.f g vs
  else match C.calls g with
    | some h => h vs
    | none => if g = C.std then (subject vs).map (fun s => Val.res (some (C.f s))) else none

/-- `obj[ix] = v`: the new contents of `obj`. -/
def assign : Val ε ρ → Val ε ρ → Val ε ρ → Option (Val ε ρ)
  -- `out[i] = v`: list update; IndexError outside
  | .out l, .nat i, .res r => if i < l.length then some (.out (l.set i r)) else none
  -- `out[mask] = values`: masked assignment, one value per true entry, in order
  | .out l, .mask m, .vals vs =>
    if m.length = l.length ∧ vs.length = (m.filter id).length then some (.out (DtRe.putMask m l vs)) else none
  | _, _, _ => none

/-- run `step` over the positions, threading the store; `none` as soon as a step fails. -/
def loop {σ : Type} (step : σ → Nat → Option σ) : σ → List Nat → Option σ
  | s, [] => some s
  | s, k :: ks => match step s k with
    | none => none
    | some s' => loop step s' ks

/-! ### the evaluator -/

mutual
/-- expressions (no effect on the store). -/
def evalExpr (C : Ctx ε ρ) (σ : Store ε ρ) (env : Env ε ρ) : Term → Option (Val ε ρ)
  | .int i => if 0 ≤ i then some (.nat i.toNat) else none
  | .rows _ => none
  | .slice _ _ => none
  | .sym s => some (lookupSym env s)
  | .app g args =>
    -- an array that has been written: its current contents
    match σ.find (.app g args) with
    | some v => some v
    | none =>
      match evalArgs C σ env args with
      | none => none
      | some vs => applyFn C g vs
def evalArgs (C : Ctx ε ρ) (σ : Store ε ρ) (env : Env ε ρ) : List Term → Option (List (Val ε ρ))
  | [] => some []
  | t :: ts => match evalExpr C σ env t, evalArgs C σ env ts with
    | some v, some vs => some (v :: vs)
    | _, _ => none
end

mutual
/-- statements. -/
def execStmt (C : Ctx ε ρ) (env : Env ε ρ) : Term → Store ε ρ → Option (Store ε ρ)
  | .app "assert" [t], σ =>
    match evalExpr C σ env t with
    | some (.bool true) => some σ
    | _ => none
  | .app "store" [.app "getitem" [obj, ix], e], σ =>
    match evalExpr C σ env e, evalExpr C σ env obj, evalExpr C σ env ix with
    | some v, some o, some i => (assign o i v).map (fun o' => (obj, o') :: σ)
    | _, _, _ => none
  | .app "for" [.sym x, iter, .app "block" body], σ =>
    match evalExpr C σ env iter with
    | some (.idx l) => loop (fun σ' k => execBlock C ((x, .nat k) :: env) body σ') σ l
    | _ => none
  | _, _ => none
def execBlock (C : Ctx ε ρ) (env : Env ε ρ) : List Term → Store ε ρ → Option (Store ε ρ)
  | [], σ => some σ
  | s :: ss, σ => match execStmt C env s σ with
    | none => none
    | some σ' => execBlock C env ss σ'
end

/-- the value a translated body returns: its statements (`Out.effs`) run in order from the empty store, then the
    returned expression is evaluated. -/
def runOut (C : Ctx ε ρ) (env : Env ε ρ) : Out → Option (Val ε ρ)
  | .ret effs t => match execBlock C env effs [] with
    | some σ => evalExpr C σ env t
    | none => none
  | _ => none

/-- the answer of the evaluator to a symbolic test (the tests of these bodies only read the input). -/
def truthOf (C : Ctx ε ρ) (env : Env ε ρ) (t : Term) : Bool :=
  match evalExpr C [] env t with
  | some (.bool b) => b
  | _ => false

/-- `truth` answers every test that has a Boolean value under the evaluator with that value. -/
def Agrees (C : Ctx ε ρ) (env : Env ε ρ) (truth : Term → Bool) : Prop :=
  ∀ t b, evalExpr C [] env t = some (.bool b) → truth t = b

/-- the parameters of a call, positionally. -/
def bindParams : List String → List (Val ε ρ) → Option (Env ε ρ)
  | [], [] => some []
  | p :: ps, v :: vs => (bindParams ps vs).map (fun e => (p, v) :: e)
  | _, _ => none

/-- a translated function (`body`, parameters `sig`) as a callee: the arguments bound to the parameters, the tests
    answered by the evaluator. -/
def runFn (C : Ctx ε ρ) (sig : List String) (body : (Term → Bool) → Out) (vs : List (Val ε ρ)) : Option (Val ε ρ) :=
  match bindParams sig vs with
  | some env => runOut C env (body (truthOf C env))
  | none => none

/-- no other function of the module is called. -/
def noCalls : String → Option (List (Val ε ρ) → Option (Val ε ρ)) := fun _ => none

end DI.PyEvalLift

/-
  Model/PyEval.lean — a meaning for the statement terms that `harness/py2lean.py` produces for the generator
  bodies of `ListOfDicts` (see `Generated/CodeC15.lean`, and the normal forms of `Proofs/TieC15.lean`).

  A small, total, computable big-step evaluator:

  * values `PVal`: an atom (`LoD.Val` of the hand-written model: None / int / str — what a dict of the model can
    hold), a bool, a tuple (Python tuples, lists, `dict.items()` views, keyword dicts as tuples of `(key, value)` pairs,
    `range` objects — every finite iterable is a `tuple`), `ref n` (a reference to the dict object `n`), `fn h` (the
    handle of a user callable);
  * the store `List (Nat × LoD.Dict)`: object id ↦ contents, the contents being the model's own insertion-ordered
    `LoD.Dict` (so a result can be compared with the model's `LoD.Item`s without any conversion: `Store.view`);
  * an environment `List (String × PVal)` of local names (innermost binding first), and the *user callables* as a
    parameter `Funs.call : handle → arguments → store → result` (a callable may read the whole store; it does not
    write).  `Term.app "call" [f, args…]` calls the handle `f` evaluates to; `Term.app "predicate" [args…]` /
    `Term.app "function" [args…]` (any head that is not a known operator) calls the handle bound to that NAME;
  * expressions `evalE` (no effect on the store), statements `evalS` / blocks `evalB` on a state
    `St = ⟨env, store, out⟩`, `out` being the values yielded so far; `run` = the yielded values and the final store.
    Statements: `for` (target a name or a tuple of names; over any tuple-valued expression: a name, `.items(…)`,
    `range(n)`), `block`, `if`, `assign`, `store [getitem [x, k], v]`, `del [getitem [x, k]]`, `.update [x, y]`, `yield`,
    `yield-from`, `continue` (`Term.sym "continue"`, as the translator writes it).  Expressions: `sym`, `int`, `tuple`,
    `list` (display), `getitem`, `In` / `NotIn` (key in dict, value in tuple), `Eq` / `NotEq`, `not`, `ifexp`, `call`,
    `operator.itemgetter(*keys)(x)`, `.get`, `.items` / `.keys` / `.values`, `dict.fromkeys`, `range`, `reversed`,
    `itertools.chain`, `len`.
  * The result is an `Option`: `none` = the term is not supported OR the Python code raises (KeyError on a missing
    key, a dangling reference, a value that cannot be stored in a model dict).  Theorems are about `some` results, or
    equations between `Option`s that hold in the failing cases too.
  * termination: mutual structural recursion over the nested inductive `Term` (like `Term.anyApp`); loops over data
    go through `loopOver`, a plain recursion over the list of values, so no fuel is needed.

  Deliberate restrictions (everything else is `none`):
  * `app "list" args` is read as the list DISPLAY `[a, b, …]` (as in `append`: `chain(self, [item])`); the translator
    renders the call `list(x)` with the same head, so `insert` (`items = list(self); items.insert(…); yield from items`,
    whose translation moreover inlines `list(self)` at both uses, losing the mutated local) has no meaning here;
  * likewise `app "tuple" args` is the tuple display `(a, b, …)`, except for the one call occurring in these bodies,
    `tuple(x.values())`, which the translator writes `app "tuple()" [app ".values" [x]]` (constructor CALLS carry "()" in their name since translator v3; displays do not);
  * the translator inlines assigned locals into later uses (`let` shadowing), so an expression is evaluated where it
    is USED: `fill_missing_keys()` therefore recomputes `dict.fromkeys(self.keys())` at every position of the loop
    (harmless: `Lemmas/PyEval.lean`, `fillAllLoop_eq_fillLoop`);
  * `AttributeDict(x)` (allocation of a new object) is not supported, nor are comprehensions (`select`, `rename`) and
    sets (`unique`);
  * `==` / `!=` / `in <tuple>` are defined on atoms and tuples of atoms only (a dict compares by contents in Python;
    that is not needed by these bodies);
  * dict keys are strings.
-/
import Model.PyCore
import Model.LoD

namespace DI.PyEvalLoD

open DI DI.Py DI.LoD

/-! ### values -/

inductive PVal where
  | atom (v : LoD.Val)          -- None / int / str: what the model stores in a dict
  | bool (b : Bool)
  | tuple (vs : List PVal)      -- any finite sequence
  | ref (n : Nat)               -- reference to dict object `n`
  | fn (h : Nat)                -- a user callable, by its handle
  deriving Repr, Inhabited

mutual
def PVal.decEq : (a b : PVal) → Decidable (a = b)
  | .atom v, .atom w => if h : v = w then isTrue (h ▸ rfl) else isFalse (fun e => h (PVal.atom.inj e))
  | .bool v, .bool w => if h : v = w then isTrue (h ▸ rfl) else isFalse (fun e => h (PVal.bool.inj e))
  | .ref v, .ref w => if h : v = w then isTrue (h ▸ rfl) else isFalse (fun e => h (PVal.ref.inj e))
  | .fn v, .fn w => if h : v = w then isTrue (h ▸ rfl) else isFalse (fun e => h (PVal.fn.inj e))
  | .tuple vs, .tuple ws =>
    match PVal.decEqList vs ws with
    | isTrue h => isTrue (h ▸ rfl)
    | isFalse h => isFalse (fun e => h (PVal.tuple.inj e))
  | .atom _, .bool _ => isFalse nofun
  | .atom _, .tuple _ => isFalse nofun
  | .atom _, .ref _ => isFalse nofun
  | .atom _, .fn _ => isFalse nofun
  | .bool _, .atom _ => isFalse nofun
  | .bool _, .tuple _ => isFalse nofun
  | .bool _, .ref _ => isFalse nofun
  | .bool _, .fn _ => isFalse nofun
  | .tuple _, .atom _ => isFalse nofun
  | .tuple _, .bool _ => isFalse nofun
  | .tuple _, .ref _ => isFalse nofun
  | .tuple _, .fn _ => isFalse nofun
  | .ref _, .atom _ => isFalse nofun
  | .ref _, .bool _ => isFalse nofun
  | .ref _, .tuple _ => isFalse nofun
  | .ref _, .fn _ => isFalse nofun
  | .fn _, .atom _ => isFalse nofun
  | .fn _, .bool _ => isFalse nofun
  | .fn _, .tuple _ => isFalse nofun
  | .fn _, .ref _ => isFalse nofun
def PVal.decEqList : (a b : List PVal) → Decidable (a = b)
  | [], [] => isTrue rfl
  | [], _ :: _ => isFalse nofun
  | _ :: _, [] => isFalse nofun
  | a :: as, b :: bs =>
    match PVal.decEq a b, PVal.decEqList as bs with
    | isTrue h, isTrue h' => isTrue (h ▸ h' ▸ rfl)
    | isFalse h, _ => isFalse (fun e => h (List.cons.inj e).1)
    | _, isFalse h => isFalse (fun e => h (List.cons.inj e).2)
end

instance : DecidableEq PVal := PVal.decEq

abbrev Env := List (String × PVal)
abbrev Store := List (Nat × LoD.Dict)

/-- the user callables: `call h args σ` is the value of calling handle `h` on `args` in store `σ`. -/
structure Funs where
  call : Nat → List PVal → Store → PVal

/-! ### the store -/

/-- replace the contents of object `n` (the first entry with that id; ids are unique in a real heap). -/
def Store.set : Store → Nat → LoD.Dict → Store
  | [], _, _ => []
  | (m, e) :: σ, n, d => if m == n then (n, d) :: σ else (m, e) :: Store.set σ n d

/-- `obj[k] = v` on object `n`; `none` if there is no such object. -/
def Store.setKey (σ : Store) (n : Nat) (k : String) (v : LoD.Val) : Option Store :=
  (σ.lookup n).map (fun d => σ.set n (d.set k v))

/-- `del obj[k]` on object `n`; `none` if there is no such object or no such key (KeyError). -/
def Store.delKey (σ : Store) (n : Nat) (k : String) : Option Store :=
  (σ.lookup n).bind (fun d => if d.has k then some (σ.set n (d.del k)) else none)

/-- the model's view of a list of references: the `LoD.Item`s (identity = object id, contents from the store). -/
def Store.view (σ : Store) : List Nat → Option (List LoD.Item)
  | [] => some []
  | r :: rs => (σ.lookup r).bind (fun d => (Store.view σ rs).map (fun xs => { tag := r, kv := d } :: xs))

/-! ### helpers on values -/

/-- `f` on every element, all must succeed. -/
def allM {α β : Type} (f : α → Option β) : List α → Option (List β)
  | [] => some []
  | a :: as => (f a).bind (fun b => (allM f as).map (fun bs => b :: bs))

def PVal.asTuple : PVal → Option (List PVal) | .tuple vs => some vs | _ => none
def PVal.asRef : PVal → Option Nat | .ref n => some n | _ => none
def PVal.asFn : PVal → Option Nat | .fn h => some h | _ => none
def PVal.asAtom : PVal → Option LoD.Val | .atom v => some v | _ => none
def PVal.asStr : PVal → Option String | .atom (.s k) => some k | _ => none
def PVal.asInt : PVal → Option Int | .atom (.i k) => some k | _ => none
def PVal.fst? : PVal → Option PVal | .tuple [k, _] => some k | _ => none
def PVal.snd? : PVal → Option PVal | .tuple [_, v] => some v | _ => none
def PVal.isAtom : PVal → Bool | .atom _ => true | _ => false

/-- values on which `==` is modelled: atoms and tuples of atoms. -/
def PVal.plain : PVal → Bool
  | .atom _ => true
  | .tuple vs => vs.all PVal.isAtom
  | _ => false

def PVal.str (k : String) : PVal := .atom (.s k)

/-- Python truthiness. -/
def truthy (σ : Store) : PVal → Option Bool
  | .atom .none => some false
  | .atom (.i n) => some (n != 0)
  | .atom (.s x) => some (x != "")
  | .bool b => some b
  | .tuple vs => some (!vs.isEmpty)
  | .ref n => (σ.lookup n).map (fun d => !d.isEmpty)
  | .fn _ => some true

/-- `a == b`. -/
def pyEq (a b : PVal) : Option Bool := if a.plain && b.plain then some (decide (a = b)) else none

/-- `x[k]`: a dict object by key (KeyError = `none`), a sequence by (possibly negative) index. -/
def getItem (σ : Store) : PVal → PVal → Option PVal
  | .ref n, .atom (.s k) => (σ.lookup n).bind (fun d => (d.get? k).map PVal.atom)
  | .tuple vs, .atom (.i i) =>
    let j := if i < 0 then i + vs.length else i
    if 0 ≤ j then vs[j.toNat]? else none
  | _, _ => none

/-- `k in x`. -/
def pyIn (σ : Store) : PVal → PVal → Option Bool
  | .atom (.s k), .ref n => (σ.lookup n).map (fun d => d.has k)
  | k, .tuple vs => if k.plain && vs.all PVal.plain then some (vs.contains k) else none
  | _, _ => none

/-- all the values of the keys, `none` if one is missing. -/
def getAll (d : LoD.Dict) (ks : List String) : Option (List LoD.Val) := allM (fun k => d.get? k) ks

/-- `operator.itemgetter(*keys)(x)`: the value itself for one key, a tuple for several, TypeError for none. -/
def itemgetter (σ : Store) (keys x : PVal) : Option PVal :=
  keys.asTuple.bind fun ks => (allM PVal.asStr ks).bind fun ks => x.asRef.bind fun n => (σ.lookup n).bind fun d =>
    (getAll d ks).bind fun vs =>
      match vs with
      | [] => none
      | [v] => some (.atom v)
      | vs => some (.tuple (vs.map PVal.atom))

/-- `x.items()`: of a keyword dict (a tuple of `(key, value)` pairs: itself), of a dict object. -/
def itemsOf (σ : Store) : PVal → Option PVal
  | .tuple vs => (allM PVal.fst? vs).map (fun _ => .tuple vs)
  | .ref n => (σ.lookup n).map (fun d => .tuple (d.map (fun p => .tuple [PVal.str p.1, .atom p.2])))
  | _ => none

/-- `x.keys()`: of a keyword dict (a tuple of pairs), of a dict object, of the receiver (a tuple of references:
    `ListOfDicts.keys()`, all keys in first-seen order).  The empty tuple is all three, with the same answer. -/
def keysOf (σ : Store) : PVal → Option PVal
  | .tuple vs =>
    match allM PVal.fst? vs with
    | some ks => some (.tuple ks)
    | none => (allM PVal.asRef vs).bind fun rs => (σ.view rs).map fun xs => .tuple ((LoD.allKeys xs).map PVal.str)
  | .ref n => (σ.lookup n).map (fun d => .tuple (d.map (fun p => PVal.str p.1)))
  | _ => none

def valuesOf (σ : Store) : PVal → Option PVal
  | .tuple vs => (allM PVal.snd? vs).map .tuple
  | .ref n => (σ.lookup n).map (fun d => .tuple (d.map (fun p => .atom p.2)))
  | _ => none

/-- `range(n)`. -/
def rangeVal (n : Int) : PVal := .tuple ((List.range n.toNat).map (fun (k : Nat) => PVal.atom (.i (k : Int))))

/-! ### expressions -/

mutual
/-- the value of an expression term (expressions have no effect on the store). -/
def evalE (F : Funs) : Term → Env → Store → Option PVal
  | .int i, _, _ => some (.atom (.i i))
  | .sym "None", _, _ => some (.atom .none)
  | .sym "True", _, _ => some (.bool true)
  | .sym "False", _, _ => some (.bool false)
  | .sym x, ρ, _ => ρ.lookup x
  | .app "tuple()" [.app ".values" [x]], ρ, σ => (evalE F x ρ σ).bind (valuesOf σ)     -- the CALL `tuple(x.values())`
  | .app "tuple" args, ρ, σ => (evalEs F args ρ σ).map .tuple
  | .app "list" args, ρ, σ => (evalEs F args ρ σ).map .tuple
  | .app "getitem" [x, k], ρ, σ => (evalE F x ρ σ).bind fun vx => (evalE F k ρ σ).bind fun vk => getItem σ vx vk
  | .app "In" [k, x], ρ, σ =>
    (evalE F k ρ σ).bind fun vk => (evalE F x ρ σ).bind fun vx => (pyIn σ vk vx).map .bool
  | .app "NotIn" [k, x], ρ, σ =>
    (evalE F k ρ σ).bind fun vk => (evalE F x ρ σ).bind fun vx => (pyIn σ vk vx).map (fun b => .bool !b)
  | .app "Eq" [a, b], ρ, σ =>
    (evalE F a ρ σ).bind fun va => (evalE F b ρ σ).bind fun vb => (pyEq va vb).map .bool
  | .app "NotEq" [a, b], ρ, σ =>
    (evalE F a ρ σ).bind fun va => (evalE F b ρ σ).bind fun vb => (pyEq va vb).map (fun b => .bool !b)
  | .app "not" [a], ρ, σ => (evalE F a ρ σ).bind fun va => (truthy σ va).map (fun b => .bool !b)
  | .app "ifexp" [c, a, b], ρ, σ =>
    (evalE F c ρ σ).bind fun vc => (truthy σ vc).bind fun t => if t then evalE F a ρ σ else evalE F b ρ σ
  | .app "call" [.app "operator.itemgetter" [.app "*" [ks]], x], ρ, σ =>
    (evalE F ks ρ σ).bind fun vks => (evalE F x ρ σ).bind fun vx => itemgetter σ vks vx
  | .app "call" (f :: args), ρ, σ =>
    (evalE F f ρ σ).bind fun vf => vf.asFn.bind fun h => (evalEs F args ρ σ).map fun vs => F.call h vs σ
  | .app ".get" [x, k], ρ, σ =>
    (evalE F x ρ σ).bind fun vx => (evalE F k ρ σ).bind fun vk =>
      vx.asRef.bind fun n => vk.asStr.bind fun key => (σ.lookup n).map fun d => .atom ((d.get? key).getD .none)
  | .app ".get" [x, k, dflt], ρ, σ =>
    (evalE F x ρ σ).bind fun vx => (evalE F k ρ σ).bind fun vk => (evalE F dflt ρ σ).bind fun vd =>
      vx.asRef.bind fun n => vk.asStr.bind fun key => (σ.lookup n).map fun d =>
        match d.get? key with | some v => .atom v | none => vd
  | .app ".items" [x], ρ, σ => (evalE F x ρ σ).bind (itemsOf σ)
  | .app ".keys" [x], ρ, σ => (evalE F x ρ σ).bind (keysOf σ)
  | .app ".values" [x], ρ, σ => (evalE F x ρ σ).bind (valuesOf σ)
  | .app "dict.fromkeys" [ks, v], ρ, σ =>
    (evalE F ks ρ σ).bind fun vks => (evalE F v ρ σ).bind fun vv =>
      vks.asTuple.map fun l => .tuple (l.map (fun k => .tuple [k, vv]))
  | .app "range" [n], ρ, σ => (evalE F n ρ σ).bind fun vn => vn.asInt.map rangeVal
  | .app "reversed" [x], ρ, σ => (evalE F x ρ σ).bind fun vx => vx.asTuple.map fun l => .tuple l.reverse
  | .app "itertools.chain" [a, b], ρ, σ =>
    (evalE F a ρ σ).bind fun va => (evalE F b ρ σ).bind fun vb =>
      va.asTuple.bind fun la => vb.asTuple.map fun lb => .tuple (la ++ lb)
  | .app "len" [x], ρ, σ => (evalE F x ρ σ).bind fun vx => vx.asTuple.map fun l => .atom (.i l.length)
  | .app f args, ρ, σ =>          -- `predicate(item)`: a call of a local name that holds a callable
    (ρ.lookup f).bind fun vf => vf.asFn.bind fun h => (evalEs F args ρ σ).map fun vs => F.call h vs σ
  | _, _, _ => none
def evalEs (F : Funs) : List Term → Env → Store → Option (List PVal)
  | [], _, _ => some []
  | t :: ts, ρ, σ => (evalE F t ρ σ).bind fun v => (evalEs F ts ρ σ).map fun vs => v :: vs
end

/-! ### statements -/

structure St where
  env : Env
  store : Store
  out : List PVal          -- yielded so far, in order

/-- how a statement ended: normally, or with a `continue` that the enclosing loop consumes. -/
inductive Ctl where
  | normal
  | cont
  deriving DecidableEq, Repr

/-- `for a, b in …`: bind the names of a tuple target. -/
def bindNames : List Term → List PVal → Env → Option Env
  | [], [], ρ => some ρ
  | .sym x :: ts, v :: vs, ρ => bindNames ts vs ((x, v) :: ρ)
  | _, _, _ => none

/-- bind a loop target (a name, or a tuple of names against a tuple of the same length). -/
def bindTarget : Term → PVal → Env → Option Env
  | .sym x, v, ρ => some ((x, v) :: ρ)
  | .app "tuple" ts, .tuple vs, ρ => bindNames ts vs ρ
  | _, _, _ => none

/-- the loop over already evaluated values: bind the target, run the body, next value (a `continue` in the body
    ends that iteration only). -/
def loopOver (body : St → Option (Ctl × St)) (bind : PVal → Env → Option Env) : List PVal → St → Option St
  | [], s => some s
  | v :: vs, s =>
    (bind v s.env).bind fun ρ => (body { s with env := ρ }).bind fun r => loopOver body bind vs r.2

mutual
/-- one statement. -/
def evalS (F : Funs) : Term → St → Option (Ctl × St)
  | .app "block" ss, s => evalB F ss s
  | .app "if" [c, a, b], s =>
    (evalE F c s.env s.store).bind fun vc => (truthy s.store vc).bind fun t => if t then evalS F a s else evalS F b s
  | .app "for" [tgt, it, body], s =>
    (evalE F it s.env s.store).bind fun vi => vi.asTuple.bind fun vs =>
      (loopOver (evalS F body) (bindTarget tgt) vs s).map fun s' => (Ctl.normal, s')
  | .app "assign" [.sym x, e], s =>
    (evalE F e s.env s.store).map fun v => (Ctl.normal, { s with env := (x, v) :: s.env })
  | .app "store" [.app "getitem" [x, k], e], s =>
    (evalE F e s.env s.store).bind fun ve => (evalE F x s.env s.store).bind fun vx => (evalE F k s.env s.store).bind fun vk =>
      ve.asAtom.bind fun v => vx.asRef.bind fun n => vk.asStr.bind fun key =>
        (s.store.setKey n key v).map fun σ' => (Ctl.normal, { s with store := σ' })
  | .app "del" [.app "getitem" [x, k]], s =>
    (evalE F x s.env s.store).bind fun vx => (evalE F k s.env s.store).bind fun vk =>
      vx.asRef.bind fun n => vk.asStr.bind fun key =>
        (s.store.delKey n key).map fun σ' => (Ctl.normal, { s with store := σ' })
  | .app ".update" [x, y], s =>     -- `x.update(y)`, `y` another dict object
    (evalE F x s.env s.store).bind fun vx => (evalE F y s.env s.store).bind fun vy =>
      vx.asRef.bind fun n => vy.asRef.bind fun m => (s.store.lookup n).bind fun d => (s.store.lookup m).map fun o =>
        (Ctl.normal, { s with store := s.store.set n (d.update o) })
  | .app "yield" [e], s =>
    (evalE F e s.env s.store).map fun v => (Ctl.normal, { s with out := s.out ++ [v] })
  | .app "yield-from" [e], s =>
    (evalE F e s.env s.store).bind fun v => v.asTuple.map fun vs => (Ctl.normal, { s with out := s.out ++ vs })
  | .sym "continue", s => some (Ctl.cont, s)
  | _, _ => none
/-- a block: the statements in order; a `continue` skips the rest. -/
def evalB (F : Funs) : List Term → St → Option (Ctl × St)
  | [], s => some (Ctl.normal, s)
  | t :: ts, s => (evalS F t s).bind fun r => match r.1 with | .normal => evalB F ts r.2 | .cont => some r
end

/-- run the effects of a generator body from environment `ρ` and store `σ`: the yielded values in order and the
    final store. -/
def run (F : Funs) (effs : List Term) (ρ : Env) (σ : Store) : Option (List PVal × Store) :=
  (evalB F effs { env := ρ, store := σ, out := [] }).map fun r => (r.2.out, r.2.store)

end DI.PyEvalLoD

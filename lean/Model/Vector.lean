/-
  Model/Vector.lean — transcription of `Vector.sort`, `Vector.rank`, `Vector.unique`
  (dataiter/vector.py) over cells `Option κ`; `none` is the missing value.

  All three return *positions* into the input (the harness reconstructs values with the
  same positions), plus rank vectors for `rank`.
-/
import Model.Basic

namespace DI

variable {κ : Type} [DecidableEq κ]

def isNa (x : Option κ) : Bool := x.isNone

/-- `Vector.sort(dir)` for non-object dtypes:
    `new = self[opt.argsort(kind="stable")]`; reversed for `dir < 0`;
    `new[~na].concat(new[na])`.  `naFirst` says where the raw NumPy sort puts the missing
    value of this dtype (`""` first, NaN / NaT last). -/
def vsort (le : κ → κ → Bool) (naFirst : Bool) (desc : Bool) (xs : List (Option κ)) :
    List Nat :=
  let idx := argsort (leRaw le naFirst) xs
  let idx := if desc then idx.reverse else idx
  idx.filter (fun i => !isNa xs[i]!) ++ idx.filter (fun i => isNa xs[i]!)

/-- `Vector.sort(dir)` for object vectors: `sorted(self, key=str, reverse=dir<0)`, then the
    same relocation of missing values.  `keys` are the `str(x)` images computed by Python. -/
def vsortObj (le : σ → σ → Bool) (desc : Bool) (keys : List σ) (na : List Bool) : List Nat :=
  let idx := argsortPy le desc keys
  idx.filter (fun i => !na[i]!) ++ idx.filter (fun i => na[i]!)

/-- positions of the non-missing / missing elements, increasing. -/
def nonNaIdx (xs : List (Option κ)) : List Nat :=
  (List.range xs.length).filter (fun i => !isNa xs[i]!)
def naIdx (xs : List (Option κ)) : List Nat :=
  (List.range xs.length).filter (fun i => isNa xs[i]!)

/-- scatter: `out[idx] = vals` on a zero vector of length `n`
    (`idx` has no duplicates in all uses). -/
def scatter (n : Nat) (idx : List Nat) (vals : List Nat) : List Nat :=
  (List.range n).map (fun i =>
    match (idx.zip vals).find? (fun p => p.1 == i) with
    | some p => p.2
    | none => 0)

/-- `Vector.rank(method="min")` after the all-missing guard:
    `inv = np.unique(self[~na], return_inverse=True)[1]`
    `out[~na] = concatenate(([0], bincount(inv))).cumsum()[inv] + 1`
    `out[na]  = (~na).sum() + 1`. -/
def rankMinCore (le : κ → κ → Bool) (xs : List (Option κ)) : List Nat :=
  let nn := nonNaIdx xs
  let vals := nn.filterMap (fun i => xs[i]!)
  let inv := uniqueInverse le vals
  let cs := cumsum (0 :: bincount inv (sortedDistinct le vals).length)
  let r := inv.map (fun k => cs[k]! + 1)
  let out := scatter xs.length nn r
  let naRank := nn.length + 1
  (List.range xs.length).map (fun i => if isNa xs[i]! then naRank else out[i]!)

/-- `Vector.rank(method="max")`:
    `out[~na] = bincount(inv).cumsum()[inv]`, `out[na] = len(self)`. -/
def rankMaxCore (le : κ → κ → Bool) (xs : List (Option κ)) : List Nat :=
  let nn := nonNaIdx xs
  let vals := nn.filterMap (fun i => xs[i]!)
  let inv := uniqueInverse le vals
  let cs := cumsum (bincount inv (sortedDistinct le vals).length)
  let r := inv.map (fun k => cs[k]!)
  let out := scatter xs.length nn r
  (List.range xs.length).map (fun i => if isNa xs[i]! then xs.length else out[i]!)

/-- `Vector.rank(method="ordinal")`:
    `indices = self[~na].argsort(kind="stable")`; `rank[indices] = arange(len)+1`;
    `out[~na] = rank`; `out[na] = rank.max() + arange(na.sum()) + 1`. -/
def rankOrdCore (le : κ → κ → Bool) (xs : List (Option κ)) : List Nat :=
  let nn := nonNaIdx xs
  let vals := nn.filterMap (fun i => xs[i]!)
  let indices := argsort le vals
  let rank := scatter vals.length indices ((List.range vals.length).map (· + 1))
  let out := scatter xs.length nn rank
  let nas := naIdx xs
  let outNa := scatter xs.length nas ((List.range nas.length).map (fun k => vals.length + k + 1))
  (List.range xs.length).map (fun i => if isNa xs[i]! then outNa[i]! else out[i]!)

inductive RankMethod | min | max | ordinal
  deriving DecidableEq, Repr

/-- `Vector.rank`: empty guard, all-missing guard (the vector is replaced by a constant
    vector *and the mask recomputed*), then the per-method pipeline. -/
def vrank (le : κ → κ → Bool) (one : κ) (m : RankMethod) (xs : List (Option κ)) : List Nat :=
  if xs.length = 0 then [] else
  let xs := if xs.all isNa then xs.map (fun _ => some one) else xs
  match m with
  | .min => rankMinCore le xs
  | .max => rankMaxCore le xs
  | .ordinal => rankOrdCore le xs

/-- `Vector.unique`: `u, indices = np.unique(opt, return_index=True)`;
    `self[indices.sort()]` — the first-occurrence indices, increasing.
    The missing value is one more value here (`equal_nan=True`). -/
def vunique (le : κ → κ → Bool) (naFirst : Bool) (xs : List (Option κ)) : List Nat :=
  (uniqueIndex (leRaw le naFirst) xs).mergeSort (fun a b => a ≤ b)

/-- Specification: positions whose value did not occur earlier. -/
def firstOcc [DecidableEq α] [Inhabited α] (xs : List α) : List Nat :=
  (List.range xs.length).filter (fun i => !(xs.take i).contains xs[i]!)

end DI

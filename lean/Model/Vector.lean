/-
  Model/Vector.lean — transcription of `Vector.sort`, `Vector.rank`, `Vector.unique`
  (dataiter/vector.py) over cells `Option κ`; `none` is the missing value.

  All three return *positions* into the input (the harness reconstructs values with the
  same positions), plus rank vectors for `rank`.
-/
import Model.Basic

namespace DI

variable {κ : Type} [DecidableEq κ]

def isNa (x : Option κ) : Bool := x.isNone

/-- `Vector.sort(dir)` for non-object dtypes:
    `new = self[opt.argsort(kind="stable")]`; reversed for `dir < 0`;
    `new[~na].concat(new[na])`.  `naFirst` says where the raw NumPy sort puts the missing
    value of this dtype (`""` first, NaN / NaT last). -/
def vsort (le : κ → κ → Bool) (naFirst : Bool) (desc : Bool) (xs : List (Option κ)) :
    List Nat :=
  let idx := argsort (leRaw le naFirst) xs
  let idx := if desc then idx.reverse else idx
  idx.filter (fun i => !isNa xs[i]!) ++ idx.filter (fun i => isNa xs[i]!)

/-- `Vector.sort(dir)` for object vectors: `sorted(self, key=str, reverse=dir<0)`, then the
    same relocation of missing values.  `keys` are the `str(x)` images computed by Python. -/
def vsortObj (le : σ → σ → Bool) (desc : Bool) (keys : List σ) (na : List Bool) : List Nat :=
  let idx := argsortPy le desc keys
  idx.filter (fun i => !na[i]!) ++ idx.filter (fun i => na[i]!)

/-- NumPy boolean-mask assignment `out[mask] = vals` (vals consumed in order). -/
def putMask : List Bool → List Nat → List Nat → List Nat
  | [], _, _ => []
  | _ :: _, [], _ => []
  | m :: ms, o :: os, vs =>
    if m then vs.headD 0 :: putMask ms os vs.tail else o :: putMask ms os vs

/-- the non-missing values in order: `self[~na]`. -/
def nonNa (xs : List (Option κ)) : List κ := xs.filterMap id

def zeros (n : Nat) : List Nat := List.replicate n 0

/-- strictly smaller. -/
def ltOf (le : κ → κ → Bool) (a b : κ) : Bool := le a b && !(le b a)

/-- `Vector.rank(method="min")` after the all-missing guard:
    `inv = np.unique(self[~na], return_inverse=True)[1]`
    `out[~na] = concatenate(([0], bincount(inv))).cumsum()[inv] + 1`
    `out[na]  = (~na).sum() + 1`. -/
def rankMinCore (le : κ → κ → Bool) (xs : List (Option κ)) : List Nat :=
  let vals := nonNa xs
  let inv := uniqueInverse le vals
  let cs := cumsum (0 :: bincount inv (sortedDistinct le vals).length)
  let r := inv.map (fun k => cs[k]! + 1)
  let out := putMask (xs.map (fun x => !isNa x)) (zeros xs.length) r
  putMask (xs.map isNa) out (List.replicate xs.length (vals.length + 1))

/-- `Vector.rank(method="max")`:
    `out[~na] = bincount(inv).cumsum()[inv]`, `out[na] = len(self)`. -/
def rankMaxCore (le : κ → κ → Bool) (xs : List (Option κ)) : List Nat :=
  let vals := nonNa xs
  let inv := uniqueInverse le vals
  let cs := cumsum (bincount inv (sortedDistinct le vals).length)
  let r := inv.map (fun k => cs[k]!)
  let out := putMask (xs.map (fun x => !isNa x)) (zeros xs.length) r
  putMask (xs.map isNa) out (List.replicate xs.length xs.length)

/-- `rank[indices] = arange(len(indices)) + 1` for a permutation `indices`:
    position `p` receives `k + 1` where `indices[k] = p`. -/
def invPermPlus1 (indices : List Nat) : List Nat :=
  (List.range indices.length).map (fun p => indices.idxOf p + 1)

/-- `Vector.rank(method="ordinal")`:
    `indices = self[~na].argsort(kind="stable")`; `rank[indices] = arange(len)+1`;
    `out[~na] = rank`; `out[na] = rank.max() + arange(na.sum()) + 1`
    (`rank.max()` is `len(rank)`: it is a permutation of `1..len`). -/
def rankOrdCore (le : κ → κ → Bool) (xs : List (Option κ)) : List Nat :=
  let vals := nonNa xs
  let indices := argsort le vals
  let rank := invPermPlus1 indices
  let out := putMask (xs.map (fun x => !isNa x)) (zeros xs.length) rank
  putMask (xs.map isNa) out
    ((List.range (xs.length - vals.length)).map (fun k => vals.length + k + 1))

inductive RankMethod | min | max | ordinal
  deriving DecidableEq, Repr

/-- `Vector.rank`: empty guard, all-missing guard (the vector is replaced by a constant
    vector *and the mask recomputed*), then the per-method pipeline. -/
def vrank (le : κ → κ → Bool) (one : κ) (m : RankMethod) (xs : List (Option κ)) : List Nat :=
  if xs.length = 0 then [] else
  let xs := if xs.all isNa then xs.map (fun _ => some one) else xs
  match m with
  | .min => rankMinCore le xs
  | .max => rankMaxCore le xs
  | .ordinal => rankOrdCore le xs

/-- `Vector.unique`: `u, indices = np.unique(opt, return_index=True)`;
    `self[indices.sort()]` — the first-occurrence indices, increasing.
    The missing value is one more value here (`equal_nan=True`). -/
def vunique (le : κ → κ → Bool) (naFirst : Bool) (xs : List (Option κ)) : List Nat :=
  (uniqueIndex (leRaw le naFirst) xs).mergeSort (fun a b => a ≤ b)

/-- Specification: "ordered strictly before", the missing value after everything else and
    missing values tied with each other. -/
def ltNaLast (le : κ → κ → Bool) : Option κ → Option κ → Bool
  | some a, some b => ltOf le a b
  | some _, none => true
  | none, _ => false

/-- Specification of `rank(method="min")`: one plus the number of elements ordered strictly
    before the element. -/
def rankMinSpec (le : κ → κ → Bool) (xs : List (Option κ)) : List Nat :=
  xs.map (fun x => 1 + (xs.filter (fun y => ltNaLast le y x)).length)

/-- Specification of `rank(method="max")`: the number of elements ordered before or equal. -/
def rankMaxSpec (le : κ → κ → Bool) (xs : List (Option κ)) : List Nat :=
  xs.map (fun x => (xs.filter (fun y => !ltNaLast le x y)).length)

/-- Specification order of a sorted vector: ascending or descending on the non-missing values,
    the missing value after everything in both directions. -/
def ordDir (le : κ → κ → Bool) (desc : Bool) : Option κ → Option κ → Bool
  | _, none => true
  | none, some _ => false
  | some a, some b => if desc then le b a else le a b

/-- Specification: positions whose value did not occur earlier. -/
def firstOcc [DecidableEq α] [Inhabited α] (xs : List α) : List Nat :=
  (List.range xs.length).filter (fun i => !(xs.take i).contains xs[i]!)

end DI

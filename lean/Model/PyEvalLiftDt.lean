/-
  Model/PyEvalLiftDt.lean — the evaluator of `Model/PyEvalLift.lean` extended to the remaining functions of
  `dataiter/dt.py` regenerated in `Generated/CodeC19.lean`: `_pull_datetime`, `replace`, `to_string`, `from_string`,
  `quarter`, `weekday`, `new` (and `_pull_int` / `_pull_str` / the extractors again, as their callees).  Nothing of
  `Model/PyEvalLift.lean` is changed; its list primitives (`flatnonzero`, `select`, `allSome`, `naSyms`,
  `DtRe.putMask`, the decidable equality of terms) are reused.  The semantics is the same (`none` = unsupported form or Python exception; the translator
  inlines locals, so a written object is found in the store under its defining term); what is new:

  * the stdlib method is PARTIAL and takes keyword arguments: `DCtx.f : ε → List (String × γ) → Option ρ`
    (`y.replace(**kw)`, `y.strftime(format)`, `datetime.datetime.strptime(s, format)`, `y.month`, `y.weekday()`); `none`
    = the method raises for that element, and then the whole call raises (`none`).  Opaque arguments (`format`) are
    closed over by `f`; the keywords are the evaluated `**dict`, which must hold scalars only.
  * `lambda p: <std>(p, args…)` (the only lambdas of `dt.py`) denotes the method with its other arguments evaluated
    when the lambda is created (`DVal.meth kw`); the arguments may not mention `p` (checked) and are names of the
    enclosing function that are never rebound, so this is what Python computes at each call.
  * `np.vectorize(f)(values)` raises on an EMPTY input (NumPy: "cannot call `vectorize` on size 0 inputs unless
    `otypes` is set") — the guards `if na.all(): return out` of the code are what prevents this.
  * component values of `replace`: a scalar `comp c`, a vector `cvec vs` (`DtRe.Comp`), `None` = `na`; dicts of them
    (`kwargs`), `locals()` = the bindings of the call (`P`, the parameter frame: evaluated at entry by Python, inlined
    by the translator, so it must not see the loop variables), dict / list comprehensions with one generator,
    `d[k] = v` on a dict (in place if the key exists, appended otherwise — Python's insertion order), the
    short-circuit `or`, `for` over positions / dict values / keys, with a name or a pair as target.
  * `map(np.datetime64, x)` (`dt.new`): the constructor at every non-missing element, NaT at the missing ones (`mapOpt`).
  * `.as_datetime()` keeps the values (None ⇒ NaT); `.as_date()` keeps the values and marks the unit as days
    (`DVal.dates`); plain integer vectors (`nums`) for the components compared with 0; `Div` / `np.ceil` through the
    exact quotient (`quot`) and the parameter `DCtx.ceilDiv`.
-/
import Model.PyEvalLift

namespace DI.DtRe

deriving instance DecidableEq, Repr for Comp

/-- is the component a scalar? (`util.is_scalar`) -/
def Comp.isScalar {γ : Type} : Comp γ → Bool
  | .scalar _ => true
  | .vector _ => false

end DI.DtRe

namespace DI.PyEvalLiftDt

open DI DI.Py DI.PyEvalLift DI.DtRe

/-! ### values -/

/-- `ε` = element type of the input vector, `ρ` = result type of the stdlib method, `γ` = type of a `replace`
    component value. -/
inductive DVal (ε ρ γ : Type) where
  | na
  | bool (b : Bool)
  | nat (k : Nat)
  | opaque (s : String)
  | str (s : String)                          -- a dict key / string literal
  | elem (x : Option ε)
  | res (r : Option ρ)
  | dres (r : Option ρ)                       -- one element of an array converted by `.as_date()`: a date scalar
  | vec (xs : List (Option ε))
  | out (l : List (Option ρ))
  | dates (l : List (Option ρ))               -- an output array converted by `.as_date()`: unit = days
  | iout (l : List ρ)
  | vals (l : List ρ)
  | nums (l : List Nat)                       -- a plain integer vector (hours, minutes, seconds)
  | quot (l : List (Option ρ)) (d : Nat)      -- `v / d`, exactly
  | mask (m : List Bool)
  | idx (l : List Nat)
  | comp (c : γ)                              -- a scalar component
  | cvec (vs : List γ)                        -- a vector component
  | dict (d : List (String × Comp γ))         -- a dict of components, in insertion order
  | comps (l : List (Comp γ))                 -- `d.values()`
  | keys (l : List String)                    -- a list of keys
  | scope                                     -- `locals()`
  | scopeItems                                -- `locals().items()`
  | meth (kw : List (String × γ))             -- the stdlib method with its keywords (`lambda y: y.m(**kw)`)
  | vmeth (kw : List (String × γ))            -- `np.vectorize` of it
  deriving DecidableEq, Repr, Inhabited

abbrev DEnv (ε ρ γ : Type) := List (String × DVal ε ρ γ)
abbrev DStore (ε ρ γ : Type) := List (Term × DVal ε ρ γ)

structure DCtx (ε ρ γ : Type) where
  std : String                                                          -- name of the stdlib method `f` interprets
  f : ε → List (String × γ) → Option ρ                                  -- the method: receiver, keywords; `none` = raises
  ceilDiv : ρ → Nat → ρ                                                 -- `np.ceil(r / d)`
  calls : String → Option (List (DVal ε ρ γ) → Option (DVal ε ρ γ))     -- other functions of the module

variable {ε ρ γ : Type}

def DEnv.get? (env : DEnv ε ρ γ) (x : String) : Option (DVal ε ρ γ) := (env.find? (fun p => p.1 == x)).map (·.2)

def DStore.find : DStore ε ρ γ → Term → Option (DVal ε ρ γ)
  | [], _ => none
  | (k, v) :: r, t => if k = t then some v else DStore.find r t

/-- a name: a missing marker, the literal `'x'`, else the binding of the environment, else an opaque object. -/
def lookupD (env : DEnv ε ρ γ) (s : String) : DVal ε ρ γ :=
  if naSyms.contains s then .na
  else if s = "'x'" then .str "x"
  else match env.get? s with
    | some v => v
    | none => .opaque s

/-! ### primitives (trusted part) -/

def fillOfD : DVal ε ρ γ → Option (Option ρ)
  | .na => some none
  | .res r => some r
  | _ => none

def compVal : Comp γ → DVal ε ρ γ
  | .scalar c => .comp c
  | .vector vs => .cvec vs

/-- the component a value stands for. -/
def valComp : DVal ε ρ γ → Option (Comp γ)
  | .comp c => some (.scalar c)
  | .cvec vs => some (.vector vs)
  | _ => none

/-- `**d`: all values must be scalars. -/
def allScalar : List (String × Comp γ) → Option (List (String × γ))
  | [] => some []
  | (k, .scalar c) :: r => (allScalar r).map (fun l => (k, c) :: l)
  | (_, .vector _) :: _ => none

/-- `d[k] = v`: in place if the key exists, appended otherwise. -/
def dictSet (d : List (String × Comp γ)) (k : String) (v : Comp γ) : List (String × Comp γ) :=
  if d.any (fun p => p.1 == k) then d.map (fun p => if p.1 == k then (k, v) else p) else d ++ [(k, v)]

/-- the keywords among the arguments after the receiver: opaque arguments are closed over, one `**dict` of scalars. -/
def kwOf : List (DVal ε ρ γ) → Option (List (String × γ))
  | [] => some []
  | .opaque _ :: r => kwOf r
  | [.dict d] => allScalar d
  | _ => none

/-- the stdlib method on (receiver, arguments…): the receiver must be a non-missing element. -/
def stdCall (C : DCtx ε ρ γ) : List (DVal ε ρ γ) → Option (DVal ε ρ γ)
  | .elem (some y) :: r => (kwOf r).bind (fun kw => (C.f y kw).map (fun v => .res (some v)))
  | _ => none

def isNa : DVal ε ρ γ → Bool
  | .na => true
  | _ => false

/-- the element-wise map of a PARTIAL function: `g x` at every non-missing position, missing stays missing; `none`
    (the call raises) as soon as `g` rejects one non-missing element. -/
def mapOpt {α β : Type} (g : α → Option β) : List (Option α) → Option (List (Option β))
  | [] => some []
  | none :: r => (mapOpt g r).map (fun l => none :: l)
  | some y :: r => match g y with
    | none => none
    | some v => (mapOpt g r).map (fun l => some v :: l)

def primD (C : DCtx ε ρ γ) : String → List (DVal ε ρ γ) → Option (DVal ε ρ γ)
  | "np.full_like", [.vec xs, fill, _] => (fillOfD fill).map (fun d => .out (xs.map (fun _ => d)))
  -- `np.full_like(x, np.nan)` on a datetime array: NaT everywhere, the dtype (unit) of `x`
  | "np.full_like", [.vec xs, fill] => (fillOfD fill).map (fun d => .out (xs.map (fun _ => d)))
  | "Vector.fast", [.out l, _] => some (.out l)
  | "Eq", [.vec xs, .na] => some (.mask (xs.map (·.isNone)))
  | "Eq", [.nat a, .nat b] => some (.bool (a == b))
  | "Eq", [.nums l, .nat k] => some (.mask (l.map (· == k)))
  | "Gt", [.nat a, .nat b] => some (.bool (decide (b < a)))
  | "np.isnat", [.vec xs] => some (.mask (xs.map (·.isNone)))
  | "np.isnan", [.out l] => some (.mask (l.map (·.isNone)))
  | "~", [.mask m] => some (.mask (m.map (!·)))
  | "np.flatnonzero", [.mask m] => some (.idx (flatnonzero m))
  | ".all", [.mask m] => some (.bool (m.all id))
  | ".any", [.mask m] => some (.bool (m.any id))
  | "all", [.mask m] => some (.bool (m.all id))
  | "map", [.opaque "util.is_scalar", .comps l] => some (.mask (l.map Comp.isScalar))
  -- `map(np.datetime64, x)` (the one stdlib constructor mapped over a sequence, `dt.new`): every non-missing element
  -- converted, None / the blank string ⇒ NaT; an error as soon as one element is rejected
  | "map", [.opaque s, .vec xs] => if s = C.std then (mapOpt (fun y => C.f y []) xs).map DVal.out else none
  | "getitem", [.vec xs, .nat i] => xs[i]?.map DVal.elem
  | "getitem", [.vec xs, .mask m] => if m.length = xs.length then some (.vec (select m xs)) else none
  | "getitem", [.out l, .nat i] => l[i]?.map DVal.res
  | "getitem", [.out l, .mask m] => if m.length = l.length then some (.out (select m l)) else none
  | "getitem", [.iout l, .nat i] => l[i]?.map (fun r => DVal.res (some r))
  | "getitem", [.dates l, .nat i] => l[i]?.map DVal.dres
  -- `d[k]`: KeyError if absent
  | "getitem", [.dict d, .str k] => (d.lookup k).map compVal
  -- `vs[i]`: IndexError outside
  | "getitem", [.cvec vs, .nat i] => vs[i]?.map DVal.comp
  | ".astype", [.vec xs, .opaque "object"] => some (.vec xs)
  | ".astype", [.out l, .opaque "int"] => (allSome l).map DVal.iout
  | "np.vectorize", [.meth kw] => some (.vmeth kw)
  -- `np.vectorize(m)(values)`: error on a missing value, on an empty input, and when `m` raises for some value
  | "call", [.vmeth kw, .vec xs] =>
    if xs.isEmpty then none
    else (allSome xs).bind (fun l => (allSome (l.map (fun y => C.f y kw))).map DVal.vals)
  | ".as_string", [.out l] => some (.out l)
  | ".as_integer", [.out l] => (allSome l).map DVal.iout
  | ".as_datetime", [.out l] => some (.out l)
  | ".as_date", [.out l] => some (.dates l)
  | "util.is_scalar", [.elem _] => some (.bool true)
  | "util.is_scalar", [.vec _] => some (.bool false)
  | "util.is_scalar", [.comp _] => some (.bool true)
  | "util.is_scalar", [.cvec _] => some (.bool false)
  | "isinstance", [.vec _, .opaque "np.ndarray"] => some (.bool true)
  | ".dtype", [.vec _] => some (.opaque ".dtype")
  | "isinstance", [.opaque ".dtype", .opaque "StringDType"] => some (.bool true)
  | "np.issubdtype", [.opaque ".dtype", .opaque "np.datetime64"] => some (.bool true)
  | "len", [.vec xs] => some (.nat xs.length)
  | "len", [.out l] => some (.nat l.length)
  | "len", [.cvec vs] => some (.nat vs.length)
  | "list", [.elem x] => some (.vec [x])
  | "Vector", [.vec xs, .opaque _] => some (.vec xs)
  | "locals", [] => some .scope
  | ".items", [.scope] => some .scopeItems
  | ".values", [.dict d] => some (.comps (d.map (·.2)))
  | "And", [.bool a, .bool b] => some (.bool (a && b))
  | "NotEq", [.str a, .str b] => some (.bool (a != b))
  | "IsNot", [v, .na] => some (.bool (!isNa v))
  | "NotIn", [.str k, .keys l] => some (.bool (!l.contains k))
  | "=**", [.dict d] => some (.dict d)
  | "Div", [.iout l, .nat d] => some (.quot (l.map some) d)
  | "Div", [.out l, .nat d] => some (.quot l d)
  | "np.ceil", [.quot l d] => some (.out (l.map (fun r => r.map (fun v => C.ceilDiv v d))))
  | _, _ => none

def primNamesD : List String :=
  ["np.full_like", "Vector.fast", "Eq", "Gt", "np.isnat", "np.isnan", "~", "np.flatnonzero", ".all", ".any", "all", "map",
   "getitem", ".astype", "np.vectorize", "call", ".as_string", ".as_integer", ".as_datetime", ".as_date",
   "util.is_scalar", "isinstance", ".dtype", "np.issubdtype", "len", "list", "Vector", "locals", ".items", ".values",
   "And", "NotEq", "IsNot", "NotIn", "=**", "Div", "np.ceil"]

/-- the heads `evalD` treats itself. -/
def specialHeads : List String := ["Or", "lambda", "DictComp", "ListComp"]

def applyD (C : DCtx ε ρ γ) (g : String) (vs : List (DVal ε ρ γ)) : Option (DVal ε ρ γ) :=
  if primNamesD.contains g then primD C g vs
  else match C.calls g with
    | some h => h vs
    | none => if g = C.std then stdCall C vs else none

def assignD : DVal ε ρ γ → DVal ε ρ γ → DVal ε ρ γ → Option (DVal ε ρ γ)
  | .out l, .nat i, .res r => if i < l.length then some (.out (l.set i r)) else none
  | .out l, .mask m, .vals vs =>
    if m.length = l.length ∧ vs.length = (m.filter id).length then some (.out (DtRe.putMask m l vs)) else none
  | .dict d, .str k, v => (valComp v).map (fun c => .dict (dictSet d k c))
  | _, _, _ => none

/-- what a `for` / a comprehension iterates over: each item is the list of values its target binds (`P` = the
    bindings of the call, for `locals().items()`). -/
def iterItems (P : DEnv ε ρ γ) : DVal ε ρ γ → Option (List (List (DVal ε ρ γ)))
  | .idx l => some (l.map (fun k => [.nat k]))
  | .comps l => some (l.map (fun c => [compVal c]))
  | .keys l => some (l.map (fun k => [.str k]))
  | .dict d => some (d.map (fun p => [.str p.1]))
  | .scopeItems => some (P.map (fun p => [.str p.1, p.2]))
  | _ => none

/-- the bindings of a target: a name, or a pair of names. -/
def bindTarget : Term → List (DVal ε ρ γ) → Option (DEnv ε ρ γ)
  | .sym x, [v] => some [(x, v)]
  | .app "tuple" [.sym k, .sym v], [a, b] => some [(k, a), (v, b)]
  | _, _ => none

/-- run `step` over the items, threading the store. -/
def loopD {σ α : Type} (step : σ → α → Option σ) : σ → List α → Option σ
  | s, [] => some s
  | s, k :: ks => match step s k with
    | none => none
    | some s' => loopD step s' ks

/-- collect `g item` over the items: `some none` = filtered out, `none` = error. -/
def collectD {α β : Type} (g : α → Option (Option β)) : List α → Option (List β)
  | [] => some []
  | a :: as => match g a with
    | none => none
    | some none => collectD g as
    | some (some b) => (collectD g as).map (fun l => b :: l)

def allTrue : List (DVal ε ρ γ) → Option Bool
  | [] => some true
  | .bool b :: r => (allTrue r).map (fun c => b && c)
  | _ :: _ => none

def dictEntry : Option (DVal ε ρ γ) → Option (DVal ε ρ γ) → Option (String × Comp γ)
  | some (.str k), some v => (valComp v).map (fun c => (k, c))
  | _, _ => none

def keyEntry : Option (DVal ε ρ γ) → Option String
  | some (.str k) => some k
  | _ => none

mutual
def Term.mentions (p : String) : Term → Bool
  | .sym s => s == p
  | .app _ args => Term.mentionsList p args
  | _ => false
def Term.mentionsList (p : String) : List Term → Bool
  | [] => false
  | t :: ts => Term.mentions p t || Term.mentionsList p ts
end

/-! ### the evaluator -/

mutual
/-- expressions; `P` = the bindings of the call (what `locals()` denotes). -/
def evalD (C : DCtx ε ρ γ) (P : DEnv ε ρ γ) (σ : DStore ε ρ γ) (env : DEnv ε ρ γ) : Term → Option (DVal ε ρ γ)
  | .int i => if 0 ≤ i then some (.nat i.toNat) else none
  | .rows _ => none
  | .slice _ _ => none
  | .sym s => some (lookupD env s)
  | .app g args =>
    match σ.find (.app g args) with
    | some v => some v
    | none =>
      if g = "Or" then evalOrD C P σ env args
      else if g = "lambda" then evalLambdaD C P σ env args
      else if g = "DictComp" then evalDictCompD C P σ env args
      else if g = "ListComp" then evalListCompD C P σ env args
      else match evalArgsD C P σ env args with
        | none => none
        | some vs => applyD C g vs
def evalArgsD (C : DCtx ε ρ γ) (P : DEnv ε ρ γ) (σ : DStore ε ρ γ) (env : DEnv ε ρ γ) :
    List Term → Option (List (DVal ε ρ γ))
  | [] => some []
  | t :: ts => match evalD C P σ env t, evalArgsD C P σ env ts with
    | some v, some vs => some (v :: vs)
    | _, _ => none
/-- `a or b`: `b` is evaluated only when `a` is false. -/
def evalOrD (C : DCtx ε ρ γ) (P : DEnv ε ρ γ) (σ : DStore ε ρ γ) (env : DEnv ε ρ γ) : List Term → Option (DVal ε ρ γ)
  | [a, b] =>
    match evalD C P σ env a with
    | some (.bool true) => some (.bool true)
    | some (.bool false) =>
      (match evalD C P σ env b with
       | some (.bool c) => some (.bool c)
       | _ => none)
    | _ => none
  | _ => none
/-- `lambda p: <std>(p, args…)`. -/
def evalLambdaD (C : DCtx ε ρ γ) (P : DEnv ε ρ γ) (σ : DStore ε ρ γ) (env : DEnv ε ρ γ) : List Term → Option (DVal ε ρ γ)
  | [.app "params" [.sym p], .app g (.sym q :: args)] =>
    if p = q ∧ g = C.std ∧ Term.mentionsList p args = false then
      match evalArgsD C P σ env args with
      | some vs => (kwOf vs).map DVal.meth
      | none => none
    else none
  | _ => none
/-- `{ke: ve for tgt in iter if conds}`. -/
def evalDictCompD (C : DCtx ε ρ γ) (P : DEnv ε ρ γ) (σ : DStore ε ρ γ) (env : DEnv ε ρ γ) : List Term → Option (DVal ε ρ γ)
  | [.app "pair" [ke, ve], .app "in" [tgt, iter, .app "if" conds]] =>
    match evalD C P σ env iter with
    | none => none
    | some it =>
      match iterItems P it with
      | none => none
      | some items =>
        (collectD (fun item =>
          match bindTarget tgt item with
          | none => none
          | some b =>
            match (evalArgsD C P σ (b ++ env) conds).bind allTrue with
            | none => none
            | some false => some none
            | some true => (dictEntry (evalD C P σ (b ++ env) ke) (evalD C P σ (b ++ env) ve)).map some) items).map DVal.dict
  | _ => none
/-- `[e for tgt in iter if conds]` (a list of keys). -/
def evalListCompD (C : DCtx ε ρ γ) (P : DEnv ε ρ γ) (σ : DStore ε ρ γ) (env : DEnv ε ρ γ) : List Term → Option (DVal ε ρ γ)
  | [e, .app "in" [tgt, iter, .app "if" conds]] =>
    match evalD C P σ env iter with
    | none => none
    | some it =>
      match iterItems P it with
      | none => none
      | some items =>
        (collectD (fun item =>
          match bindTarget tgt item with
          | none => none
          | some b =>
            match (evalArgsD C P σ (b ++ env) conds).bind allTrue with
            | none => none
            | some false => some none
            | some true => (keyEntry (evalD C P σ (b ++ env) e)).map some) items).map DVal.keys
  | _ => none
end

mutual
def execD (C : DCtx ε ρ γ) (P : DEnv ε ρ γ) (env : DEnv ε ρ γ) : Term → DStore ε ρ γ → Option (DStore ε ρ γ)
  | .app "assert" [t], σ =>
    match evalD C P σ env t with
    | some (.bool true) => some σ
    | _ => none
  | .app "store" [.app "getitem" [obj, ix], e], σ =>
    match evalD C P σ env e, evalD C P σ env obj, evalD C P σ env ix with
    | some v, some o, some i => (assignD o i v).map (fun o' => (obj, o') :: σ)
    | _, _, _ => none
  | .app "for" [tgt, iter, .app "block" body], σ =>
    match evalD C P σ env iter with
    | none => none
    | some it =>
      match iterItems P it with
      | none => none
      | some items =>
        loopD (fun σ' item =>
          match bindTarget tgt item with
          | none => none
          | some b => execBlockD C P (b ++ env) body σ') σ items
  | _, _ => none
def execBlockD (C : DCtx ε ρ γ) (P : DEnv ε ρ γ) (env : DEnv ε ρ γ) : List Term → DStore ε ρ γ → Option (DStore ε ρ γ)
  | [], σ => some σ
  | s :: ss, σ => match execD C P env s σ with
    | none => none
    | some σ' => execBlockD C P env ss σ'
end

/-- the value a translated body returns when called with the bindings `env`. -/
def runD (C : DCtx ε ρ γ) (env : DEnv ε ρ γ) : Out → Option (DVal ε ρ γ)
  | .ret effs t => match execBlockD C env env effs [] with
    | some σ => evalD C env σ env t
    | none => none
  | _ => none

/-- `truth` answers every test that has a Boolean value in the store `σ` with that value. -/
def AgreesAtD (C : DCtx ε ρ γ) (env : DEnv ε ρ γ) (σ : DStore ε ρ γ) (truth : Term → Bool) : Prop :=
  ∀ t b, evalD C env σ env t = some (.bool b) → truth t = b

/-- … in the empty store (tests that only read the arguments). -/
def AgreesD (C : DCtx ε ρ γ) (env : DEnv ε ρ γ) (truth : Term → Bool) : Prop := AgreesAtD C env [] truth

def truthAtD (C : DCtx ε ρ γ) (env : DEnv ε ρ γ) (σ : DStore ε ρ γ) (t : Term) : Bool :=
  match evalD C env σ env t with
  | some (.bool b) => b
  | _ => false

def truthOfD (C : DCtx ε ρ γ) (env : DEnv ε ρ γ) : Term → Bool := truthAtD C env []

def bindParamsD : List String → List (DVal ε ρ γ) → Option (DEnv ε ρ γ)
  | [], [] => some []
  | p :: ps, v :: vs => (bindParamsD ps vs).map (fun e => (p, v) :: e)
  | _, _ => none

def runFnD (C : DCtx ε ρ γ) (sig : List String) (body : (Term → Bool) → Out) (vs : List (DVal ε ρ γ)) :
    Option (DVal ε ρ γ) :=
  match bindParamsD sig vs with
  | some env => runD C env (body (truthOfD C env))
  | none => none

def noCallsD : String → Option (List (DVal ε ρ γ) → Option (DVal ε ρ γ)) := fun _ => none

end DI.PyEvalLiftDt

/-
  Model/PyEvalNa.lean — a small total evaluator (denotational semantics) for the terms that the source translator
  `harness/py2lean.py` emits for the missing-value helpers of `Vector` (dataiter/vector.py; `Generated/CodeC10.lean`):
  `na_value`, `na_dtype`, `is_na`, `drop_na`, `tolist`, `equal`.

  `Proofs/TieC10.lean` reads the decision chains off the regenerated bodies (`NaTest`: which element-wise test `is_na`
  applies per dtype class).  This file says what the returned terms MEAN on the stored elements of a vector, one level
  below the cells `Option κ` of `Model/Vector.lean` (where "missing" is already `none`):

  * a stored element `El` is the float NaN, NaT, Python's `None`, or any other value `v k` (`k : Key` of
    `Model/Basic.lean`: a Boolean, a number / tick count by its order-isomorphic integer image, a string by its code
    points — `Key.s []` is the blank string `""` —, an opaque object by its tag);
  * a vector is `vec c xs`: its dtype class (`DClass` of `Model/Construct.lean`) and its stored elements.  Nothing in the
    evaluator assumes that the elements fit the class (`Storable`, used only where a theorem needs it);
  * Python's `==` on two elements is `pyEq`: structural equality, EXCEPT that NaN and NaT are not equal to themselves
    (IEEE / NumPy), while `None == None` holds;
  * **primitives — the trusted part; each is the obvious list specification of the NumPy call** (`prim`):
      - the dtype predicates (`is_datetime`, `is_timedelta`, `is_float`, `is_integer`, `is_string`, `_is_string_fixed`) answer
        as NumPy does (`np.issubdtype(timedelta64, np.integer)` holds: the same table as `Tie.C10.dtypeTruth`);
      - `np.isnat(a)`: element is NaT (TypeError = `none` unless the dtype is datetime64 / timedelta64);
        `np.isnan(a)`: element is NaN (TypeError unless the dtype is numeric);
      - `a == x` for a scalar / an array of the same class and length: element-wise `pyEq` (arrays of different classes:
        not supported — the integer images of two classes are not comparable; arrays of different lengths: `none`);
        `m1 == m2` for two Boolean arrays of the same length;
      - `[x is None for x in self]`: a list comprehension over the elements (a special form of `evalExpr`), read into a
        Boolean vector by `self.fast(…, bool)`;
      - `~m`, `a[m]` (Boolean mask of the same length: the elements at the true entries, in order), `.copy()`,
        `np.where(m, None, a)` (an object array: `None` at the true entries, the element elsewhere), `.tolist()` of that
        array, `np.all(m)`, `str(x)` of the four missing values ("nan", "NaT", "", "None"), `isinstance(x, Vector)`;
      - `a and b` is a special form: `b` is evaluated only when `a` is true (Python's short circuit — `equal` relies on it:
        `self[~ii] == other[~jj]` is only meaningful when the two masks agree).
  * method calls on a vector (`.is_na()`, `.na_value`, `.na_dtype`) go through a method table `Methods`; `M1` interprets
    them by RUNNING the regenerated bodies of `Generated/CodeC10.lean` (whose own tests are answered by the evaluator:
    `truthOf`), so nothing about `is_na` / `na_value` is assumed.
  * `none` = unsupported form or Python exception.
-/
import Model.Basic
import Model.Construct
import Model.PyCore
import Generated.CodeC10

namespace DI.PyEvalNa

open DI DI.Py DI.Construct

/-! ### values -/

/-- a stored element of a vector. -/
inductive El where
  | nan                -- the float NaN
  | nat                -- NaT (datetime64 / timedelta64)
  | pyNone             -- Python's None (object arrays)
  | v (k : Key)        -- any other value
  deriving DecidableEq, Repr, Inhabited

/-- the blank string, the missing value of string vectors (`dtypes.string.na_object`). -/
def blank : El := .v (.s [])

/-- Python's `a == b` on elements: NaN and NaT are not equal to themselves. -/
def pyEq (a b : El) : Bool := a == b && a != .nan && a != .nat

inductive Val where
  | vec (c : DClass) (xs : List El)     -- a Vector
  | arr (xs : List El)                  -- a plain object ndarray (the result of `np.where(…, None, …)`)
  | mask (m : List Bool)                -- a Boolean vector
  | bools (m : List Bool)               -- a Python list of bools
  | list (xs : List El)                 -- a Python list of elements
  | el (e : El)                         -- a scalar
  | bool (b : Bool)
  | dtype (c : DClass)                  -- a dtype, by its class
  | name (s : String)                   -- an opaque object or a string literal, by its source text
  deriving DecidableEq, Repr, Inhabited

abbrev Env := List (String × Val)

def Env.get? (env : Env) (x : String) : Option Val := (env.find? (fun p => p.1 == x)).map (·.2)

/-- method calls that are interpreted by running a regenerated body. -/
abbrev Methods := String → List Val → Option Val

/-- a name: the constants of these bodies, else the binding of the environment, else an object known by its source
    text. -/
def lookupSym (env : Env) : String → Val
  | "True" => .bool true
  | "False" => .bool false
  | "None" => .el .pyNone
  | "np.nan" => .el .nan
  | "dtypes.string.na_object" => .el blank
  | "float" => .dtype .float
  | "object" => .dtype .object
  | s => match env.get? s with
    | some v => v
    | none => .name s

/-! ### primitives (trusted part) -/

/-- `x[m]` for a Boolean mask of the same length: the elements at the true entries, in order. -/
def select {α : Type} : List Bool → List α → List α
  | true :: m, x :: xs => x :: select m xs
  | false :: m, _ :: xs => select m xs
  | _, _ => []

/-- all results, or `none` if one failed. -/
def allSome {α : Type} : List (Option α) → Option (List α)
  | [] => some []
  | none :: _ => none
  | some a :: t => match allSome t with
    | none => none
    | some l => some (a :: l)

/-- a list of Python bools. -/
def collectBools : List Val → Option (List Bool)
  | [] => some []
  | .bool b :: t => match collectBools t with
    | none => none
    | some l => some (b :: l)
  | _ :: _ => none

def isVec : Val → Bool
  | .vec _ _ => true
  | _ => false

/-- calls with evaluated arguments. -/
def prim : String → List Val → Option Val
  -- the dtype predicates, as NumPy answers them
  | ".is_datetime", [.vec c _] => some (.bool (c == .date || c == .datetime))
  | ".is_timedelta", [.vec c _] => some (.bool (c == .timedelta))
  | ".is_float", [.vec c _] => some (.bool (c == .float))
  | ".is_integer", [.vec c _] => some (.bool (c == .int || c == .timedelta))
  | ".is_string", [.vec c _] => some (.bool (c == .str))
  | "._is_string_fixed", [.vec c _] => some (.bool (c == .ustr))
  | ".dtype", [.vec c _] => some (.dtype c)
  -- the missing values
  | "np.datetime64", [.name "'NaT'"] => some (.el .nat)
  | "np.timedelta64", [.name "'NaT'"] => some (.el .nat)
  -- the element-wise tests
  | "np.isnat", [.vec c xs] =>
    if c == .date || c == .datetime || c == .timedelta then some (.mask (xs.map (· == .nat))) else none
  | "np.isnan", [.vec c xs] =>
    if c == .float || c == .int || c == .bool then some (.mask (xs.map (· == .nan))) else none
  | "Eq", [.vec _ xs, .el e] => some (.mask (xs.map (fun x => pyEq x e)))
  | "Eq", [.vec c xs, .vec d ys] =>
    if c = d ∧ xs.length = ys.length then some (.mask (List.zipWith pyEq xs ys)) else none
  | "Eq", [.mask a, .mask b] => if a.length = b.length then some (.mask (List.zipWith (· == ·) a b)) else none
  | "Eq", [.name a, .name b] => some (.bool (a == b))
  | "Is", [.el e, .el .pyNone] => some (.bool (e == .pyNone))
  | ".fast", [.vec _ _, .bools m, .name "bool"] => some (.mask m)
  -- masks and subscripts
  | "~", [.mask m] => some (.mask (m.map (!·)))
  | "getitem", [.vec c xs, .mask m] => if m.length = xs.length then some (.vec c (select m xs)) else none
  | ".copy", [.vec c xs] => some (.vec c xs)
  | "np.where", [.mask m, .el .pyNone, .vec _ xs] =>
    if m.length = xs.length then some (.arr (List.zipWith (fun b x => if b then El.pyNone else x) m xs)) else none
  | ".tolist", [.arr l] => some (.list l)
  | "np.all", [.mask m] => some (.bool (m.all id))
  -- `str` of the four missing values
  | "str", [.el .nan] => some (.name "nan")
  | "str", [.el .nat] => some (.name "NaT")
  | "str", [.el .pyNone] => some (.name "None")
  | "str", [.el (.v (.s []))] => some (.name "")
  | "isinstance", [x, .name "Vector"] => some (.bool (isVec x))
  | _, _ => none

/-- the calls that are method calls on a vector, interpreted by the method table. -/
def isMethod (f : String) : Bool := f == ".is_na" || f == ".na_value" || f == ".na_dtype"

/-! ### the evaluator -/

mutual
/-- expressions (these bodies have no statements). -/
def evalExpr (M : Methods) (env : Env) : Term → Option Val
  | .int _ => none
  | .rows _ => none
  | .slice _ _ => none
  | .sym s => some (lookupSym env s)
  | .app g args =>
    let vs := evalArgs M env args
    match g, args with
    -- `[elem for x in src]` over the elements of a vector, the results being bools
    | "ListComp", [elem, .app "in" [.sym x, src, .app "if" []]] =>
      match evalExpr M env src with
      | some (.vec _ xs) =>
        match allSome (xs.map (fun e => evalExpr M ((x, .el e) :: env) elem)) with
        | none => none
        | some vs => (collectBools vs).map Val.bools
      | _ => none
    -- `a and b`: `b` only when `a` is true
    | "And", [a, b] =>
      match evalExpr M env a with
      | some (.bool false) => some (.bool false)
      | some (.bool true) =>
        (match evalExpr M env b with
         | some (.bool r) => some (.bool r)
         | _ => none)
      | _ => none
    | _, _ =>
      match vs with
      | none => none
      | some vs => if isMethod g then M g vs else prim g vs
def evalArgs (M : Methods) (env : Env) : List Term → Option (List Val)
  | [] => some []
  | t :: ts => match evalExpr M env t, evalArgs M env ts with
    | some v, some vs => some (v :: vs)
    | _, _ => none
end

/-- the value a translated body returns (`none`: it raises, falls through, or has statements). -/
def runRet (M : Methods) (env : Env) : Out → Option Val
  | .ret [] t => evalExpr M env t
  | _ => none

/-- the answer of the evaluator to a symbolic test. -/
def truthOf (M : Methods) (env : Env) (t : Term) : Bool :=
  match evalExpr M env t with
  | some (.bool b) => b
  | _ => false

/-! ### the method table: the regenerated bodies, run -/

def M0 : Methods := fun _ _ => none

def selfEnv (c : DClass) (xs : List El) : Env := [("self", .vec c xs)]

/-- `v.is_na()`, `v.na_value`, `v.na_dtype`: the regenerated bodies of `Generated/CodeC10.lean`, their tests answered by
    the evaluator. -/
def M1 : Methods
  | ".is_na", [.vec c xs] => runRet M0 (selfEnv c xs) (DI.Gen.Vector_is_na (truthOf M0 (selfEnv c xs)))
  | ".na_value", [.vec c xs] => runRet M0 (selfEnv c xs) (DI.Gen.Vector_na_value (truthOf M0 (selfEnv c xs)))
  | ".na_dtype", [.vec c xs] => runRet M0 (selfEnv c xs) (DI.Gen.Vector_na_dtype (truthOf M0 (selfEnv c xs)))
  | _, _ => none

/-- the environment of `self.equal(other)`. -/
def equalEnv (c : DClass) (xs : List El) (d : DClass) (ys : List El) : Env :=
  [("self", .vec c xs), ("other", .vec d ys)]

/-- `v.drop_na()`, `v.tolist()`, `v.equal(w)`: the regenerated bodies run with `M1`. -/
def dropNaRun (c : DClass) (xs : List El) : Option Val :=
  runRet M1 (selfEnv c xs) (DI.Gen.Vector_drop_na (truthOf M1 (selfEnv c xs)))
def tolistRun (c : DClass) (xs : List El) : Option Val :=
  runRet M1 (selfEnv c xs) (DI.Gen.Vector_tolist (truthOf M1 (selfEnv c xs)))
def equalRun (c : DClass) (xs : List El) (d : DClass) (ys : List El) : Option Val :=
  runRet M1 (equalEnv c xs d ys) (DI.Gen.Vector_equal (truthOf M1 (equalEnv c xs d ys)) xs.length ys.length)

/-! ### specification functions (what the theorems of `Proofs/EvalC10.lean` compare the runs with) -/

/-- the element-wise test `is_na` applies in a vector of class `c` (`Tie.C10.is_na_refines`). -/
def isNaEl (c : DClass) (e : El) : Bool :=
  match c with
  | .date | .datetime | .timedelta => e == .nat
  | .float => e == .nan
  | .str | .ustr => e == blank
  | _ => e == .pyNone

/-- `na_value` of a vector of class `c` as an element. -/
def naEl (c : DClass) : El :=
  match naOfClass c with
  | .nan => .nan
  | .nat => .nat
  | .emptyStr => blank
  | .pyNone => .pyNone

/-- `na_dtype` of a vector of class `c`. -/
def naDtype (c : DClass) : DClass :=
  match c with
  | .int => .float
  | .float | .str | .ustr | .date | .datetime | .timedelta => c
  | _ => .object

/-- the cell (`Option`: `none` = missing) that the model of `Model/Vector.lean` / `Lemmas/Construct.lean` sees. -/
def cellOf (c : DClass) (e : El) : Option El := if isNaEl c e then none else some e

def cells (c : DClass) (xs : List El) : List (Option El) := xs.map (cellOf c)

/-- a cell as the Python value `tolist()` hands out: missing ↦ None. -/
def pyOfCell : Option El → El
  | none => .pyNone
  | some e => e

/-- the elements `drop_na` keeps. -/
def dropNa (c : DClass) (xs : List El) : List El := xs.filter (fun e => !isNaEl c e)

/-- can a vector of class `c` store the element? -/
def Storable (c : DClass) (e : El) : Bool :=
  match c, e with
  | .bool, .v (.b _) => true
  | .int, .v (.i _) => true
  | .float, .nan | .float, .v (.i _) => true
  | .str, .v (.s _) | .ustr, .v (.s _) | .bytes, .v (.s _) => true
  | .date, .nat | .datetime, .nat | .timedelta, .nat => true
  | .date, .v (.i _) | .datetime, .v (.i _) | .timedelta, .v (.i _) => true
  | .object, _ => true
  | _, _ => false

/-- the stored element as `Model/Construct.lean` sees it (its `Elem`: what `np.array` was given). -/
def toElem (c : DClass) : El → Elem
  | .nan => .nanF
  | .nat => .natV
  | .pyNone => .pyNone
  | .v (.s []) => .k (.str true)
  | .v (.s _) => .k (.str false)
  | .v (.b _) => .k .bool
  | .v (.o _) => .k .obj
  | .v (.i _) => match c with
    | .float => .k .float
    | .date => .k .date
    | .datetime => .k .datetime
    | .timedelta => .k .timedelta
    | _ => .k .int

/-- every non-missing element is equal to itself under Python's `==`: no NaN / NaT that `is_na` does not flag. -/
def Clean (c : DClass) (xs : List El) : Prop := ∀ e ∈ xs, isNaEl c e = false → e ≠ .nan ∧ e ≠ .nat

end DI.PyEvalNa

/-
  Model/Numba.lean — the Numba kernels of dataiter/aggregate.py (C08), transcribed separately
  from the Python kernels of Model/Aggregate.lean.  Only the kernels that are *written
  differently* differ here: `nth_apply_numba` (explicit index range test instead of
  try/except), `mode_apply_numba` (quadratic equality count + first argmax instead of
  statistics.mode), `count_unique_apply_numba` (np.unique instead of a Python set).
-/
import Model.Aggregate

namespace DI.Agg

/-- `nth_apply_numba`: `if 0 <= index < len(xg) or -len(xg) <= index < 0: xg[index] else None`. -/
def nthNumba (xg : List Num) (index : Int) : Option Res :=
  let n : Int := xg.length
  if (0 ≤ index ∧ index < n) ∨ (-n ≤ index ∧ index < 0) then
    let i := if index < 0 then (index + n).toNat else index.toNat
    some (ofNum xg[i]!)
  else none

/-- `ng[i]`: how many elements of the group equal element `x` under Numba (`NaN == x` is false). -/
def numbaEqCount (xg : List Num) (x : Num) : Nat :=
  match x with
  | none => 0
  | some v => (xg.filter (fun y => y == some v)).length

/-- `mode_apply_numba`: `ng[i] = #{j | xg[j] == xg[i]}`, `xg[argmax(ng)]`. -/
def modeNumba (xg : List Num) : Option Res :=
  if xg.length > 0 then some (ofNum xg[firstArgmax (xg.map (numbaEqCount xg))]!) else none

/-- `len(np.unique(xg))` in Numba: sort, count positions that differ from their predecessor;
    NaN / NaT differ from everything. -/
def countUniqueNumba (xg : List Num) : Nat :=
  (values xg).eraseDups.length + (xg.filter (·.isNone)).length

def kernelNumba (h : Helper) (xg : List Num) : Option Res :=
  match h with
  | .countUnique _ => some (.nat (countUniqueNumba xg))
  | .nth i => (match nthNumba xg i with | some .missing => none | r => r)
  | .mode => modeNumba xg
  | _ => kernel h xg

def groupFormNumba (h : Helper) (drop : Bool) (xs : List Num) (ids : List Nat) : List Res :=
  let dn := drop && hasNa xs
  (chunks ids xs).map (fun xg =>
    match kernelNumba h (handleNa xg dn) with
    | some r => r
    | none => defaultOf h)

/-! ### JIT state: which kernels are compiled in this process / present in the on-disk cache.
    The specification the real JIT has to refine: outputs do not depend on the state. -/

structure JitState where
  compiled : List (String × String)      -- (kernel, signature)
  disk : List (String × String)
  deriving Repr, DecidableEq

structure Call where
  kernel : String
  sig : String
  helper : Helper
  drop : Bool
  xs : List Num
  ids : List Nat

def stepJ (s : JitState) (c : Call) (cacheOn : Bool) : JitState × List Res :=
  ({ compiled := (c.kernel, c.sig) :: s.compiled,
     disk := if cacheOn then (c.kernel, c.sig) :: s.disk else s.disk },
   groupFormNumba c.helper c.drop c.xs c.ids)

end DI.Agg

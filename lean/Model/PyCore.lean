/-
  Model/PyCore.lean — target language of the source translator `harness/py2lean.py`.

  `lean/Generated/Code.lean` is regenerated on every run from the *current* Python source of a
  set of small control-flow functions of dataiter (head / tail index arithmetic, the broadcast
  rule of `DataFrameColumn.__new__`, `_reconcile_column`, `_check_dimensions`, the `na_value` /
  `na_dtype` decision chains, the inner `sort_key` of `DataFrame.sort`, …).  The translation is
  a symbolic execution of the function body into a Lean term:

  * integer expressions over declared integer atoms become `Int` arithmetic (`pmin` / `pmax` for
    Python's `min` / `max`, `arange`, `sliceIdx` for `a:b` slices);
  * every other expression becomes a symbolic `Term` (`sym` = source text of a leaf, `app` = call,
    method call, subscript or operator applied to sub-terms);
  * a test that is not integer / `is None` logic becomes `truth t`, the truthiness of the symbolic
    term, where `truth : Term → Bool` is a parameter of the generated function (an arbitrary
    interpretation of the library calls the function makes);
  * control flow (`if` / `elif` / `else`, early `return`, `raise`, fall through) is translated by
    continuation duplication, assignments by `let` shadowing.

  The theorems of `Proofs/Tie.lean` relate the generated definitions to the hand-written model
  functions for *every* interpretation `truth` and every integer argument.
-/
namespace DI.Py

inductive Term where
  | int (i : Int)
  | rows (l : List Int)                       -- `np.arange(...)` evaluated
  | slice (start stop : Option Int)           -- `a:b` inside a subscript
  | sym (s : String)                          -- opaque leaf, by its source text
  | app (f : String) (args : List Term)       -- call / method / subscript / operator
  deriving Repr, Inhabited

/-- outcome of a call; `effs` are the expression statements executed before, in order (calls made
    for their effect, e.g. `self._check_dimensions()`, which may raise inside the library). -/
inductive Out where
  | ret (effs : List Term) (t : Term)
  | raise (effs : List Term) (exc : String)
  | fall (effs : List Term)                   -- end of body reached: Python returns None
  deriving Repr, Inhabited

/-- Python `min(a, b)`: `b` if `b < a` else `a`. -/
def pmin (a b : Int) : Int := if b < a then b else a

/-- Python `max(a, b)`: `b` if `b > a` else `a`. -/
def pmax (a b : Int) : Int := if a < b then b else a

/-- `np.arange(a, b)` / `range(a, b)`. -/
def arange (a b : Int) : List Int := (List.range (b - a).toNat).map (fun (k : Nat) => a + (k : Int))

/-- Python slice bound normalisation for a sequence of length `len` (step 1). -/
def normBound (len x : Int) : Int := if x < 0 then pmax (x + len) 0 else pmin x len

/-- positions selected by `seq[start:stop]` on a sequence of length `len`. -/
def sliceIdx (len : Int) (start stop : Option Int) : List Int :=
  let a := match start with | none => 0 | some s => normBound len s
  let b := match stop with | none => len | some s => normBound len s
  arange a b

end DI.Py

namespace DI.Py

/-- the effects of an outcome (expression statements, attribute / item stores, loops, yields), in order. -/
def Out.effs : Out → List Term
  | .ret e _ => e
  | .raise e _ => e
  | .fall e => e

/-- `for colname, column in self.items(): yield colname, g(column)`: every column of the receiver, in dict order, goes
    through one and the same expression `g`. -/
def perColumn (g : Term → Term) : Term :=
  Term.app "for" [Term.app "tuple" [Term.sym "colname", Term.sym "column"], Term.app ".items" [Term.sym "self"],
    Term.app "block" [Term.app "yield" [Term.app "tuple" [Term.sym "colname", g (Term.sym "column")]]]]

end DI.Py

namespace DI.Py

mutual
/-- does some node `app f args` of the term satisfy `p f args`? -/
def Term.anyApp (p : String → List Term → Bool) : Term → Bool
  | .app f args => p f args || Term.anyAppList p args
  | _ => false
def Term.anyAppList (p : String → List Term → Bool) : List Term → Bool
  | [] => false
  | t :: ts => Term.anyApp p t || Term.anyAppList p ts
end

/-- a write into the object bound to the name `v`: `v[k] = x`, `del v[k]`, or one of dict's mutating methods on it. -/
def writesInto (v : String) (f : String) (args : List Term) : Bool :=
  match f, args with
  | "store", Term.app "getitem" (Term.sym w :: _) :: _ => w == v
  | "del", Term.app "getitem" (Term.sym w :: _) :: _ => w == v
  | "setattr", Term.sym w :: _ => w == v
  | m, Term.sym w :: _ => w == v && [".update", ".pop", ".popitem", ".clear", ".setdefault", ".__setitem__", ".__delitem__"].contains m
  | _, _ => false

/-- do the effects of an outcome write into the loop variable `item` (an item of the receiver)? -/
def Out.writesItems (o : Out) : Bool := Term.anyAppList (writesInto "item") o.effs

end DI.Py

/-
  Model/Convert.lean — DataFrame <-> ListOfDicts / JSON records (C13): `to_list_of_dicts`,
  `ListOfDicts._to_columns` / `to_data_frame`, `DataFrame.from_json`.
  A column is a name with one optional value per row (`none` = the column's missing value, which
  `tolist` turns into `None`).
-/
import Model.ReadRestrict

namespace DI.Convert

open DI.Read

abbrev Col (β : Type) := String × List (Option β)

/-- `to_list_of_dicts`: `data[i][colname] = value` for every column's `tolist()`. -/
def toRecords {β : Type} (cols : List (Col β)) (n : Nat) : List (Rec (Option β)) :=
  (List.range n).map (fun i => cols.map (fun c => (c.1, (c.2[i]?).join)))

/-- `pluck(key)`: `x.get(key, None)`. -/
def pluck {β : Type} (recs : List (Rec (Option β))) (k : String) : List (Option β) :=
  recs.map (fun r => (lookup r k).join)

/-- `ListOfDicts._to_columns`: the keys of the first item, each plucked. -/
def toColumns {β : Type} (recs : List (Rec (Option β))) : List (Col β) :=
  match recs with
  | [] => []
  | r :: _ => r.map (fun p => (p.1, pluck recs p.1))

/-- `DataFrame.from_json` without restriction: first-seen union of keys, each plucked. -/
def fromJsonRecords {β : Type} (recs : List (Rec (Option β))) : List (Col β) :=
  (unionKeys recs).map (fun k => (k, pluck recs k))

end DI.Convert

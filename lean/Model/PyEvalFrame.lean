/-
  Model/PyEvalFrame.lean — a small total evaluator (denotational semantics) for the generator bodies that the source
  translator `harness/py2lean.py` emits for the row / column subsetting methods of `DataFrame`
  (`Generated/CodeC02.lean`: filter, filter_out, slice, slice_off; `Generated/CodeC09.lean`: select, unselect, rename).

  `Proofs/TieC02.lean` / `Proofs/TieC09.lean` show that every regenerated body EQUALS a normal-form loop term
  (`perColumn (fun c => np.take c rows)` …).  This file says what such a loop term MEANS:

  * a data frame is an ordered list of (name, column), a column is a `List Cell` (the cells of `Model/Basic.lean`);
  * an environment binds the Python names of the method (`self`, `rows`, `cols`, `colnames`, `to_from_pairs`,
    `colname_value_pairs`) and the loop variables to values `Val`;
  * the NumPy / dict primitives the bodies call get their standard list semantics HERE (section "primitives": this is the
    trusted part — read it);
  * the result of a body is the list of yielded (name, column) pairs, in order (what `deco.new_from_generator` hands to the
    constructor); every unsupported form, every Python exception (KeyError for a missing column, IndexError for a position
    out of range, ValueError for a Boolean mask of the wrong length) is `none`.

  `Proofs/EvalC02.lean` / `Proofs/EvalC09.lean` prove that evaluating the regenerated bodies gives exactly the model
  functions of `Model/Frame.lean` (`gather` at `filterIdx` / `filterOutIdx` / `sliceIdx` / `sliceOffIdx`) and of
  `Model/Bind.lean` (`select` / `unselect` / `rename`).
-/
import Model.Basic
import Model.Frame
import Model.PyCore

namespace DI.PyEval

open DI DI.Py

/-- a data frame: (name, column) in dict order. -/
abbrev Frame := List (String × List Cell)

/-- `DataFrame.nrow`: 0 without columns, else the length of the first column. -/
def nrow : Frame → Nat
  | [] => 0
  | p :: _ => p.2.length

/-- `DataFrame.ncol`. -/
def ncol (f : Frame) : Nat := f.length

/-- `self.colnames`. -/
def names (f : Frame) : List String := f.map (·.1)

/-- `self[name]` (`none` = KeyError). -/
def colOf? (f : Frame) (n : String) : Option (List Cell) := (f.find? (fun p => p.1 == n)).map (·.2)

/-- Python values the bodies handle. -/
inductive Val where
  | none                                   -- `None`
  | bool (b : Bool)
  | int (i : Int)
  | str (s : String)                       -- a column name
  | key (k : Key)                          -- a non-missing scalar (the `value` of `filter(colname=value)`)
  | col (c : List Cell)                    -- a column
  | ints (l : List Int)                    -- an integer vector / list of positions
  | mask (m : List Bool)                   -- a Boolean vector
  | strs (l : List String)                 -- a tuple / list of names
  | frame (f : Frame)                      -- a data frame
  | sdict (d : List (String × String))     -- a `dict` name → name, in insertion order
  | kdict (d : List (String × Key))        -- a `dict` name → scalar (`**colname_value_pairs`)
  | fn (f : Frame → List Bool)             -- a callable condition
  | items (v : Val)                        -- the `.items()` view of a dict-like value
  | pair (a b : Val)                       -- a 2-tuple
  deriving Inhabited

abbrev Env := List (String × Val)

def Env.get? (env : Env) (x : String) : Option Val := (env.find? (fun p => p.1 == x)).map (·.2)

/-! ### primitives (trusted part): standard list semantics of the NumPy / dict operations -/

/-- a position `i` valid for a sequence of length `n`, negative positions counting from the end; `none` = IndexError. -/
def normIdx (n : Nat) (i : Int) : Option Nat :=
  if -(n : Int) ≤ i ∧ i < (n : Int) then some (wrapIdx n i) else none

/-- all results, or `none` if one failed. -/
def allSome {α : Type} : List (Option α) → Option (List α)
  | [] => some []
  | none :: _ => none
  | some a :: t => match allSome t with
    | none => none
    | some l => some (a :: l)

/-- `np.take(c, idx)` / `c[idx]` for an integer vector `idx`: the elements at the listed positions, in the listed order. -/
def npTake {α : Type} (c : List α) (idx : List Int) : Option (List α) :=
  allSome (idx.map (fun i => match normIdx c.length i with
    | none => none
    | some k => c[k]?))

/-- `np.delete(c, idx)`: the elements whose position is NOT listed, in their own order. -/
def npDelete {α : Type} (c : List α) (idx : List Int) : Option (List α) :=
  match allSome (idx.map (normIdx c.length)) with
  | none => none
  | some drop => some ((c.zipIdx.filter (fun p => !drop.contains p.2)).map (·.1))

/-- `d[k] = v` on an insertion-ordered dict: an existing key keeps its position and takes the new value. -/
def dictInsert (d : List (String × String)) (k v : String) : List (String × String) :=
  if d.any (fun q => q.1 == k) then d.map (fun q => if q.1 == k then (k, v) else q) else d ++ [(k, v)]

/-- `d.get(k, default)`. -/
def dictGet (d : List (String × String)) (k : String) (dflt : Val) : Val :=
  match d.find? (fun q => q.1 == k) with
  | some q => .str q.2
  | none => dflt

/-- what iterating over a value yields. -/
def itemsOf : Val → Option (List Val)
  | .strs l => some (l.map Val.str)
  | .ints l => some (l.map Val.int)
  | .frame f => some (f.map (fun p => Val.str p.1))                       -- iterating a dict: its keys
  | .items (.frame f) => some (f.map (fun p => Val.pair (.str p.1) (.col p.2)))
  | .items (.sdict d) => some (d.map (fun p => Val.pair (.str p.1) (.str p.2)))
  | .items (.kdict d) => some (d.map (fun p => Val.pair (.str p.1) (.key p.2)))
  | _ => none

/-- `enumerate(xs)`. -/
def enumerate (xs : List Val) : List Val := xs.zipIdx.map (fun p => Val.pair (.int (p.2 : Nat)) p.1)

/-- calls with evaluated arguments. -/
def prim : String → List Val → Option Val
  | "np.take", [.col c, .ints r] => (npTake c r).map Val.col
  | "np.delete", [.col c, .ints r] => (npDelete c r).map Val.col
  | ".copy", [.col c] => some (.col c)
  | "getitem", [.frame f, .str n] => (colOf? f n).map Val.col
  | "getitem", [.col c, .ints r] => (npTake c r).map Val.col
  | "getitem", [.strs l, .int i] => (npTake l [i]).bind (fun r => r.head?.map Val.str)
  | ".items", [.frame f] => some (.items (.frame f))
  | ".items", [.sdict d] => some (.items (.sdict d))
  | ".items", [.kdict d] => some (.items (.kdict d))
  | ".colnames", [.frame f] => some (.strs (names f))
  | ".nrow", [.frame f] => some (.int (nrow f : Nat))
  | ".ncol", [.frame f] => some (.int (ncol f : Nat))
  | "np.arange", [.int n] => some (.ints (arange 0 n))
  | "list", [] => some (.ints [])
  | "list", [.bool b] => some (.mask [b])
  -- `Vector.fast(x, int)` of an integer vector is that vector
  | "._parse_rows_from_integer", [.frame _, .ints r] => some (.ints r)
  | "._parse_cols_from_integer", [.frame _, .ints r] => some (.ints r)
  -- ValueError unless the mask has one entry per row (`Tie.C02.boolean_rows_guard`); then `np.nonzero(mask)[0]`
  | "._parse_rows_from_boolean", [.frame f, .mask m] =>
      if m.length = nrow f then some (.ints ((nonzero m).map (fun (k : Nat) => (k : Int)))) else none
  | "In", [.int i, .ints l] => some (.bool (l.contains i))
  | "In", [.str s, .strs l] => some (.bool (l.contains s))
  | "NotIn", [.int i, .ints l] => some (.bool (!l.contains i))
  | "NotIn", [.str s, .strs l] => some (.bool (!l.contains s))
  | ".get", [.sdict d, .str k, dflt] => some (dictGet d k dflt)
  | "BitAnd", [.mask a, .mask b] => if a.length = b.length then some (.mask (List.zipWith (· && ·) a b)) else none
  -- `column == value` for a non-missing scalar (then the dtype's missing-value convention does not matter)
  | "Eq", [.col c, .key v] => some (.mask (eqMask false c (some v)))
  | ".repeat", [.mask m, .int n] => if 0 ≤ n then some (.mask (m.flatMap (fun b => List.replicate n.toNat b))) else none
  | "Vector.fast([True], bool).repeat", [.int n] => if 0 ≤ n then some (.mask (List.replicate n.toNat true)) else none
  | _, _ => none

/-- the names `prim` interprets; a call of any other name is a call of the callable bound to that variable. -/
def primNames : List String :=
  ["np.take", "np.delete", ".copy", "getitem", ".items", ".colnames", ".nrow", ".ncol", "np.arange", "list",
   "._parse_rows_from_integer", "._parse_cols_from_integer", "._parse_rows_from_boolean", "In", "NotIn", ".get",
   "BitAnd", "Eq", ".repeat", "Vector.fast([True], bool).repeat"]

/-- `x(args)` for a variable `x` bound to a callable condition (`rows(self)`): it receives a data frame and returns a
    Boolean vector. -/
def callVar (env : Env) (x : String) (vs : List Val) : Option Val :=
  match env.get? x, vs with
  | some (.fn g), [.frame a] => some (.mask (g a))
  | _, _ => none

/-- a name: the constants, else the binding of the environment. -/
def lookupSym (env : Env) : String → Option Val
  | "True" => some (.bool true)
  | "False" => some (.bool false)
  | "None" => some .none
  | x => env.get? x

/-- bind a loop target (`x` or `(a, b)`) to an item. -/
def bindPat (env : Env) : Term → Val → Option Env
  | .sym x, v => some ((x, v) :: env)
  | .app "tuple" [.sym a, .sym b], .pair x y => some ((b, y) :: (a, x) :: env)
  | _, _ => none

/-- run `step` over the items, threading the state; `none` as soon as a step fails. -/
def loop {σ : Type} (step : σ → Val → Option σ) : σ → List Val → Option σ
  | s, [] => some s
  | s, v :: vs => match step s v with
    | none => none
    | some s' => loop step s' vs

inductive Flow where
  | next | cont
  deriving DecidableEq, Repr

/-! ### the evaluator -/

mutual

/-- expressions. -/
def evalExpr (env : Env) : Term → Option Val
  | .int i => some (.int i)
  | .rows l => some (.ints l)
  | .slice _ _ => none
  | .sym s => lookupSym env s
  | .app f args =>
    let vs := evalArgs env args
    match f, args with
    -- `Vector.fast(x, dtype)`: the identity on a vector that already has that dtype
    | "Vector.fast", [x, .sym _] => evalExpr env x
    -- `{ke: ve for pat in src}` for a name → name dict
    | "DictComp", [.app "pair" [ke, ve], .app "in" [pat, src, .app "if" []]] =>
      match evalExpr env src with
      | none => none
      | some s => match itemsOf s with
        | none => none
        | some its =>
          (loop (fun d it => match bindPat env pat it with
            | none => none
            | some env' => match evalExpr env' ke, evalExpr env' ve with
              | some (.str k), some (.str v) => some (dictInsert d k v)
              | _, _ => none) [] its).map Val.sdict
    -- the value the variable `v` has after the loop statement `lp` has run
    | "value-after-loop", [.sym v, lp] =>
      match execStmt env [] lp with
      | none => none
      | some r => r.2.1.get? v
    | _, _ =>
      match vs with
      | none => none
      | some vs => if primNames.contains f then prim f vs else callVar env f vs

def evalArgs (env : Env) : List Term → Option (List Val)
  | [] => some []
  | t :: ts => match evalExpr env t, evalArgs env ts with
    | some v, some vs => some (v :: vs)
    | _, _ => none

/-- statements of a generator body: the environment and the pairs yielded so far are threaded through. -/
def execStmt (env : Env) (out : Frame) : Term → Option (Flow × Env × Frame)
  | .sym "continue" => some (.cont, env, out)
  | .app "yield" [.app "tuple" [n, c]] =>
    match evalExpr env n, evalExpr env c with
    | some (.str n), some (.col c) => some (.next, env, out ++ [(n, c)])
    | _, _ => none
  | .app "assign" [.sym x, e] =>
    match evalExpr env e with
    | some v => some (.next, (x, v) :: env, out)
    | none => none
  | .app "if" [c, .app "block" a, .app "block" b] =>
    match evalExpr env c with
    | some (.bool true) => execBlock env out a
    | some (.bool false) => execBlock env out b
    | _ => none
  | .app "for" (pat :: iter :: .app "block" body :: rest) =>
    let iterVal := fun (e0 : Env) => evalExpr e0 iter
    -- an `init [x, e]` argument records the assignment `x = e` that precedes the loop
    let env0 : Option Env := match rest with
      | [] => some env
      | [.app "init" [.sym x, e]] => (match evalExpr env e with | some v => some ((x, v) :: env) | none => none)
      | _ => none
    match env0 with
    | none => none
    | some env0 =>
      let its : Option (List Val) := match iter with
        | .app "enumerate" [e] => (match evalExpr env0 e with | some v => (itemsOf v).map enumerate | none => none)
        | .app "GeneratorExp" [elem, .app "in" [p, src, .app "if" []]] =>
          (match evalExpr env0 src with
           | none => none
           | some s => match itemsOf s with
             | none => none
             | some xs => allSome (xs.map (fun x => match bindPat env0 p x with
                 | none => none
                 | some env' => evalExpr env' elem)))
        | _ => (match iterVal env0 with | some v => itemsOf v | none => none)
      match its with
      | none => none
      | some its =>
        match loop (fun (st : Env × Frame) it => match bindPat st.1 pat it with
            | none => none
            | some env' => match execBlock env' st.2 body with
              | none => none
              | some r => some (r.2.1, r.2.2)) (env0, out) its with
        | none => none
        | some st => some (.next, st.1, st.2)
  | _ => none

def execBlock (env : Env) (out : Frame) : List Term → Option (Flow × Env × Frame)
  | [] => some (.next, env, out)
  | s :: ss => match execStmt env out s with
    | none => none
    | some (.cont, env', out') => some (.cont, env', out')
    | some (.next, env', out') => execBlock env' out' ss

end

/-- the pairs a generator body yields, in order: its statements (`Out.effs`) run in sequence.  A body that returns a value
    or raises is not a generator body of the supported kind. -/
def runBody (env : Env) : Out → Option Frame
  | .fall effs => match execBlock env [] effs with
    | some (.next, _, out) => some out
    | _ => none
  | _ => none

/-- the environment of a method call: the receiver and the named arguments. -/
def callEnv (self : Frame) (args : List (String × Val)) : Env := ("self", .frame self) :: args

end DI.PyEval

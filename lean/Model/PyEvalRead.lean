/-
  Model/PyEvalRead.lean — a meaning for the readers that take a column / key restriction and a type mapping (C14), as the
  source translator `harness/py2lean.py` emits them (`Generated/CodeC14.lean`; normal forms in `Proofs/TieC14.lean`):
  `DataFrame.from_json`, `DataFrame.read_json`, `ListOfDicts.from_json`, `ListOfDicts.read_json`, `ListOfDicts.read_csv`.

  A small, total, computable big-step evaluator of exactly the expression / statement forms of these terms, over PARSED
  input:

  * TRUSTED LINK (parameters of the evaluation, `Ctx`): `loads` = `json.loads(string, **kwargs)`, returning a list of records
    (`Model/ReadRestrict.lean`, `Rec β`: key ↦ JSON value in the order of the text; `β` is any type of JSON values, Python's
    `None` = JSON `null` being ONE OF THEM), something that is not a list (`Parsed.other`: TypeError), or failing (`none`);
    `fileText` = `f.read()` of `util.xopen(path, "rt", encoding=…)`; `csvLines` = `list(csv.reader(f, dialect="unix",
    delimiter=sep))`, every line a list of str, `ofStr` embedding a CSV cell into the values; `genNames` =
    `util.generate_colnames`; `casts` = the argument `dtypes`: column name ↦ what `DataFrameColumn(values, dtype)` does to the
    plucked list (may fail); `convs` = the argument `types`: key ↦ what `type(value)` does (may fail).
  * `util.unique_keys(itertools.chain(*data))` = `dict.fromkeys` over the keys of all records in order: the model's
    `unionKeys` (a primitive); `x.get(k, None)` on a record = the model's `lookup` (`none` = the fallback `None`).
  * objects are named by their defining TERM, because the translator inlines every assigned local into its uses: the
    `DictComp` term is the local dict `data` of `DataFrame.from_json` (`Mem.frame`), `json.loads(…)` / `cls(<generator>)` is
    the list of dicts (`Mem.items`), `list(csv.reader(…))` is the list of lines (`Mem.rows`).  A slot that is still empty
    means "not written yet": the term then denotes the value of its defining expression (evaluating it is pure).  A `for`
    statement over the list of dicts / the rows binds its variable to a REFERENCE (`itemRef i`, `rowRef i`), so that
    `del item[key]`, `item[key] = …`, `del row[i]` change the element inside the list.
  * the statement `colnames = rows.pop(0)` of `read_csv` is inlined too (the term `rows.pop(0)` occurs at every use of
    `colnames`): it is EXECUTED ONCE, where the assignment stands — after the test `if not rows`, before everything else
    (`evalLodReadCsv`) — and every occurrence of the term denotes the popped line.
  * a dict value of the frame under construction is a plain list (`ColV.list`, as plucked — the constructor `cls(**data)`
    will infer its type) or a `DataFrameColumn` made by a cast (`ColV.column`).
  * the tests of the translated functions are answered by the evaluator itself on the entry state (`truthOf`).
  * `none` = a Python exception (TypeError / KeyError / IndexError / a failing conversion) or an unsupported form.

  `Lemmas/PyEvalRead.lean` proves what these evaluations compute; `Proofs/EvalC14.lean` states it against
  `Model/ReadRestrict.lean` and `Proofs/C14.lean`.
-/
import Model.PyCore
import Model.ReadRestrict
import Generated.CodeC14

namespace DI.PyEvalRead

open DI DI.Py DI.Read

/-! ### dicts (insertion ordered) -/

abbrev Dict (α : Type) := List (String × α)

def Dict.has {α : Type} (d : Dict α) (k : String) : Bool := d.any (fun p => p.1 == k)

/-- `d[k] = v`: an existing key keeps its position, a new key goes last. -/
def Dict.set {α : Type} (d : Dict α) (k : String) (v : α) : Dict α :=
  if d.has k then d.map (fun p => if p.1 == k then (k, v) else p) else d ++ [(k, v)]

/-- `del d[k]` (of a present key). -/
def Dict.del {α : Type} (d : Dict α) (k : String) : Dict α := d.filter (fun p => p.1 != k)

/-! ### values -/

/-- a value of the dict `data` of `DataFrame.from_json`. -/
inductive ColV (β : Type) where
  | list (xs : List (Option β))       -- a plain list, as plucked (`none` = the `None` of `.get(k, None)`)
  | column (xs : List (Option β))     -- a `DataFrameColumn` made by a cast
  deriving DecidableEq, Repr

def ColV.cells {β : Type} : ColV β → List (Option β)
  | .list xs => xs
  | .column xs => xs

abbrev CastFn (β : Type) := List (Option β) → Option (List (Option β))
abbrev ConvFn (β : Type) := β → Option β

/-- what `json.loads` returned. -/
inductive Parsed (β : Type) where
  | records (l : List (Rec β))
  | other                              -- a dict, a scalar: not a list

inductive Val (β : Type) where
  | none
  | bool (b : Bool)
  | int (i : Int)
  | key (s : String)                   -- a str that is a name / key
  | cell (v : β)                       -- a JSON value, a CSV cell, a converted value
  | text (s : String)                  -- a JSON text
  | keys (ks : List String)            -- a list / set of names
  | cells (xs : List (Option β))       -- a list of cells
  | column (xs : List (Option β))      -- a DataFrameColumn
  | row (cs : List String)             -- one CSV line
  | rows (rs : List (List String))
  | dict (r : Rec β)                   -- a dict
  | recs (l : List (Rec β))            -- a list of dicts / a ListOfDicts
  | frame (d : Dict (ColV β))          -- the dict name ↦ values; `cls(**data)`
  | list (l : List (Val β))            -- what a comprehension gives
  | pair (a b : Val β)
  | castFn (f : CastFn β)
  | convFn (f : ConvFn β)
  | casts (ps : List (String × CastFn β))
  | convs (ps : List (String × ConvFn β))
  | itemRef (i : Nat)                  -- the i-th dict of the list of dicts
  | rowRef (i : Nat)                   -- the i-th line
  | kwarg (name : String) (v : Val β)
  | other | file | cls | kwargs

structure Ctx (β : Type) where
  input : Val β                          -- the argument `string` of `DataFrame.from_json`: a `text`, `recs`, or `other`
  loads : String → Option (Parsed β)     -- `json.loads(string, **kwargs)`
  fileText : String                      -- `f.read()`
  csvLines : List (List String)          -- `list(csv.reader(f, dialect="unix", delimiter=sep))`
  ofStr : String → β                     -- a CSV cell as a value
  genNames : Nat → List String           -- `util.generate_colnames`
  header : Bool                          -- `header=`
  columns : List String                  -- `columns=` / `keys=`
  casts : List (String × CastFn β)       -- `dtypes=`
  convs : List (String × ConvFn β)       -- `types=`

abbrev Env (β : Type) := List (String × Val β)

/-- the objects written so far (`none` = not written: the defining expression still says what they are). -/
structure Mem (β : Type) where
  frame : Option (Dict (ColV β))
  items : Option (List (Rec β))
  rows : Option (List (List String))
  names : Option (List String)          -- the assigned local `colnames` of `read_csv`, once evaluated

def Mem.init {β : Type} : Mem β := ⟨none, none, none, none⟩

def lookupEnv {β : Type} : Env β → String → Option (Val β)
  | [], _ => none
  | (k, v) :: r, x => if k == x then some v else lookupEnv r x

/-! ### helpers on values -/

def Val.asKey {β : Type} : Val β → Option String
  | .key s => some s
  | _ => Option.none

/-- a cell of a plucked list: `None` (the fallback of `.get`) or a value. -/
def Val.asCell {β : Type} : Val β → Option (Option β)
  | .none => some Option.none
  | .cell v => some (some v)
  | _ => Option.none

/-- `f` on every element, all must succeed. -/
def allM {α γ : Type} (f : α → Option γ) : List α → Option (List γ)
  | [] => some []
  | a :: as => (f a).bind (fun b => (allM f as).map (fun bs => b :: bs))

/-- `f` on every element; `some none` = filtered out. -/
def filterMapM {α γ : Type} (f : α → Option (Option γ)) : List α → Option (List γ)
  | [] => some []
  | a :: as => (f a).bind fun b => (filterMapM f as).map fun bs => match b with | some c => c :: bs | Option.none => bs

def Val.asKeys {β : Type} : Val β → Option (List String)
  | .keys ks => some ks
  | .list l => allM Val.asKey l
  | _ => Option.none

def Val.asCells {β : Type} : Val β → Option (List (Option β))
  | .cells xs => some xs
  | .list l => allM Val.asCell l
  | _ => Option.none

def Val.asRec {β : Type} : Val β → Option (Rec β)
  | .dict r => some r
  | _ => Option.none

def Val.asRecs {β : Type} : Val β → Option (List (Rec β))
  | .recs l => some l
  | .list l => allM Val.asRec l
  | _ => Option.none

def Val.asNat {β : Type} : Val β → Option Nat
  | .int i => if 0 ≤ i then some i.toNat else Option.none
  | _ => Option.none

def Val.asColV {β : Type} : Val β → Option (ColV β)
  | .cells xs => some (.list xs)
  | .column xs => some (.column xs)
  | _ => Option.none

def truthy {β : Type} : Val β → Bool
  | .none => false
  | .bool b => b
  | .int i => i != 0
  | .keys ks => !ks.isEmpty
  | .rows rs => !rs.isEmpty
  | .recs l => !l.isEmpty
  | .list l => !l.isEmpty
  | .casts ps => !ps.isEmpty
  | .convs ps => !ps.isEmpty
  | _ => true

def Parsed.toVal {β : Type} : Parsed β → Val β
  | .records l => .recs l
  | .other => .other

/-- the element a reference points at. -/
def derefItem {β : Type} (m : Mem β) (i : Nat) : Option (Rec β) := m.items.bind fun l => l[i]?
def derefRow {β : Type} (m : Mem β) (i : Nat) : Option (List String) := m.rows.bind fun rs => rs[i]?

/-- `a in b`. -/
def pyIn {β : Type} (m : Mem β) : Val β → Val β → Option Bool
  | a, .keys ks => a.asKey.map fun k => ks.contains k
  | a, .dict r => a.asKey.map fun k => Dict.has r k
  | a, .itemRef i => a.asKey.bind fun k => (derefItem m i).map fun r => Dict.has r k
  | _, _ => Option.none

/-- what a comprehension iterates over (by value). -/
def iterVals {β : Type} : Val β → Option (List (Val β))
  | .keys ks => some (ks.map Val.key)
  | .recs l => some (l.map Val.dict)
  | .rows rs => some (rs.map Val.row)
  | .list l => some l
  | _ => Option.none

def isList {β : Type} : Val β → Bool
  | .keys _ => true
  | .recs _ => true
  | .rows _ => true
  | .list _ => true
  | .cells _ => true
  | _ => false

/-! ### expressions (no effect on the memory) -/

mutual
def evalE {β : Type} (ctx : Ctx β) (call : List (Val β) → Option (Val β)) (m : Mem β) : Term → Env β → Option (Val β)
  | .int i, _ => some (.int i)
  | .sym "None", _ => some .none
  | .sym "string", _ => some ctx.input
  | .sym "columns", _ => some (.keys ctx.columns)
  | .sym "keys", _ => some (.keys ctx.columns)
  | .sym "dtypes", _ => some (.casts ctx.casts)
  | .sym "types", _ => some (.convs ctx.convs)
  | .sym "header", _ => some (.bool ctx.header)
  | .sym "kwargs", _ => some .kwargs
  | .sym "cls", _ => some .cls
  | .sym x, ρ => lookupEnv ρ x
  | .app "isinstance" [e, .sym "str"], ρ =>
    (evalE ctx call m e ρ).map fun v => .bool (match v with | .text _ => true | _ => false)
  | .app "isinstance" [e, .sym "list"], ρ => (evalE ctx call m e ρ).map fun v => .bool (isList v)
  -- the list of dicts: its current contents once written, else what `json.loads` returns
  | .app "json.loads" [e, .app "=**" [.sym "kwargs"]], ρ =>
    match m.items with
    | some l => some (.recs l)
    | Option.none => (evalE ctx call m e ρ).bind fun v => match v with
      | .text s => (ctx.loads s).map Parsed.toVal
      | _ => Option.none
  | .app "util.unique_keys" [.app "itertools.chain" [.app "*" [e]]], ρ =>
    (evalE ctx call m e ρ).bind fun v => match v with
      | .recs l => some (.keys (unionKeys l))
      | _ => Option.none
  | .app "In" [a, b], ρ =>
    (evalE ctx call m a ρ).bind fun va => (evalE ctx call m b ρ).bind fun vb => (pyIn m va vb).map Val.bool
  | .app "NotIn" [a, b], ρ =>
    (evalE ctx call m a ρ).bind fun va => (evalE ctx call m b ρ).bind fun vb => (pyIn m va vb).map fun r => Val.bool !r
  | .app "ListComp" [elem, .app "in" [.sym x, src, .app "if" conds]], ρ =>
    (evalE ctx call m src ρ).bind fun vs => (iterVals vs).bind fun its =>
      (filterMapM (fun v => (evalConds ctx call m conds ((x, v) :: ρ)).bind fun b =>
        if b then (evalE ctx call m elem ((x, v) :: ρ)).map some else some Option.none) its).map Val.list
  -- the local dict `data`: its current contents once written, else the comprehension
  | .app "DictComp" [.app "pair" [ke, ve], .app "in" [.sym k, src, .app "if" []]], ρ =>
    match m.frame with
    | some d => some (.frame d)
    | Option.none =>
      (evalE ctx call m src ρ).bind fun vs => vs.asKeys.bind fun ks =>
        (allM (fun key => (evalE ctx call m ke ((k, .key key) :: ρ)).bind fun vk => vk.asKey.bind fun kk =>
          (evalE ctx call m ve ((k, .key key) :: ρ)).bind fun vv => vv.asCells.map fun xs => (kk, ColV.list xs)) ks).map fun ps =>
            .frame (ps.foldl (fun d p => Dict.set d p.1 p.2) [])
  | .app ".get" [d, k, dflt], ρ =>
    (evalE ctx call m d ρ).bind fun vd => (evalE ctx call m k ρ).bind fun vk => (evalE ctx call m dflt ρ).bind fun vdf =>
      match vd, vk.asKey with
      | .dict r, some key => some (match lookup r key with | some v => .cell v | Option.none => vdf)
      | _, _ => Option.none
  | .app "getitem" [d, k], ρ =>
    (evalE ctx call m d ρ).bind fun vd => (evalE ctx call m k ρ).bind fun vk => match vd, vk with
      | .frame f, .key key => (lookup f key).map fun c => match c with | .list xs => .cells xs | .column xs => .column xs
      | .itemRef i, .key key => (derefItem m i).bind fun r => (lookup r key).map Val.cell
      | .rows rs, .int 0 => (rs[0]?).map Val.row
      | .keys ks, .int i => if 0 ≤ i then (ks[i.toNat]?).map Val.key else Option.none
      | _, _ => Option.none
  | .app "DataFrameColumn" [c, f], ρ =>
    (evalE ctx call m c ρ).bind fun vc => (evalE ctx call m f ρ).bind fun vf => match vc, vf with
      | .cells xs, .castFn g => (g xs).map Val.column
      | .column xs, .castFn g => (g xs).map Val.column
      | _, _ => Option.none
  | .app "call" [f, a], ρ =>
    (evalE ctx call m f ρ).bind fun vf => (evalE ctx call m a ρ).bind fun va => match vf, va with
      | .convFn g, .cell v => (g v).map Val.cell
      | _, _ => Option.none
  | .app "cls" [.app "=**" [d]], ρ =>
    (evalE ctx call m d ρ).bind fun vd => match vd with | .frame f => some (.frame f) | _ => Option.none
  | .app "cls" [.app "list" []], _ => some (.recs [])
  -- the list of dicts of `read_csv`: its current contents once written, else the generator
  | .app "cls" [.app "GeneratorExp" [elem, .app "in" [.sym x, src, .app "if" []]]], ρ =>
    match m.items with
    | some l => some (.recs l)
    | Option.none =>
      (evalE ctx call m src ρ).bind fun vs => (iterVals vs).bind fun its =>
        (allM (fun v => (evalE ctx call m elem ((x, v) :: ρ)).bind Val.asRec) its).map Val.recs
  | .app "cls" [e], ρ => (evalE ctx call m e ρ).bind fun v => v.asRecs.map Val.recs
  | .app "set()" [e], ρ =>
    (evalE ctx call m e ρ).bind fun v => match v with
      | .keys ks => some (.keys ks)
      | .dict r => some (.keys (r.map (·.1)))
      | .itemRef i => (derefItem m i).map fun r => .keys (r.map (·.1))
      | _ => Option.none
  | .app "Sub" [a, b], ρ =>
    (evalE ctx call m a ρ).bind fun va => (evalE ctx call m b ρ).bind fun vb => match va, vb with
      | .keys p, .keys q => some (.keys (p.filter fun k => !q.contains k))
      | _, _ => Option.none
  -- the lines: the current contents once written, else what `csv.reader` gives
  | .app "list()" [.app "csv.reader" _], _ =>
    match m.rows with
    | some rs => some (.rows rs)
    | Option.none => some (.rows ctx.csvLines)
  -- the assigned local `colnames`: its value once evaluated, else its defining expression
  | .app ".pop" [e, .int 0], ρ =>
    match m.names with
    | some ns => some (.keys ns)
    | Option.none => (evalE ctx call m e ρ).bind fun v => match v with | .rows rs => rs.head?.map Val.keys | _ => Option.none
  | .app "len" [e], ρ =>
    (evalE ctx call m e ρ).bind fun v => match v with
      | .row cs => some (.int cs.length)
      | .keys ks => some (.int ks.length)
      | _ => Option.none
  | .app "util.generate_colnames" [e], ρ =>
    match m.names with
    | some ns => some (.keys ns)
    | Option.none => (evalE ctx call m e ρ).bind fun v => v.asNat.map fun n => .keys (ctx.genNames n)
  | .app "range" [e], ρ =>
    (evalE ctx call m e ρ).bind fun v => v.asNat.map fun n => .list ((List.range n).map fun (i : Nat) => Val.int i)
  | .app "reversed" [e], ρ =>
    (evalE ctx call m e ρ).bind fun v => match v with | .list l => some (.list l.reverse) | _ => Option.none
  | .app "dict()" [.app "zip" [a, b]], ρ =>
    (evalE ctx call m a ρ).bind fun va => (evalE ctx call m b ρ).bind fun vb => va.asKeys.bind fun ks => match vb with
      | .row cs => some (.dict (ks.zip (cs.map ctx.ofStr)))
      | _ => Option.none
  | .app "with" _, _ => some .file
  | .app ".read" [e], ρ =>
    (evalE ctx call m e ρ).bind fun v => match v with | .file => some (.text ctx.fileText) | _ => Option.none
  | .app ".items" [e], ρ =>
    (evalE ctx call m e ρ).bind fun v => match v with
      | .casts ps => some (.list (ps.map fun p => .pair (.key p.1) (.castFn p.2)))
      | .convs ps => some (.list (ps.map fun p => .pair (.key p.1) (.convFn p.2)))
      | _ => Option.none
  | .app "=columns" [e], ρ => (evalE ctx call m e ρ).map (Val.kwarg "columns")
  | .app "=dtypes" [e], ρ => (evalE ctx call m e ρ).map (Val.kwarg "dtypes")
  | .app "=keys" [e], ρ => (evalE ctx call m e ρ).map (Val.kwarg "keys")
  | .app "=types" [e], ρ => (evalE ctx call m e ρ).map (Val.kwarg "types")
  | .app "=**" [e], ρ => (evalE ctx call m e ρ).map (Val.kwarg "**")
  -- a method of the package
  | .app ".from_json" args, ρ => (evalArgs ctx call m args ρ).bind call
  | _, _ => Option.none
/-- the conditions of a comprehension: all must hold. -/
def evalConds {β : Type} (ctx : Ctx β) (call : List (Val β) → Option (Val β)) (m : Mem β) : List Term → Env β → Option Bool
  | [], _ => some true
  | c :: cs, ρ => (evalE ctx call m c ρ).bind fun v => (evalConds ctx call m cs ρ).map fun b => truthy v && b
def evalArgs {β : Type} (ctx : Ctx β) (call : List (Val β) → Option (Val β)) (m : Mem β) : List Term → Env β → Option (List (Val β))
  | [], _ => some []
  | t :: ts, ρ => (evalE ctx call m t ρ).bind fun v => (evalArgs ctx call m ts ρ).map fun vs => v :: vs
end

/-! ### statements -/

/-- the loop over already evaluated values: bind the target, run the body, next value. -/
def loopOver {β σ : Type} (body : Env β → σ → Option σ) (bind : Val β → Option (Env β)) : List (Val β) → σ → Option σ
  | [], s => some s
  | v :: vs, s => (bind v).bind fun ρ => (body ρ s).bind fun s' => loopOver body bind vs s'

/-- bind a loop target (`x` or `(a, b)`). -/
def bindPat {β : Type} (ρ : Env β) : Term → Val β → Option (Env β)
  | .sym x, v => some ((x, v) :: ρ)
  | .app "tuple" [.sym a, .sym b], .pair x y => some ((b, y) :: (a, x) :: ρ)
  | _, _ => Option.none

/-- what a `for` statement iterates over: the dicts of the list of dicts and the lines BY REFERENCE (the object is then
    in the memory), anything else by value. -/
def iterRefs {β : Type} (m : Mem β) : Val β → Option (List (Val β) × Mem β)
  | .recs l => some ((List.range l.length).map Val.itemRef, { m with items := some l })
  | .rows rs => some ((List.range rs.length).map Val.rowRef, { m with rows := some rs })
  | v => (iterVals v).map fun its => (its, m)

mutual
def execS {β : Type} (ctx : Ctx β) (call : List (Val β) → Option (Val β)) : Term → Env β → Mem β → Option (Mem β)
  | .app "for" [pat, it, .app "block" body], ρ, m =>
    (evalE ctx call m it ρ).bind fun vi => (iterRefs m vi).bind fun r =>
      loopOver (fun ρ' m' => execB ctx call body ρ' m') (bindPat ρ pat) r.1 r.2
  | .app "if" [c, .app "block" a, .app "block" b], ρ, m =>
    (evalE ctx call m c ρ).bind fun vc => if truthy vc then execB ctx call a ρ m else execB ctx call b ρ m
  -- `d[k] = e`: the value first, then the target
  | .app "store" [.app "getitem" [tgt, k], e], ρ, m =>
    (evalE ctx call m e ρ).bind fun ve => (evalE ctx call m tgt ρ).bind fun vt => (evalE ctx call m k ρ).bind fun vk =>
      match vt, vk.asKey with
      | .frame d, some key => ve.asColV.map fun c => { m with frame := some (Dict.set d key c) }
      | .itemRef i, some key => (match ve, m.items with
          | .cell v, some l => if i < l.length then some { m with items := some (l.modify i fun r => Dict.set r key v) } else Option.none
          | _, _ => Option.none)
      | _, _ => Option.none
  -- `del d[k]`: KeyError / IndexError when there is no such key / position
  | .app "del" [.app "getitem" [tgt, k]], ρ, m =>
    (evalE ctx call m tgt ρ).bind fun vt => (evalE ctx call m k ρ).bind fun vk =>
      match vt, vk with
      | .itemRef i, .key key => (derefItem m i).bind fun r =>
          if Dict.has r key then m.items.map fun l => { m with items := some (l.modify i fun r => Dict.del r key) } else Option.none
      | .rowRef i, .int j => (derefRow m i).bind fun cs =>
          if 0 ≤ j ∧ j.toNat < cs.length then m.rows.map fun rs => { m with rows := some (rs.modify i fun cs => cs.eraseIdx j.toNat) }
          else Option.none
      | _, _ => Option.none
  | .app "with" _, _, m => some m
  | _, _, _ => Option.none
def execB {β : Type} (ctx : Ctx β) (call : List (Val β) → Option (Val β)) : List Term → Env β → Mem β → Option (Mem β)
  | [], _, m => some m
  | t :: ts, ρ, m => (execS ctx call t ρ m).bind fun m' => execB ctx call ts ρ m'
end

/-! ### the functions -/

/-- the value a translated body returns: its statements run in order, then the returned expression is evaluated
    (`none`: it raises or falls through). -/
def runOut {β : Type} (ctx : Ctx β) (call : List (Val β) → Option (Val β)) (m : Mem β) : Out → Option (Val β)
  | .ret effs t => (execB ctx call effs [] m).bind fun m' => evalE ctx call m' t []
  | _ => Option.none

/-- the answer to a test of a translated function on the entry state (a test that raises: `false`; every such test
    is followed by a `raise` or an evaluation that raises again). -/
def truthOf {β : Type} (ctx : Ctx β) (call : List (Val β) → Option (Val β)) (t : Term) : Bool :=
  match evalE ctx call Mem.init t [] with
  | some v => truthy v
  | Option.none => false

def noCall {β : Type} : List (Val β) → Option (Val β) := fun _ => Option.none

/-- `DataFrame.from_json(string, columns=…, dtypes=…, **kwargs)`: the dict handed to `cls(**data)`. -/
def evalDfFromJson {β : Type} (ctx : Ctx β) : Option (Dict (ColV β)) :=
  match runOut ctx noCall Mem.init (DI.Gen.DataFrame_from_json (truthOf ctx noCall)) with
  | some (.frame d) => some d
  | _ => Option.none

/-- `ListOfDicts.from_json(string, keys=…, types=…, **kwargs)`, `string` being a str (`ctx.input = text s`). -/
def evalLodFromJson {β : Type} (ctx : Ctx β) : Option (List (Rec β)) :=
  match runOut ctx noCall Mem.init (DI.Gen.ListOfDicts_from_json (truthOf ctx noCall)) with
  | some (.recs l) => some l
  | _ => Option.none

/-- `cls.from_json(f.read(), columns=columns, dtypes=dtypes, **kwargs)` as `DataFrame.read_json` calls it: the regenerated
    body of `from_json`, run on the arguments handed over. -/
def callDfFromJson {β : Type} (ctx : Ctx β) : List (Val β) → Option (Val β)
  | [.cls, .text s, .kwarg "columns" (.keys c), .kwarg "dtypes" (.casts d), .kwarg "**" .kwargs] =>
    (evalDfFromJson { ctx with input := .text s, columns := c, casts := d }).map Val.frame
  | _ => Option.none

def callLodFromJson {β : Type} (ctx : Ctx β) : List (Val β) → Option (Val β)
  | [.cls, .text s, .kwarg "keys" (.keys c), .kwarg "types" (.convs d), .kwarg "**" .kwargs] =>
    (evalLodFromJson { ctx with input := .text s, columns := c, convs := d }).map Val.recs
  | _ => Option.none

/-- `DataFrame.read_json(path, encoding=…, columns=…, dtypes=…, **kwargs)`. -/
def evalDfReadJson {β : Type} (ctx : Ctx β) : Option (Dict (ColV β)) :=
  match runOut ctx (callDfFromJson ctx) Mem.init (DI.Gen.DataFrame_read_json (truthOf ctx (callDfFromJson ctx))) with
  | some (.frame d) => some d
  | _ => Option.none

/-- `ListOfDicts.read_json(path, encoding=…, keys=…, types=…, **kwargs)`. -/
def evalLodReadJson {β : Type} (ctx : Ctx β) : Option (List (Rec β)) :=
  match runOut ctx (callLodFromJson ctx) Mem.init (DI.Gen.ListOfDicts_read_json (truthOf ctx (callLodFromJson ctx))) with
  | some (.recs l) => some l
  | _ => Option.none

/-- the assigned local `drop = [i for i in range(len(rows[0])) if colnames[i] not in keys]` of `read_csv` is inlined into
    the loop `for row in rows: for i in reversed(drop): del row[i]`; Python evaluates it where the assignment stands,
    also when there is no row to loop over (and it can raise: `rows[0]`, `colnames[i]`). -/
def inlinedLocals : List Term → List Term
  | [] => []
  | .app "for" [_, _, .app "block" [.app "for" [_, .app "reversed" [d], _]]] :: ts => d :: inlinedLocals ts
  | _ :: ts => inlinedLocals ts

def rowsT : Term :=
  Term.app "list()" [Term.app "csv.reader" [Term.app "with" [Term.app "util.xopen" [Term.sym "path", Term.sym "'rt'",
    Term.app "=encoding" [Term.sym "encoding"]]], Term.app "=dialect" [Term.sym "'unix'"], Term.app "=delimiter" [Term.sym "sep"]]]

/-- the right-hand side of `colnames = rows.pop(0) if header else util.generate_colnames(len(rows[0]))`, as the
    translator inlines it into every use of `colnames` (`Proofs/TieC14.lean`, `lod_read_csv_code`). -/
def colnamesT (header : Bool) : Term :=
  if header then Term.app ".pop" [rowsT, Term.int 0]
  else Term.app "util.generate_colnames" [Term.app "len" [Term.app "getitem" [rowsT, Term.int 0]]]

/-- `ListOfDicts.read_csv(path, encoding=…, sep=…, header=…, keys=…, types=…)`: the tests on the entry state (all lines
    still there); then the inlined assignment of `colnames` is executed ONCE where it stands (with a header the first
    line is popped; without lines it is never reached: the function has returned `cls([])`), and from then on every
    occurrence of its term denotes that value (the rows are shortened later — re-evaluating `len(rows[0])` would be
    wrong); the inlined local `drop` is evaluated once (it may raise); then the statements run. -/
def evalLodReadCsv {β : Type} (ctx : Ctx β) : Option (List (Rec β)) :=
  let m0 : Mem β := match evalE ctx noCall Mem.init (colnamesT ctx.header) [] with
    | some (.keys ns) => { Mem.init with names := some ns, rows := if ctx.header then some ctx.csvLines.tail else Option.none }
    | _ => Mem.init
  let out := DI.Gen.ListOfDicts_read_csv (truthOf ctx noCall)
  match allM (fun d => evalE ctx noCall m0 d []) (inlinedLocals out.effs) with
  | Option.none => Option.none
  | some _ =>
    match runOut ctx noCall m0 out with
    | some (.recs l) => some l
    | _ => Option.none

/-! ### what the frame constructor does afterwards -/

/-- `cls(**data)`: a plain list goes through the constructor's type inference (`infer`, a parameter: e.g. integers with
    a `None` among them become floats), a `DataFrameColumn` is taken as it is. -/
def construct {β : Type} (infer : List (Option β) → List (Option β)) (d : Dict (ColV β)) : Dict (List (Option β)) :=
  d.map fun p => (p.1, match p.2 with | .list xs => infer xs | .column xs => xs)

end DI.PyEvalRead

/-
  Model/Render.lean — text layout of DataFrame.to_string, Vector.to_string / to_strings (truncation),
  ListOfDicts.to_string and GeoJSON.to_string (C20).
  Strings are lists of characters; `wc : Char → Option Nat` is wcwidth (none = wcwidth -1).
  Per-dtype number formatting (format_floats, "{:,d}", str(x)) is not modelled: cell strings are inputs.
-/
namespace DI.Render

abbrev Str := List Char

/-- `wcwidth.wcswidth`: the sum of the widths, -1 (here `none`) if any character has none. -/
def wsum (wc : Char → Option Nat) : Str → Option Nat
  | [] => some 0
  | c :: cs =>
    match wc c, wsum wc cs with
    | some a, some b => some (a + b)
    | _, _ => none

/-- `util.ulen`: `length if length >= 0 else 0`. -/
def ulen (wc : Char → Option Nat) (s : Str) : Nat := (wsum wc s).getD 0

def spaces (n : Nat) : Str := List.replicate n ' '

def maxWidth (wc : Char → Option Nat) (xs : List Str) : Nat := (xs.map (ulen wc)).foldr max 0

/-- `util.upad(strings)` (align="right"): `width = max(ulen(x))`; `" " * (width - ulen(x)) + x`. -/
def upad (wc : Char → Option Nat) (xs : List Str) : List Str :=
  xs.map (fun x => spaces (maxWidth wc xs - ulen wc x) ++ x)

/-- characters at which `str.splitlines` breaks. -/
def isBreak (c : Char) : Bool :=
  c == '\n' || c == '\r' || c == '\x0b' || c == '\x0c' || c == '\x1c' || c == '\x1d' || c == '\x1e'
    || c == '\u0085' || c == '\u2028' || c == '\u2029'

/-- `string.splitlines()[0]` (for a non-empty string). -/
def firstLine (s : Str) : Str := s.takeWhile (fun c => !isBreak c)

/-- `util.utruncate(string, width)`: `for i in range(1, len(string)): if ulen(string[:i]) > width:
    return string[:i-1]`; `return string`. `go` scans i = i, i+1, …  with `fuel` steps left. -/
def utruncateGo (wc : Char → Option Nat) (s : Str) (width : Nat) : Nat → Nat → Str
  | _, 0 => s
  | i, fuel + 1 => if ulen wc (s.take i) > width then s.take (i - 1) else utruncateGo wc s width (i + 1) fuel

def utruncate (wc : Char → Option Nat) (s : Str) (width : Nat) : Str :=
  utruncateGo wc s width 1 (s.length - 1)

/-- the truncation step of `Vector.to_strings` for string / object vectors (after the fix that treats
    a cell ending in a line break like any other multi-line cell); `tw = none` is `inf`. -/
def truncCell (wc : Char → Option Nat) (tw : Option Nat) (s : Str) : Str :=
  match tw with
  | none => s
  | some t =>
    if ulen wc s > t || s.any isBreak then utruncate wc (firstLine s) (t - 1) ++ ['…'] else s

/-- `Vector.to_strings(pad=True, truncate_width=tw)` on the `str(x)` / quoted strings. -/
def toStrings (wc : Char → Option Nat) (tw : Option Nat) (xs : List Str) : List Str :=
  upad wc (xs.map (truncCell wc tw))

/-! ### DataFrame.to_string -/

/-- one display column: `upad([colname, dtype_label] + cells)` with the rule inserted at index 2. -/
def mkColumn (wc : Char → Option Nat) (name label : Str) (cells : List Str) : List Str :=
  match upad wc (name :: label :: cells) with
  | a :: b :: rest => a :: b :: List.replicate (ulen wc a) '─' :: rest
  | other => other

def natStr (n : Nat) : Str := Nat.toDigits 10 n

def rowNumbers (wc : Char → Option Nat) (n : Nat) : List Str :=
  upad wc ([] :: [] :: [] :: (List.range n).map natStr)

def joinSp (a b : Str) : Str := a ++ ' ' :: b

/-- the `while columns:` loop: the first remaining column always opens a batch; following columns are
    appended while `ulen(batch_rows[0] + column[0]) + 1 <= max_width`; returns, per batch, the columns
    it holds and its lines. -/
def layoutAux (wc : Char → Option Nat) (maxw : Nat) (rownums : List Str) :
    List (List Str) → List Str → List (List Str) → List (List (List Str) × List Str)
  | curCols, cur, [] => [(curCols.reverse, cur)]
  | curCols, cur, c :: cs =>
    if ulen wc (cur.headD [] ++ c.headD []) + 1 > maxw then
      (curCols.reverse, cur) :: layoutAux wc maxw rownums [c] (List.zipWith joinSp rownums c) cs
    else
      layoutAux wc maxw rownums (c :: curCols) (List.zipWith joinSp cur c) cs

def layout (wc : Char → Option Nat) (maxw : Nat) (rownums : List Str) :
    List (List Str) → List (List (List Str) × List Str)
  | [] => []
  | c :: cs => layoutAux wc maxw rownums [c] (List.zipWith joinSp rownums c) cs

/-- "." before the first batch, "" before the others. -/
def batchLines : Nat → List (List (List Str) × List Str) → List Str
  | _, [] => []
  | k, b :: bs => (if k = 0 then ['.'] else []) :: b.2 ++ batchLines (k + 1) bs

def footer (nrow : Nat) : Str := "... ".toList ++ natStr nrow ++ " rows total".toList

structure Col where
  name : Str
  label : Str
  cells : List Str      -- `column[:n].to_strings(quote=False, pad=True, truncate_width=…)`

/-- `DataFrame.to_string`: `none` is the empty string returned for a frame without columns. -/
def dfToString (wc : Char → Option Nat) (cols : List Col) (nrow maxRows maxWidth : Nat) : Option (List Str) :=
  if cols.isEmpty then none else
  let n := min nrow maxRows
  let columns := cols.map (fun c => mkColumn wc c.name c.label c.cells)
  let batches := layout wc maxWidth (rowNumbers wc n) columns
  some (batchLines 0 batches ++ [['.']] ++ (if maxRows < nrow then [footer nrow] else []))

/-- `GeoJSON.to_string`: geometry cells summarised as `<type>` / `None`, then `DataFrame.to_string`
    of the same rows. -/
def geoSummary (g : Option Str) : Str :=
  match g with
  | some t => '<' :: t ++ ['>']
  | none => "None".toList

/-! ### Vector.to_string -/

/-- `add_string_element(string, rows)`; `rows` is kept reversed (last row first), each row in order. -/
def addElem (wc : Char → Option Nat) (pw : Nat) (rows : List (List Str)) (s : Str) : List (List Str) :=
  match rows with
  | [] => [[s]]
  | last :: rest =>
    if last.length ≤ 1 then (last ++ [s]) :: rest
    else if ulen wc (((last ++ [s]).intersperse [' ']).flatten) < pw then (last ++ [s]) :: rest
    else [[' '], s] :: last :: rest

def vecTokens (elems : List Str) (cut : Bool) (label : Str) : List Str :=
  elems ++ (if cut then ["...".toList] else []) ++ [']' :: ' ' :: label]

/-- the rows of `Vector.to_string` (before the single-row strip), first row first. -/
def vecRows (wc : Char → Option Nat) (pw : Nat) (elems : List Str) (cut : Bool) (label : Str) : List (List Str) :=
  ((vecTokens elems cut label).foldl (addElem wc pw) [[['[']]]).reverse

/-- undo the wrapping: the first row, then every later row without its padding cell. -/
def unrows : List (List Str) → List Str
  | [] => []
  | r :: rs => r ++ (rs.map List.tail).flatten

/-! ### ListOfDicts.to_string -/

def lodToString (json : Str) (len maxItems : Nat) : Str :=
  if maxItems < len then json ++ " ... ".toList ++ natStr len ++ " items total".toList else json

end DI.Render

/-
  Model/Basic.lean — shared value and index layer of the dataiter model.

  Core Lean only (no Mathlib): this file is linked into the `driver` executable.

  * `Key`      non-missing key values as the harness encodes them (§3.4 of DESIGN.md):
               booleans, integers (also: order-isomorphic image of float64, datetime64 /
               timedelta64 ticks), strings as code point lists, opaque objects by tag.
  * `Option Key` is a cell; `none` is the missing value (NaN / NaT / "" / None).
  * index primitives standing in for NumPy: stable argsort, take, nonzero, delete, ...
-/
namespace DI

inductive Key where
  | b (v : Bool)
  | i (v : Int)
  | s (cs : List Nat)
  | o (tag : Nat)
  deriving DecidableEq, Repr, Inhabited

abbrev Cell := Option Key

/-- Lexicographic `≤` on code point lists (Python / NumPy string order). -/
def leCodes : List Nat → List Nat → Bool
  | [], _ => true
  | _ :: _, [] => false
  | a :: as, b :: bs => if a < b then true else if b < a then false else leCodes as bs

def Key.rank : Key → Nat
  | .b _ => 0 | .i _ => 1 | .s _ => 2 | .o _ => 3

/-- Total order on keys: values of one kind by their natural order
    (`false < true`, integers numerically, strings by code point, objects by tag);
    different kinds (never mixed in one column by the harness) by constructor. -/
def Key.le : Key → Key → Bool
  | .b x, .b y => !x || y
  | .i x, .i y => x ≤ y
  | .s x, .s y => leCodes x y
  | .o x, .o y => x ≤ y
  | k₁, k₂ => k₁.rank ≤ k₂.rank

/-- Order on cells used by a *raw* NumPy sort of the column:
    `naFirst = true`  : the missing value is the smallest element (`""` in string arrays),
    `naFirst = false` : it is the largest (NaN, NaT in float / datetime arrays). -/
def leRaw (le : κ → κ → Bool) (naFirst : Bool) : Option κ → Option κ → Bool
  | none, none => true
  | none, some _ => naFirst
  | some _, none => !naFirst
  | some a, some b => le a b

/-- Cells ordered with the missing value last (the order the properties talk about). -/
def leNaLast (le : κ → κ → Bool) : Option κ → Option κ → Bool := leRaw le false

/-- `np.argsort(kind="stable")` / the index part of a stable sort: values paired with their
    positions, merge-sorted by value only. -/
def sortPairs (le : α → α → Bool) (xs : List α) : List (α × Nat) :=
  xs.zipIdx.mergeSort (fun p q => le p.1 q.1)

def argsort (le : α → α → Bool) (xs : List α) : List Nat :=
  (sortPairs le xs).map (·.2)

/-- Python `sorted(xs, key=…, reverse=r)`: stable; with `reverse` every comparison is flipped
    (equal elements keep their original order). -/
def argsortPy (le : α → α → Bool) (reverse : Bool) (xs : List α) : List Nat :=
  argsort (fun a b => if reverse then le b a else le a b) xs

/-- `np.take(col, idx)` / `col[idx]` for an index vector. -/
def gather [Inhabited α] (col : List α) (idx : List Nat) : List α :=
  idx.map (fun i => col[i]!)

/-- `np.nonzero(mask)[0]`. -/
def nonzero (mask : List Bool) : List Nat :=
  (List.range mask.length).filter (fun i => mask[i]!)

/-- positions of `range n` not in `drop` (`np.delete(col, drop)` as an index list). -/
def deleteIdx (n : Nat) (drop : List Nat) : List Nat :=
  (List.range n).filter (fun i => !drop.contains i)

/-- running sums: `np.cumsum`. -/
def cumsumFrom (acc : Nat) : List Nat → List Nat
  | [] => []
  | x :: xs => (acc + x) :: cumsumFrom (acc + x) xs

def cumsum (xs : List Nat) : List Nat := cumsumFrom 0 xs

/-- `np.bincount(inv)` for values `< n`. -/
def bincount (inv : List Nat) (n : Nat) : List Nat :=
  (List.range n).map (fun k => inv.count k)

/-- sorted distinct values: the first output of `np.unique`. -/
def dedupAdj [DecidableEq α] : List α → List α
  | [] => []
  | [a] => [a]
  | a :: b :: rest => if a = b then dedupAdj (b :: rest) else a :: dedupAdj (b :: rest)

def sortedDistinct [DecidableEq α] (le : α → α → Bool) (xs : List α) : List α :=
  dedupAdj (xs.mergeSort le)

/-- `np.unique(xs, return_inverse=True)[1]`: for every element the position of its value
    among the sorted distinct values = the number of distinct values strictly smaller. -/
def uniqueInverse [DecidableEq α] (le : α → α → Bool) (xs : List α) : List Nat :=
  let u := sortedDistinct le xs
  xs.map (fun x => (u.filter (fun v => le v x && !(le x v))).length)

/-- `np.unique(xs, return_index=True)[1]`: for every sorted distinct value the index of its
    first occurrence. -/
def uniqueIndex [DecidableEq α] (le : α → α → Bool) (xs : List α) : List Nat :=
  (sortedDistinct le xs).map (fun v => xs.idxOf v)

end DI

/-
  Model/PyEvalAgg.lean — a meaning for the PER-GROUP bodies of `dataiter/aggregate.py` (C07): what is computed for every
  run that the group scan (`yield_groups`, Model/PyEvalScan.lean) hands on.

  `Proofs/TieC07.lean` shows that the translations of the current sources (`Generated/CodeC07.lean`) ARE the terms

      nth_apply           for xg in yield_groups(x, group, drop_na):
                              try: yield xg[index]
                              except IndexError: yield None
      mode_apply          for xg in …: yield mode1(xg) if len(xg) >= 1 else None
      mode1               try: return statistics.mode(x)
                          except statistics.StatisticsError: return Counter(x).most_common(1)[0][0]
      count_unique_apply  for xg in …: yield len(set(xg))
      quantile_apply      for xg in …: yield np.quantile(xg, q) if len(xg) >= 1 else np.nan
      generic(function, **kwargs).aggregate
                          for xg in …: yield function(xg, **kwargs) if len(xg) >= nrequired else default
      handle_na           x[~x.is_na()] if drop_na else x

  This file EXTENDS the evaluator of `Model/PyEvalScan.lean` (nothing there is changed; the call `yield_groups(x, group,
  drop_na)` is evaluated by running THAT evaluator on the translated body of `yield_groups`) by a small, total,
  computable big-step evaluator for exactly these statement forms:

  * expressions (`evalE`): integer literals, names (`None`, `np.nan`, the arguments), `len`, `>=`, the conditional
    expression `a if c else b` (lazy), `xg[index]` with Python's negative indices and **IndexError as an outcome**
    (`Ans.raised`), Boolean-mask indexing / `~` / `.is_na()` (for `handle_na`), `set(xg)`, `Counter(x)`,
    `.most_common(1)`, `pairs[0]`, `pair[0]`, `statistics.mode(x)`, `np.quantile(xg, q)`, the captured
    `function(xg, **kwargs)`, and calls of the three module functions `yield_groups` / `mode1` / `handle_na` through a
    function table (`Funs`: their translated bodies);
  * statements (`evalS` / `evalB`): `block`, `for xg in <generator>`, `yield e`, `return e`, the translator's `stmt`
    wrapper and `try: … except E: …` (empty `else` / `finally`): an exception raised in the `try` block is caught when its
    name is `E`, the handler runs from the state at the raise; any other exception propagates;
  * `run`: the list a `@deco.listify`-ed generator function returns (the yielded values in order), or the exception.

  What stays a PRIMITIVE (its meaning is a parameter, `Prims`):
  * `is_na` element-wise (as in PyEvalScan);
  * `keyEq`: "the same `set` / `dict` key" (Python: same hash and `is` / `==`).  It is a parameter because a float NaN is a
    key DIFFERENT from every other NaN object (`len({nan₁, nan₂}) = 2`) while the missing value of a string column (`None`)
    is one key — the flag `naDistinct` of `Model/Aggregate.lean`;
  * `function`: the meaning of `function(·, **kwargs)`, the closure variables of `generic` (`none` = it raises);
  * `quantile`: `np.quantile(xg, q)` — NumPy's own algorithm is NOT given a semantics here; at the model instance it is
    the model's `Agg.npQuantile` (linear interpolation), characterised in `Proofs/C07.lean`;
  * `strictMode`: Python < 3.8, where `statistics.mode` raises StatisticsError on a tie (the reason for the `except`
    branch of `mode1`); both values give the same result (`Lemmas/PyEvalAgg.lean`).

  The collections library is NOT a primitive: `Counter(x)` is a dict filled in iteration order (`counter`: keys in
  first-insertion order, `bump` increments the first equal key), `most_common(1)` is `max(items, key=count)`, which
  keeps the FIRST maximal item (`firstMax`), `set(x)` inserts in order (`pySet`); CPython ≥ 3.8's `statistics.mode` is
  `Counter(iter(data)).most_common(1)[0][0]`.

  Generators are run eagerly (`yield_groups(…)` evaluates to the list of its runs): the consuming bodies write neither
  `x` nor `group`, and `listify` makes the whole call all-or-nothing, so the interleaving is not observable.
  Everything else, and every other Python error, is `none` (stuck).
-/
import Model.PyEvalScan

namespace DI.PyEvalAgg

open DI.Py

/-! ### Python's containers, literally -/

/-- `xs[i]` for an integer `i`: a negative index counts from the end, outside `-len ≤ i < len` is IndexError (`none`). -/
def pyIndex {β : Type} (xs : List β) (i : Int) : Option β :=
  if 0 ≤ i then xs[i.toNat]?
  else if -(xs.length : Int) ≤ i then xs[(i + xs.length).toNat]?
  else none

/-- `c[a] += 1` on a dict kept in insertion order: the first equal key is incremented, a new key goes to the end. -/
def bump {α : Type} (eq : α → α → Bool) : List (α × Nat) → α → List (α × Nat)
  | [], a => [(a, 1)]
  | (k, n) :: t, a => if eq k a then (k, n + 1) :: t else (k, n) :: bump eq t a

/-- `Counter(xs)`: the items `(key, count)`, keys in the order of first insertion. -/
def counter {α : Type} (eq : α → α → Bool) (xs : List α) : List (α × Nat) := xs.foldl (bump eq) []

/-- `max(items, key=lambda p: p[1])` — what `heapq.nlargest(1, …)` of `most_common(1)` is: the FIRST maximal item. -/
def firstMax {α : Type} : List (α × Nat) → Option (α × Nat)
  | [] => none
  | p :: t => some (t.foldl (fun b q => if q.2 > b.2 then q else b) p)

/-- `s.add(a)` on a set kept in insertion order. -/
def setAdd {α : Type} (eq : α → α → Bool) (s : List α) (a : α) : List α :=
  if s.any (fun k => eq k a) then s else s ++ [a]

/-- `set(xs)`. -/
def pySet {α : Type} (eq : α → α → Bool) (xs : List α) : List α := xs.foldl (setAdd eq) []

/-! ### values, outcomes, primitives -/

inductive Val (α ρ : Type) where
  | int (i : Int)
  | bool (b : Bool)
  | vec (xs : List α)                   -- the column, a run
  | ids (g : List Nat)                  -- the array of group ids
  | mask (bs : List Bool)               -- a Boolean array
  | elem (a : α)                        -- one element of the column (`xg[index]`, the mode)
  | pyNone                              -- `None`
  | nan                                 -- `np.nan`
  | res (r : ρ)                         -- a number: the result of `function` / `np.quantile`, the argument `q`
  | set (ks : List α)                   -- a `set`: its keys
  | counter (ps : List (α × Nat))       -- a `Counter`: its items
  | pairs (ps : List (α × Nat))         -- a list of `(key, count)` tuples (`most_common`)
  | pair (a : α) (n : Nat)              -- one `(key, count)` tuple
  | runs (rs : List (List α))           -- the generator `yield_groups(…)`: its runs in order
  deriving Repr, Inhabited, DecidableEq

/-- an expression either has a value or raises the named exception. -/
inductive Ans (β : Type) where
  | ok (v : β)
  | raised (exc : String)
  deriving Repr, Inhabited, DecidableEq

/-- the meaning of the names the bodies do not define themselves (see the header). -/
structure Prims (α ρ : Type) where
  scan : PyEvalScan.Prims α
  keyEq : α → α → Bool
  function : List α → Option ρ
  quantile : List α → ρ → ρ
  strictMode : Bool

/-- the module functions the bodies call: the translated bodies of `yield_groups` and `mode1`, the translated result
    expression of `handle_na`. -/
structure Funs where
  yieldGroups : List Term
  mode1 : List Term
  handleNa : Term

abbrev Env (α ρ : Type) := List (String × Val α ρ)

/-- sequencing: the first exception wins. -/
def bindA {β γ : Type} (r : Option (Ans β)) (k : β → Option (Ans γ)) : Option (Ans γ) :=
  match r with
  | none => none
  | some (.raised e) => some (.raised e)
  | some (.ok v) => k v

/-- `statistics.mode(xs)`: StatisticsError for no data; CPython ≥ 3.8: `Counter(iter(xs)).most_common(1)[0][0]`;
    before 3.8 (`strict`): StatisticsError unless exactly one key has the maximal count. -/
def statMode {α ρ : Type} (eq : α → α → Bool) (strict : Bool) (xs : List α) : Ans (Val α ρ) :=
  match firstMax (counter eq xs) with
  | none => .raised "statistics.StatisticsError"
  | some m =>
    if strict && ((counter eq xs).filter (fun p => p.2 == m.2)).length != 1 then .raised "statistics.StatisticsError"
    else .ok (.elem m.1)

/-! ### expressions -/

/-- the value of an expression term; `call` is the meaning of the calls of module functions. -/
def evalE {α ρ : Type} (P : Prims α ρ) (call : String → List (Val α ρ) → Option (Ans (Val α ρ))) :
    Term → Env α ρ → Option (Ans (Val α ρ))
  | .int i, _ => some (.ok (.int i))
  | .sym x, env =>
    if x = "None" then some (.ok .pyNone)
    else if x = "np.nan" then some (.ok .nan)
    else (env.lookup x).map .ok
  | .app "len" [e], env =>
    bindA (evalE P call e env) fun v => match v with
      | .vec xs => some (.ok (.int xs.length))
      | .set ks => some (.ok (.int ks.length))
      | .ids g => some (.ok (.int g.length))
      | .mask bs => some (.ok (.int bs.length))
      | .pairs ps => some (.ok (.int ps.length))
      | .counter ps => some (.ok (.int ps.length))
      | _ => none
  | .app "GtE" [a, b], env =>
    bindA (evalE P call a env) fun va => bindA (evalE P call b env) fun vb => match va, vb with
      | .int p, .int q => some (.ok (.bool (decide (p ≥ q))))
      | _, _ => none
  | .app "ifexp" [c, a, b], env =>                                -- `a if c else b`: only the chosen branch is evaluated
    bindA (evalE P call c env) fun vc => match vc with
      | .bool true => evalE P call a env
      | .bool false => evalE P call b env
      | _ => none
  | .app "getitem" [x, k], env =>
    bindA (evalE P call x env) fun vx => bindA (evalE P call k env) fun vk => match vx, vk with
      | .vec xs, .int i => (match pyIndex xs i with
          | some a => some (.ok (.elem a))
          | none => some (.raised "IndexError"))
      | .vec xs, .mask bs => (PyEvalScan.maskSelect xs bs).map fun r => .ok (.vec r)
      | .pairs ps, .int i => (match pyIndex ps i with
          | some p => some (.ok (.pair p.1 p.2))
          | none => some (.raised "IndexError"))
      | .pair a n, .int i => (match pyIndex [Val.elem a, Val.int n] i with
          | some v => some (.ok v)
          | none => some (.raised "IndexError"))
      | _, _ => none
  | .app "~" [e], env =>
    bindA (evalE P call e env) fun v => match v with
      | .mask bs => some (.ok (.mask (bs.map (!·))))
      | _ => none
  | .app ".is_na" [e], env =>
    bindA (evalE P call e env) fun v => match v with
      | .vec xs => some (.ok (.mask (xs.map P.scan.isNa)))
      | _ => none
  | .app "set()" [e], env =>
    bindA (evalE P call e env) fun v => match v with
      | .vec xs => some (.ok (.set (pySet P.keyEq xs)))
      | _ => none
  | .app "Counter" [e], env =>
    bindA (evalE P call e env) fun v => match v with
      | .vec xs => some (.ok (.counter (counter P.keyEq xs)))
      | _ => none
  | .app ".most_common" [c, n], env =>                            -- only `most_common(1)`
    bindA (evalE P call c env) fun vc => bindA (evalE P call n env) fun vn => match vc, vn with
      | .counter ps, .int 1 => some (.ok (.pairs (firstMax ps).toList))
      | _, _ => none
  | .app "statistics.mode" [e], env =>
    bindA (evalE P call e env) fun v => match v with
      | .vec xs => some (statMode P.keyEq P.strictMode xs)
      | _ => none
  | .app "np.quantile" [e, q], env =>
    bindA (evalE P call e env) fun v => bindA (evalE P call q env) fun vq => match v, vq with
      | .vec xs, .res r => some (.ok (.res (P.quantile xs r)))
      | _, _ => none
  | .app "function" [e, .app "=**" [.sym "kwargs"]], env =>      -- the closure variables of `generic`
    bindA (evalE P call e env) fun v => match v with
      | .vec xs => (P.function xs).map fun r => .ok (.res r)
      | _ => none
  | .app "mode1" [e], env =>
    bindA (evalE P call e env) fun v => call "mode1" [v]
  | .app "handle_na" [a, b], env =>
    bindA (evalE P call a env) fun va => bindA (evalE P call b env) fun vb => call "handle_na" [va, vb]
  | .app "yield_groups" [a, b, c], env =>
    bindA (evalE P call a env) fun va => bindA (evalE P call b env) fun vb => bindA (evalE P call c env) fun vc =>
      call "yield_groups" [va, vb, vc]
  | _, _ => none

/-! ### statements -/

structure St (α ρ : Type) where
  env : Env α ρ
  out : List (Val α ρ)          -- the values yielded so far, in order

/-- how a statement ended. -/
inductive Ctl (α ρ : Type) where
  | normal
  | raise (exc : String)
  | ret (v : Val α ρ)
  deriving Repr, DecidableEq

/-- `for v in <these runs>: body`; an exception or a `return` in the body ends the loop. -/
def loopRuns {α ρ : Type} (body : St α ρ → Option (Ctl α ρ × St α ρ)) (v : String) :
    List (List α) → St α ρ → Option (Ctl α ρ × St α ρ)
  | [], s => some (.normal, s)
  | r :: rs, s =>
    match body { s with env := (v, .vec r) :: s.env } with
    | some (.normal, s') => loopRuns body v rs s'
    | other => other

mutual
/-- one statement. -/
def evalS {α ρ : Type} (P : Prims α ρ) (call : String → List (Val α ρ) → Option (Ans (Val α ρ))) :
    Term → St α ρ → Option (Ctl α ρ × St α ρ)
  | .app "block" ss, s => evalB P call ss s
  | .app "stmt" [t], s => evalS P call t s
  | .app "yield" [e], s =>
    match evalE P call e s.env with
    | some (.ok v) => some (.normal, { s with out := s.out ++ [v] })
    | some (.raised x) => some (.raise x, s)                      -- raised before anything is yielded
    | none => none
  | .app "return" [e], s =>
    match evalE P call e s.env with
    | some (.ok v) => some (.ret v, s)
    | some (.raised x) => some (.raise x, s)
    | none => none
  | .app "for" [.sym v, it, body], s =>
    match evalE P call it s.env with
    | some (.ok (.runs rs)) => loopRuns (evalS P call body) v rs s
    | some (.raised x) => some (.raise x, s)
    | _ => none
  | .app "try" [.app "block" b, .app "except" [.sym exc, .app "block" h], .app "else" [.app "block" []],
      .app "finally" [.app "block" []]], s =>
    match evalB P call b s with
    | some (.raise x, s') => if x = exc then evalB P call h s' else some (.raise x, s')
    | other => other
  | _, _ => none
/-- a block: the statements in order; an exception or a `return` skips the rest. -/
def evalB {α ρ : Type} (P : Prims α ρ) (call : String → List (Val α ρ) → Option (Ans (Val α ρ))) :
    List Term → St α ρ → Option (Ctl α ρ × St α ρ)
  | [], s => some (.normal, s)
  | t :: ts, s =>
    match evalS P call t s with
    | some (.normal, s') => evalB P call ts s'
    | other => other
end

/-! ### calls of module functions -/

/-- inside `mode1` / `handle_na` no module function is called. -/
def call0 {α ρ : Type} : String → List (Val α ρ) → Option (Ans (Val α ρ)) := fun _ _ => none

/-- a call of a (non-generator) function with the given body: its `return` value, `None` when the end is reached. -/
def execFun {α ρ : Type} (P : Prims α ρ) (body : List Term) (env : Env α ρ) : Option (Ans (Val α ρ)) :=
  match evalB P call0 body { env := env, out := [] } with
  | some (.ret v, _) => some (.ok v)
  | some (.normal, _) => some (.ok .pyNone)
  | some (.raise x, _) => some (.raised x)
  | none => none

/-- the three module functions: `yield_groups` runs the evaluator of Model/PyEvalScan.lean on its translated body. -/
def call1 {α ρ : Type} (P : Prims α ρ) (F : Funs) : String → List (Val α ρ) → Option (Ans (Val α ρ))
  | "yield_groups", [.vec x, .ids g, .bool d] =>
    (PyEvalScan.run P.scan F.yieldGroups (PyEvalScan.args x g d)).map fun rs => .ok (.runs rs)
  | "mode1", [v] => execFun P F.mode1 [("x", v)]
  | "handle_na", [x, d] => evalE P call0 F.handleNa [("x", x), ("drop_na", d)]
  | _, _ => none

/-- what a `@deco.listify`-ed generator function with these effects returns on the given arguments: the list of the
    yielded values, or the exception that escaped. -/
def run {α ρ : Type} (P : Prims α ρ) (F : Funs) (effs : List Term) (env : Env α ρ) : Option (Ans (List (Val α ρ))) :=
  match evalB P (call1 P F) effs { env := env, out := [] } with
  | some (.raise x, _) => some (.raised x)
  | some (_, s) => some (.ok s.out)
  | none => none

/-! ### the arguments -/

/-- `f(x, group, drop_na)`. -/
def args {α ρ : Type} (x : List α) (group : List Nat) (dropNa : Bool) : Env α ρ :=
  [("x", .vec x), ("group", .ids group), ("drop_na", .bool dropNa)]

/-- `nth_apply(x, group, index, drop_na)`. -/
def nthArgs {α ρ : Type} (x : List α) (group : List Nat) (index : Int) (dropNa : Bool) : Env α ρ :=
  ("index", .int index) :: args x group dropNa

/-- `quantile_apply(x, group, q, drop_na)`. -/
def quantileArgs {α ρ : Type} (x : List α) (group : List Nat) (q : ρ) (dropNa : Bool) : Env α ρ :=
  ("q", .res q) :: args x group dropNa

/-- `generic(function, **kwargs)(x, group, drop_na, default, nrequired)`. -/
def genericArgs {α ρ : Type} (x : List α) (group : List Nat) (dropNa : Bool) (default : Val α ρ) (nrequired : Int) :
    Env α ρ :=
  ("default", default) :: ("nrequired", .int nrequired) :: args x group dropNa

/-- the body of the closure a `def` inside a function creates (`generic` returns it). -/
def closureBody : Out → Option (List Term)
  | .ret _ (.app "local-def" [.app "def" [_, _, _, .app "block" body]]) => some body
  | _ => none

end DI.PyEvalAgg

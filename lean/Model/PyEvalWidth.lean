/-
  Model/PyEvalWidth.lean — a meaning for the width helpers of `dataiter/util.py` (C20): `ulen`, `upad`, `utruncate`, as
  the source translator `harness/py2lean.py` emits them (`Generated/CodeC20.lean`: `util_ulen`, `util_upad`,
  `util_utruncate`; normal forms in `Proofs/TieC20.lean`).

      def ulen(string):                          @deco.listify
          length = wcwidth.wcswidth(string)      def upad(strings, *, align="right"):
          return length if length >= 0 else 0        width = max(ulen(x) for x in strings)
                                                     for value in strings:
      def utruncate(string, width):                      padding = " " * (width - ulen(value))
          for i in range(1, len(string)):                yield (padding + value if align == "right"
              if ulen(string[:i]) > width:                      else value + padding)
                  return string[:(i-1)]
          return string

  * strings are `List Char`; the ONE parameter is `w : Char → Int`, `wcwidth.wcwidth` per character (real values: -1 for
    a non-printable character, 0 for a combining / zero-width one, 1, 2).  `wcswidth` is DEFINED from it (trusted
    reading): the sum of the widths, or -1 as soon as one character has a negative width.  (The `wcwidth` package also
    treats ZWJ / VS16 sequences specially; like `Model/Render.lean` this reading does not.)
  * `ulen` inside the other two terms is a CALL of the translated `util_ulen` (`callUlen`), not a re-implementation.
  * a small, total, computable big-step evaluator for exactly the forms of the three terms.  Expressions: names, quoted
    literals (`sym "' '"` is the string of one space), `None`, integers, `ulen`, `len`, `Add` (`+` on strings / integers),
    `Sub`, `Mult` (string * integer: a non-positive count gives ""), `Eq`, `Gt`, `ifexp`, the slice `s[a:b]` with Python's
    bound normalisation (`DI.Py.normBound`; `None` bounds), `range(a, b)`, and `max(<generator expression>)` (ValueError =
    `none` on an empty iterable).  Statements: `for` over a list of strings or a range, `block`, `if`, `assign`, `yield`,
    `return` (which ends the enclosing loops: `Ctl.ret`).
  * `utruncate` is a `for` loop over `range(1, len(string))` (NOT a `while`): the evaluator walks the finite list
    `arange 1 len`, so no fuel is needed and every run terminates — whatever the widths (0, negative) are.
  * `none` = unsupported form or Python exception.

  `Lemmas/PyEvalWidth.lean` proves what the three evaluations compute and that they are the functions of
  `Model/Render.lean` at `wcOf w`; `Proofs/EvalC20.lean` states it.
-/
import Model.PyCore
import Model.Render
import Generated.CodeC20

namespace DI.PyEvalWidth

open DI DI.Py

abbrev Str := List Char

/-! ### wcwidth (the trusted part) -/

/-- `wcwidth.wcswidth(s)`: the sum of the per-character widths; -1 if some character has a negative width. -/
def wcswidth (w : Char → Int) (s : Str) : Int :=
  if s.all (fun c => decide (0 ≤ w c)) then (s.map w).sum else -1

/-- the width function of `Model/Render.lean` (`none` = wcwidth -1) that `w` induces. -/
def wcOf (w : Char → Int) (c : Char) : Option Nat := if w c < 0 then none else some (w c).toNat

/-! ### values -/

inductive Val where
  | none
  | int (i : Int)
  | bool (b : Bool)
  | str (s : Str)
  | strs (xs : List Str)          -- a list of strings (`strings`)
  | ints (l : List Int)           -- a `range`
  deriving DecidableEq, Repr, Inhabited

abbrev Env := List (String × Val)

/-- a quoted source literal without escapes: `'…'`. -/
def literal? (x : String) : Option Str :=
  match x.toList with
  | '\'' :: rest =>
    if rest.getLast? = some '\'' && !rest.dropLast.contains '\\' && !rest.dropLast.contains '\'' then some rest.dropLast
    else Option.none
  | _ => Option.none

/-- `ulen(s)`: the translated function on the atom `wcwidth.wcswidth(string)`. -/
def callUlen (w : Char → Int) (s : Str) : Option Int :=
  match DI.Gen.util_ulen (fun _ => false) (wcswidth w s) with
  | .ret [] (.int v) => some v
  | _ => Option.none

/-- Python `max` of a non-empty iterable of integers (ValueError on an empty one). -/
def pyMax : List Int → Option Int
  | [] => Option.none
  | a :: as => some (as.foldl pmax a)

/-- `s * n`. -/
def strMul (s : Str) (n : Int) : Str := (List.replicate n.toNat s).flatten

/-- `s[a:b]` (step 1), any integer / `None` bounds. -/
def strSlice (s : Str) (a b : Option Int) : Str :=
  let lo : Int := match a with | Option.none => 0 | some x => normBound s.length x
  let hi : Int := match b with | Option.none => s.length | some x => normBound s.length x
  (s.take hi.toNat).drop lo.toNat

def Val.asBound : Val → Option (Option Int)
  | .none => some Option.none
  | .int i => some (some i)
  | _ => Option.none

def Val.asInt : Val → Option Int | .int i => some i | _ => Option.none

/-- what iterating over a value yields. -/
def iterOf : Val → Option (List Val)
  | .strs xs => some (xs.map Val.str)
  | .ints l => some (l.map Val.int)
  | .str s => some (s.map (fun c => Val.str [c]))
  | _ => Option.none

/-- `f` on every element, all must succeed. -/
def allM {α β : Type} (f : α → Option β) : List α → Option (List β)
  | [] => some []
  | a :: as => (f a).bind (fun b => (allM f as).map (fun bs => b :: bs))

/-! ### expressions -/

def evalE (w : Char → Int) : Term → Env → Option Val
  | .int i, _ => some (.int i)
  | .sym "None", _ => some .none
  | .sym x, ρ => match literal? x with | some s => some (.str s) | Option.none => ρ.lookup x
  | .app "ulen" [e], ρ =>
    (evalE w e ρ).bind fun v => match v with | .str s => (callUlen w s).map Val.int | _ => Option.none
  | .app "len" [e], ρ =>
    (evalE w e ρ).bind fun v => match v with
      | .str s => some (.int s.length) | .strs xs => some (.int xs.length) | .ints l => some (.int l.length)
      | _ => Option.none
  | .app "Add" [a, b], ρ =>
    (evalE w a ρ).bind fun va => (evalE w b ρ).bind fun vb => match va, vb with
      | .str p, .str q => some (.str (p ++ q)) | .int p, .int q => some (.int (p + q)) | _, _ => Option.none
  | .app "Sub" [a, b], ρ =>
    (evalE w a ρ).bind fun va => (evalE w b ρ).bind fun vb => match va, vb with
      | .int p, .int q => some (.int (p - q)) | _, _ => Option.none
  | .app "Mult" [a, b], ρ =>
    (evalE w a ρ).bind fun va => (evalE w b ρ).bind fun vb => match va, vb with
      | .str p, .int q => some (.str (strMul p q)) | .int p, .int q => some (.int (p * q)) | _, _ => Option.none
  | .app "Eq" [a, b], ρ =>
    (evalE w a ρ).bind fun va => (evalE w b ρ).bind fun vb => match va, vb with
      | .str p, .str q => some (.bool (decide (p = q))) | .int p, .int q => some (.bool (decide (p = q)))
      | _, _ => Option.none
  | .app "Gt" [a, b], ρ =>
    (evalE w a ρ).bind fun va => (evalE w b ρ).bind fun vb => match va, vb with
      | .int p, .int q => some (.bool (decide (p > q))) | _, _ => Option.none
  | .app "ifexp" [c, a, b], ρ =>
    (evalE w c ρ).bind fun vc => match vc with
      | .bool true => evalE w a ρ | .bool false => evalE w b ρ | _ => Option.none
  | .app "getitem" [x, .app "slice" [a, b]], ρ =>
    (evalE w x ρ).bind fun vx => (evalE w a ρ).bind fun va => (evalE w b ρ).bind fun vb =>
      match vx with
      | .str s => va.asBound.bind fun p => vb.asBound.map fun q => .str (strSlice s p q)
      | _ => Option.none
  | .app "range" [a, b], ρ =>
    (evalE w a ρ).bind fun va => (evalE w b ρ).bind fun vb => match va, vb with
      | .int p, .int q => some (.ints (arange p q)) | _, _ => Option.none
  | .app "max" [.app "GeneratorExp" [body, .app "in" [.sym x, it, .app "if" []]]], ρ =>
    (evalE w it ρ).bind fun vi => (iterOf vi).bind fun vs =>
      (allM (fun v => (evalE w body ((x, v) :: ρ)).bind Val.asInt) vs).bind fun ns => (pyMax ns).map Val.int
  | _, _ => Option.none

/-! ### statements -/

structure St where
  env : Env
  out : List Str            -- yielded so far, in order
  deriving Repr

/-- how a statement ended: normally, or with a `return` (which ends the enclosing loops and the body). -/
inductive Ctl where
  | normal
  | ret (v : Val)
  deriving DecidableEq, Repr

/-- `for v in <these values>: body`. -/
def loopOver (body : St → Option (Ctl × St)) (v : String) : List Val → St → Option (Ctl × St)
  | [], s => some (Ctl.normal, s)
  | a :: as, s =>
    (body { s with env := (v, a) :: s.env }).bind fun r =>
      match r.1 with
      | .normal => loopOver body v as r.2
      | .ret x => some (Ctl.ret x, r.2)

mutual
def evalS (w : Char → Int) : Term → St → Option (Ctl × St)
  | .app "block" ss, s => evalB w ss s
  | .app "if" [c, a, b], s =>
    (evalE w c s.env).bind fun vc => match vc with
      | .bool true => evalS w a s
      | .bool false => evalS w b s
      | _ => Option.none
  | .app "for" [.sym v, it, body], s =>
    (evalE w it s.env).bind fun vi => (iterOf vi).bind fun vs => loopOver (evalS w body) v vs s
  | .app "assign" [.sym x, e], s =>
    (evalE w e s.env).map fun v => (Ctl.normal, { s with env := (x, v) :: s.env })
  | .app "yield" [e], s =>
    (evalE w e s.env).bind fun v => match v with
      | .str x => some (Ctl.normal, { s with out := s.out ++ [x] }) | _ => Option.none
  | .app "return" [e], s => (evalE w e s.env).map fun v => (Ctl.ret v, s)
  | _, _ => Option.none
def evalB (w : Char → Int) : List Term → St → Option (Ctl × St)
  | [], s => some (Ctl.normal, s)
  | t :: ts, s => (evalS w t s).bind fun r => match r.1 with | .normal => evalB w ts r.2 | .ret _ => some r
end

/-- the meaning of a translated function body on the arguments `ρ`: the strings it yields and the value it returns
    (`None` when the end of the body is reached). -/
def runOut (w : Char → Int) : Out → Env → Option (List Str × Val)
  | .ret effs t, ρ =>
    (evalB w effs { env := ρ, out := [] }).bind fun r =>
      match r.1 with
      | .ret v => some (r.2.out, v)
      | .normal => (evalE w t r.2.env).map fun v => (r.2.out, v)
  | .fall effs, ρ =>
    (evalB w effs { env := ρ, out := [] }).map fun r =>
      match r.1 with
      | .ret v => (r.2.out, v)
      | .normal => (r.2.out, Val.none)
  | .raise _ _, _ => Option.none

/-! ### the three functions -/

/-- `ulen(s)`. -/
def evalUlen (truth : Term → Bool) (w : Char → Int) (s : Str) : Option Int :=
  match DI.Gen.util_ulen truth (wcswidth w s) with
  | .ret [] (.int v) => some v
  | _ => Option.none

/-- `upad(strings, align=align)`: `deco.listify` makes the list of the yielded strings. -/
def evalUpad (truth : Term → Bool) (w : Char → Int) (strings : List Str) (align : Str) : Option (List Str) :=
  (runOut w (DI.Gen.util_upad truth) [("strings", .strs strings), ("align", .str align)]).map (·.1)

/-- `utruncate(string, width)`. -/
def evalUtruncate (truth : Term → Bool) (w : Char → Int) (string : Str) (width : Int) : Option Str :=
  (runOut w (DI.Gen.util_utruncate truth) [("string", .str string), ("width", .int width)]).bind fun r =>
    match r.2 with | .str s => some s | _ => Option.none

end DI.PyEvalWidth
